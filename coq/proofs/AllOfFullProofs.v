(* C12 — allOf inheritance for EVERY library-accepted project (part 4 of 4): the initial heap is
   well typed, ProcessAllOf visits every schema root, the height of a closure, the theorem. *)
From Coq Require Import List NArith Bool String Lia Arith PeanoNat.
From JV.lib Require Import Bytes.
From JV.model Require Import AllOf.
From JV.spec Require Import AllOfSpec.
From JV.proofs Require Import AllOfProofs AllOfHeapTyping AllOfCopyLoop AllOfProcess.
Import ListNotations.
Open Scope nat_scope.

Lemma Forall2_compose {A B C} (R : A -> B -> Prop) (S : B -> C -> Prop) (T : A -> C -> Prop) l1 l2 l3 :
  (forall a b c, R a b -> S b c -> T a c) -> Forall2 R l1 l2 -> Forall2 S l2 l3 -> Forall2 T l1 l3.
Proof.
  intros H HR. revert l3. induction HR as [|a b l1 l2 Hab _ IH]; intros l3 HS; inversion HS; subst; constructor; eauto.
Qed.

Lemma forallb_In {A} (f : A -> bool) l a : forallb f l = true -> In a l -> f a = true.
Proof. intros Hf Hin. rewrite forallb_forall in Hf. auto. Qed.

(* ------------------------------------------------------------------------------------- *)
(* the initial heap is well typed: the node built for the subtree (key, t) stands for it, unmarked *)

Section Init.
  Variable tys : list (bytes * option tree).
  Variable D : nat.

  Notation tg := (tg tys D).
  Notation spd := (spd tys).
  Notation node_ok := (node_ok tys D).
  Notation child_ok := (child_ok tys D).

  Definition src_entry (key : option bytes) (t : tree) : entry := {| en_mark := []; en_key := key; en_tree := t |}.

  (* what the schema library guarantees of a subtree *)
  Definition good_src (key : option bytes) (t : tree) : Prop :=
    twf t /\ exists x, spec_tree D tys key t = Some x /\ rtree_ok x = true.

  Lemma tg_src key t x : spec_tree D tys key t = Some x -> tg (src_entry key t) = Some x.
  Proof.
    intros Hx. unfold AllOfHeapTyping.tg, AllOfHeapTyping.spd. simpl. rewrite Hx. simpl.
    destruct (spec_root tys _ _ _ _ Hx) as (_ & _ & Hi). rewrite <- Hi, mark_own. reflexivity.
  Qed.

  Lemma good_src_kids key tk ao kids :
    good_src key (Tree tk ao kids) ->
    exists d own inh, D = S d /\
      all_some (map (fun kc => spec_tree d tys (fst kc) (snd kc)) kids) = Some own /\
      spec_tree D tys key (Tree tk ao kids) = Some (RNode key tk [] (List.concat inh ++ own)) /\
      forallb rtree_ok own = true /\
      forall kc, In kc kids -> good_src (fst kc) (snd kc).
  Proof.
    intros (Hw & x & Hx & Hok). destruct D as [|d] eqn:ED; [discriminate|].
    destruct (spec_unfold tys d _ _ _ _ x Hx) as (own & inh & Ho & Hi & ->).
    assert (Hoko : forallb rtree_ok own = true).
    { simpl in Hok. apply andb_true_iff in Hok as [Hok _]. rewrite forallb_app in Hok.
      apply andb_true_iff in Hok. tauto. }
    exists d, own, inh. repeat split; auto.
    - eapply twf_kids; eauto.
    - assert (HF := all_some_map_some _ _ _ Ho).
      destruct (Forall2_In_l _ _ _ _ HF H) as (y & Hy & Hs).
      exists y. split; [rewrite ED; apply (spec_tree_le d (S d)); [lia|exact Hs]|]. eapply forallb_In; eauto.
  Qed.

  Lemma node_ok_init G key tk ao kids ids :
    good_src key (Tree tk ao kids) ->
    Forall2 (fun c kc => nth_error G c = Some (src_entry (fst kc) (snd kc))) ids kids ->
    node_ok G (src_entry key (Tree tk ao kids))
            {| n_key := key; n_tok := tk; n_allof := ao; n_children := ids; n_inh := [] |}.
  Proof.
    intros Hgood Hids. assert (Hgood' := Hgood). destruct Hgood' as (Hw & x & Hx & Hok).
    destruct (good_src_kids _ _ _ _ Hgood) as (d & own & inh & HD & Ho & Hx' & Hoko & Hgk).
    split; simpl; auto.
    - intros Htk. destruct (twf_rootwf _ Hw) as [Hr _]. destruct ao; [reflexivity|].
      exfalso. apply Htk. apply Hr. discriminate.
    - exists x, (List.concat inh), own. split; [apply tg_src; exact Hx|]. split; [exact Hok|].
      split; [rewrite Hx' in Hx; injection Hx as <-; reflexivity|].
      split; [rewrite (all_some_length _ _ _ Ho); lia|].
      apply all_some_map_some in Ho.
      eapply Forall2_compose; [|exact Hids|exact Ho].
      intros c kc y Hc Hy. exists (src_entry (fst kc) (snd kc)). split; [exact Hc|].
      apply tg_src. apply (spec_tree_le d D); [lia|exact Hy].
    - intros d' c ec Hd' Hc Hnc. unfold AllOfHeapTyping.spd in Hd'. cbn [en_key en_tree src_entry] in Hd'.
      destruct (spec_tree (S d') tys key (Tree tk ao kids)) as [x'|] eqn:Ex'; [|congruence].
      destruct (spec_unfold tys d' _ _ _ _ x' Ex') as (own' & _ & Ho' & _).
      destruct (In_nth_error _ _ Hc) as (q & Hq).
      destruct (Forall2_nth_l _ _ _ _ _ Hids Hq) as (kc & Hkc & Hn').
      assert (ec = src_entry (fst kc) (snd kc)) by congruence. subst ec.
      destruct (all_some_In _ _ _ kc Ho' (nth_error_In _ _ Hkc)) as (y & Hy).
      unfold AllOfHeapTyping.spd. simpl. congruence.
  Qed.

  (* every node from index lo on fits its entry *)
  Definition typed_from (lo : nat) (G : list entry) (hp : list node) : Prop :=
    forall j n, lo <= j -> nth_error hp j = Some n -> exists e, nth_error G j = Some e /\ node_ok G e n.

  Lemma typed_from_app lo G G1 hp xs :
    List.length G = List.length hp ->
    typed_from lo G hp -> typed_from (List.length hp) (G ++ G1) (hp ++ xs) -> typed_from lo (G ++ G1) (hp ++ xs).
  Proof.
    intros Hlen H1 H2 j n Hlo Hn. destruct (Nat.lt_ge_cases j (List.length hp)) as [Hlt|Hge].
    - rewrite nth_error_app1 in Hn; auto. destruct (H1 j n Hlo Hn) as (e & He & Hok).
      exists e. split; [eapply prefix_nth; [apply prefix_app|exact He]|].
      eapply node_ok_ext; [apply prefix_app|exact Hok].
    - apply H2; auto.
  Qed.

  Lemma typed_from_end G hp : typed_from (List.length hp) G hp.
  Proof.
    intros j n Hj Hn. assert (j < List.length hp) by (apply nth_error_Some; congruence). lia.
  Qed.

  Lemma typed_from_weaken lo lo' G hp : lo <= lo' -> typed_from lo G hp -> typed_from lo' G hp.
  Proof. intros Hle H j n Hj. apply H. lia. Qed.

  Definition built (h : list node) (G : list entry) (h' : list node) (G1 : list entry) : Prop :=
    exists xs, h' = h ++ xs /\ List.length G1 = List.length xs /\ typed_from (List.length h) (G ++ G1) h'.

  Lemma built_refl h G : built h G h [].
  Proof.
    exists []. rewrite !app_nil_r. split; [reflexivity|]. split; [reflexivity|]. apply typed_from_end.
  Qed.

  Lemma built_trans h G h1 G1 h2 G2 :
    List.length G = List.length h -> built h G h1 G1 -> built h1 (G ++ G1) h2 G2 -> built h G h2 (G1 ++ G2).
  Proof.
    intros Hlen (xs1 & -> & Hl1 & Ht1) (xs2 & -> & Hl2 & Ht2).
    exists (xs1 ++ xs2). split; [rewrite app_assoc; reflexivity|]. split; [rewrite !app_length; lia|].
    rewrite app_assoc. apply typed_from_app; [rewrite !app_length; lia|exact Ht1|exact Ht2].
  Qed.

  Lemma built_length h G h1 G1 : List.length G = List.length h -> built h G h1 G1 -> List.length (G ++ G1) = List.length h1.
  Proof. intros Hlen (xs & -> & Hl & _). rewrite !app_length. lia. Qed.

  Lemma build_tree_typed : forall t h key G,
    List.length G = List.length h -> good_src key t ->
    exists G1, built h G (fst (build_tree h key t)) G1 /\
               nth_error (G ++ G1) (snd (build_tree h key t)) = Some (src_entry key t).
  Proof.
    induction t as [tk ao kids IH] using tree_ind'. intros h key G Hlen Hgood.
    destruct (good_src_kids _ _ _ _ Hgood) as (_ & _ & _ & _ & _ & _ & _ & Hgk).
    rewrite build_eq.
    assert (Hk : forall h0 G0, List.length G0 = List.length h0 ->
              exists G1, built h0 G0 (fst (build_kids h0 kids)) G1 /\
                         Forall2 (fun c kc => nth_error (G0 ++ G1) c = Some (src_entry (fst kc) (snd kc)))
                                 (snd (build_kids h0 kids)) kids).
    { clear Hgood. induction IH as [|[k c] r Hc _ IHr]; intros h0 G0 Hlen0.
      - exists []. split; [apply built_refl|constructor].
      - rewrite build_kids_cons. simpl in Hc.
        destruct (Hc h0 k G0 Hlen0 (Hgk (k, c) (or_introl eq_refl))) as (G1 & Hb1 & Hr1).
        destruct (build_tree h0 k c) as [h1 i]. simpl in Hb1, Hr1.
        destruct (IHr (fun kc Hin => Hgk kc (or_intror Hin)) h1 (G0 ++ G1)) as (G2 & Hb2 & Hr2).
        { eapply built_length; eauto. }
        destruct (build_kids h1 r) as [h2 is]. simpl in Hb2, Hr2.
        exists (G1 ++ G2). simpl. split; [eapply built_trans; eauto|].
        rewrite app_assoc. constructor; [|exact Hr2].
        simpl. eapply prefix_nth; [apply prefix_app|exact Hr1]. }
    destruct (Hk h G Hlen) as (G1 & Hb1 & Hids).
    destruct (build_kids h kids) as [h1 ids]. simpl in Hb1, Hids.
    set (nd := {| n_key := key; n_tok := tk; n_allof := ao; n_children := ids; n_inh := [] |}).
    set (en := src_entry key (Tree tk ao kids)).
    exists (G1 ++ [en]). simpl.
    assert (Hlen1 : List.length (G ++ G1) = List.length h1) by (eapply built_length; eauto).
    assert (Hnth : nth_error ((G ++ G1) ++ [en]) (List.length h1) = Some en).
    { rewrite nth_error_app2; [|lia]. rewrite Hlen1, Nat.sub_diag. reflexivity. }
    split; [|rewrite app_assoc; exact Hnth].
    eapply built_trans; [exact Hlen|exact Hb1|].
    exists [nd]. split; [reflexivity|]. split; [reflexivity|].
    intros j n Hj Hn. rewrite nth_error_app2 in Hn; [|exact Hj].
    destruct (j - List.length h1) as [|q] eqn:Eq; simpl in Hn; [|destruct q; discriminate].
    injection Hn as <-. assert (j = List.length h1) by lia. subst j.
    exists en. split; [exact Hnth|].
    apply node_ok_init; [exact Hgood|].
    eapply Forall2_impl'; [|exact Hids]. intros c kc Hc. eapply prefix_nth; [apply prefix_app|exact Hc].
  Qed.

  Definition tyent (G : list entry) (a : bytes * option tree) (b : bytes * option id) : Prop :=
    fst a = fst b /\
    match snd a, snd b with
    | Some t, Some r => nth_error G r = Some (type_entry t)
    | None, None => True
    | _, _ => False
    end.

  Definition useent (G : list entry) (a : ukind * tree) (b : ukind * id) : Prop :=
    fst a = fst b /\ nth_error G (snd b) = Some (type_entry (snd a)).

  Lemma tyent_ext G G' a b : prefix G G' -> tyent G a b -> tyent G' a b.
  Proof.
    intros Hp [Hk Hm]. split; auto. destruct (snd a), (snd b); auto. eapply prefix_nth; eauto.
  Qed.

  Lemma useent_ext G G' a b : prefix G G' -> useent G a b -> useent G' a b.
  Proof. intros Hp [Hk Hm]. split; auto. eapply prefix_nth; eauto. Qed.

  Lemma build_types_typed : forall tsrc h G,
    List.length G = List.length h -> (forall n t, In (n, Some t) tsrc -> good_src None t) ->
    exists G1, built h G (fst (build_types h tsrc)) G1 /\ Forall2 (tyent (G ++ G1)) tsrc (snd (build_types h tsrc)).
  Proof.
    induction tsrc as [|[name o] tsrc IH]; intros h G Hlen Hgood.
    - exists []. simpl. split; [apply built_refl|constructor].
    - simpl. destruct o as [t|].
      + destruct (build_tree_typed t h None G Hlen (Hgood name t (or_introl eq_refl))) as (G1 & Hb1 & Hr1).
        destruct (build_tree h None t) as [h1 i]. simpl in Hb1, Hr1.
        destruct (IH h1 (G ++ G1)) as (G2 & Hb2 & Hf2).
        { eapply built_length; eauto. }
        { intros n' t' Hin. apply (Hgood n' t'). right. exact Hin. }
        destruct (build_types h1 tsrc) as [h2 out]. simpl in Hb2, Hf2.
        exists (G1 ++ G2). simpl. split; [eapply built_trans; eauto|].
        rewrite app_assoc. constructor; [|exact Hf2]. split; [reflexivity|]. simpl.
        eapply prefix_nth; [apply prefix_app|exact Hr1].
      + destruct (IH h G Hlen) as (G2 & Hb2 & Hf2).
        { intros n' t' Hin. apply (Hgood n' t'). right. exact Hin. }
        destruct (build_types h tsrc) as [h2 out]. simpl in Hb2, Hf2.
        exists G2. simpl. split; [exact Hb2|]. constructor; [|exact Hf2]. split; simpl; auto.
  Qed.

  Lemma build_uses_typed : forall usrc h G,
    List.length G = List.length h -> (forall k t, In (k, t) usrc -> good_src None t) ->
    exists G1, built h G (fst (build_uses h usrc)) G1 /\ Forall2 (useent (G ++ G1)) usrc (snd (build_uses h usrc)).
  Proof.
    induction usrc as [|[k t] usrc IH]; intros h G Hlen Hgood.
    - exists []. simpl. split; [apply built_refl|constructor].
    - simpl.
      destruct (build_tree_typed t h None G Hlen (Hgood k t (or_introl eq_refl))) as (G1 & Hb1 & Hr1).
      destruct (build_tree h None t) as [h1 i]. simpl in Hb1, Hr1.
      destruct (IH h1 (G ++ G1)) as (G2 & Hb2 & Hf2).
      { eapply built_length; eauto. }
      { intros k' t' Hin. apply (Hgood k' t'). right. exact Hin. }
      destruct (build_uses h1 usrc) as [h2 out]. simpl in Hb2, Hf2.
      exists (G1 ++ G2). simpl. split; [eapply built_trans; eauto|].
      rewrite app_assoc. constructor; [|exact Hf2]. split; [reflexivity|]. simpl.
      eapply prefix_nth; [apply prefix_app|exact Hr1].
  Qed.

  Lemma lookup_tyent G tsrc ts b :
    Forall2 (tyent G) tsrc ts ->
    match lookup tsrc b, lookup ts b with
    | Some (Some t), Some (Some r) => nth_error G r = Some (type_entry t)
    | Some None, Some None => True
    | None, None => True
    | _, _ => False
    end.
  Proof.
    induction 1 as [|[n1 o1] [n2 o2] l1 l2 [Hk Hm] _ IH]; [simpl; auto|].
    simpl in Hk, Hm. subst n2. simpl. destruct (beq n1 b); [|exact IH].
    destruct o1, o2; auto.
  Qed.
End Init.

(* ------------------------------------------------------------------------------------- *)
(* ProcessAllOf: every schema root is visited, in whatever order *)

Section Jobs.
  Variable tys : list (bytes * option tree).
  Variable ts : list (bytes * option id).
  Variable D : nat.

  Notation WF := (WF tys ts D).
  Notation fins := (fins tys D).
  Notation trans := (trans tys ts D).
  Notation memoinv := (memoinv tys ts D).

  Hypothesis Hlk : forall b tb, lookup tys b = Some (Some tb) -> exists rb, lookup ts b = Some (Some rb).
  Hypothesis Hnames : forall b tb, lookup tys b = Some (Some tb) -> b <> [].

  Lemma run_jobs {X} (job : X -> option (nat * id)) (F : state -> X -> res state) fuel :
    (forall st x, F st x = match job x with Some (u, r) => process ts u fuel st r | None => ROk st end) ->
    D <= fuel ->
    forall l G st, WF G st -> memoinv D G st ->
    (forall x u r, In x l -> job x = Some (u, r) -> exists e, nth_error G r = Some e) ->
    exists st' G', fold_res F l st = ROk st' /\ trans D D G st G' st' /\
                   (forall x u r, In x l -> job x = Some (u, r) -> fins G' st' r).
  Proof.
    intros HF Hfuel. induction l as [|x l IH]; intros G st Hw Hm Hall.
    - exists st, G. split; [reflexivity|]. split; [apply trans_refl; auto|]. intros ? ? ? [].
    - simpl. rewrite HF. destruct (job x) as [[u r]|] eqn:Ej.
      + destruct (Hall x u r (or_introl eq_refl) Ej) as (e & He).
        destruct (visit_top tys ts D Hlk Hnames u r G st fuel e Hw He Hm Hfuel) as (st1 & G1 & Hrun1 & Htr1 & Hfin1).
        rewrite Hrun1. cbn [rbind].
        destruct (IH G1 st1 (tr_wf _ _ _ _ _ _ _ _ _ Htr1) (tr_minv _ _ _ _ _ _ _ _ _ Htr1)) as (st2 & G2 & Hrun2 & Htr2 & Hfin2).
        { intros y u' r' Hy Hjy. destruct (Hall y u' r' (or_intror Hy) Hjy) as (e' & He'). exists e'.
          eapply prefix_nth; [exact (tr_pre _ _ _ _ _ _ _ _ _ Htr1)|exact He']. }
        exists st2, G2. split; [exact Hrun2|]. split; [eapply trans_trans; eauto|].
        intros y u' r' [<-|Hy] Hjy.
        * rewrite Ej in Hjy. injection Hjy as <- <-. eapply trans_fins; eauto.
        * eapply Hfin2; eauto.
      + cbn [rbind]. destruct (IH G st Hw Hm) as (st2 & G2 & Hrun2 & Htr2 & Hfin2).
        { intros y u' r' Hy Hjy. apply (Hall y u' r'); auto. right. exact Hy. }
        exists st2, G2. split; [exact Hrun2|]. split; [exact Htr2|].
        intros y u' r' [<-|Hy] Hjy; [congruence|]. eapply Hfin2; eauto.
  Qed.

  Theorem process_all_typed fuel (uses : list (ukind * id)) G st :
    WF G st -> memoinv D G st -> D <= fuel ->
    (forall name r, In (name, Some r) ts -> exists e, nth_error G r = Some e) ->
    (forall k r, In (k, r) uses -> exists e, nth_error G r = Some e) ->
    exists st' G', process_all fuel ts uses st = ROk st' /\ trans D D G st G' st' /\
                   (forall name r, In (name, Some r) ts -> fins G' st' r) /\
                   (forall k r, In (k, r) uses -> fins G' st' r).
  Proof.
    intros Hw Hm Hfuel Htypes Huses. unfold process_all.
    (* the user types *)
    destruct (run_jobs (fun e : nat * (bytes * option id) =>
                          match snd (snd e) with Some r => Some (fst e, r) | None => None end)
                       (fun st1 (e : nat * (bytes * option id)) =>
                          match snd (snd e) with
                          | None => ROk st1
                          | Some r => process ts (fst e) fuel st1 r
                          end) fuel) with (l := number_from 0 ts) (G := G) (st := st)
      as (st1 & G1 & Hrun1 & Htr1 & Hd1); auto.
    { intros st0 x. destruct (snd (snd x)); reflexivity. }
    { intros x u r Hx Hj. destruct x as [i [name o]]. simpl in Hj. destruct o as [r'|]; [|discriminate].
      injection Hj as <- <-. apply In_number_from in Hx. simpl in Hx. eapply Htypes; eauto. }
    unfold process_types. rewrite Hrun1. cbn [rbind].
    assert (HP1 := tr_pre _ _ _ _ _ _ _ _ _ Htr1).
    (* the phases *)
    assert (Hph : forall ks Ga sta, WF Ga sta -> memoinv D Ga sta -> prefix G Ga ->
              exists st' G', fold_res (process_phase fuel ts (number_from (List.length ts) uses)) ks sta = ROk st' /\
                             trans D D Ga sta G' st' /\
                             (forall k r, In k ks -> In (k, r) uses -> fins G' st' r)).
    { induction ks as [|k ks IH]; intros Ga sta Hwa Hma Hpa.
      - exists sta, Ga. split; [reflexivity|]. split; [apply trans_refl; auto|]. intros ? ? [].
      - simpl. unfold process_phase at 1.
        destruct (run_jobs (fun e : nat * (ukind * id) =>
                              if ukind_eqb (fst (snd e)) k then Some (fst e, snd (snd e)) else None)
                           (fun st1 (e : nat * (ukind * id)) =>
                              if ukind_eqb (fst (snd e)) k then process ts (fst e) fuel st1 (snd (snd e)) else ROk st1)
                           fuel) with (l := number_from (List.length ts) uses) (G := Ga) (st := sta)
          as (st2 & G2 & Hrun2 & Htr2 & Hd2); auto.
        { intros st' x. destruct (ukind_eqb (fst (snd x)) k); reflexivity. }
        { intros x u r Hx Hj. destruct x as [i [k' r']]. simpl in Hj.
          destruct (ukind_eqb k' k); [|discriminate]. injection Hj as <- <-.
          apply In_number_from in Hx. simpl in Hx. destruct (Huses k' r' Hx) as (e & He). exists e.
          eapply prefix_nth; eauto. }
        rewrite Hrun2. cbn [rbind].
        destruct (IH G2 st2 (tr_wf _ _ _ _ _ _ _ _ _ Htr2) (tr_minv _ _ _ _ _ _ _ _ _ Htr2)) as (st3 & G3 & Hrun3 & Htr3 & Hd3).
        { eapply prefix_trans; [exact Hpa|exact (tr_pre _ _ _ _ _ _ _ _ _ Htr2)]. }
        exists st3, G3. split; [exact Hrun3|]. split; [eapply trans_trans; eauto|].
        intros k' r [Hk|Hk] Hin.
        + subst k'. destruct (In_number_from' uses (List.length ts) (k, r) Hin) as (i & Hi).
          eapply trans_fins; [exact Htr3|]. apply (Hd2 (i, (k, r)) i r Hi). simpl.
          assert (ukind_eqb k k = true) as -> by (destruct k; reflexivity). reflexivity.
        + apply (Hd3 k' r); auto. }
    destruct (Hph phases G1 st1 (tr_wf _ _ _ _ _ _ _ _ _ Htr1) (tr_minv _ _ _ _ _ _ _ _ _ Htr1) HP1) as (st2 & G2 & Hrun2 & Htr2 & Hd2).
    rewrite Hrun2. cbn [rbind].
    (* the JSON-RPC pass *)
    unfold process_rpc.
    destruct (run_jobs (fun e : nat * (ukind * id) =>
                          if is_rpc (fst (snd e)) then Some (fst e, snd (snd e)) else None)
                       (fun st1 (e : nat * (ukind * id)) =>
                          if is_rpc (fst (snd e)) then process ts (fst e) fuel st1 (snd (snd e)) else ROk st1)
                       fuel) with (l := number_from (List.length ts) uses) (G := G2) (st := st2)
      as (st3 & G3 & Hrun3 & Htr3 & Hd3); auto.
    { intros st' x. destruct (is_rpc (fst (snd x))); reflexivity. }
    { exact (tr_wf _ _ _ _ _ _ _ _ _ Htr2). }
    { exact (tr_minv _ _ _ _ _ _ _ _ _ Htr2). }
    { intros x u r Hx Hj. destruct x as [i [k' r']]. simpl in Hj.
      destruct (is_rpc k'); [|discriminate]. injection Hj as <- <-.
      apply In_number_from in Hx. simpl in Hx. destruct (Huses k' r' Hx) as (e & He). exists e.
      eapply prefix_nth; [|exact He]. eapply prefix_trans; [exact HP1|exact (tr_pre _ _ _ _ _ _ _ _ _ Htr2)]. }
    exists st3, G3. split; [exact Hrun3|].
    split; [eapply trans_trans; [exact Htr1|]; eapply trans_trans; eauto|]. split.
    - intros name r Hin. destruct (In_number_from' ts 0 (name, Some r) Hin) as (i & Hi).
      eapply trans_fins; [exact Htr3|]. eapply trans_fins; [exact Htr2|].
      apply (Hd1 (i, (name, Some r)) i r Hi). reflexivity.
    - intros k r Hin. destruct (is_rpc k) eqn:Erpc.
      + destruct (In_number_from' uses (List.length ts) (k, r) Hin) as (i & Hi).
        apply (Hd3 (i, (k, r)) i r Hi). simpl. rewrite Erpc. reflexivity.
      + eapply trans_fins; [exact Htr3|]. apply (Hd2 k r); auto.
        unfold phases. destruct k; simpl in *; try discriminate; auto 10.
  Qed.
End Jobs.

(* ------------------------------------------------------------------------------------- *)
(* the height of a closure: at most the size of the schema plus the sizes of the user types (a path
   down the closure enters every type at most once: inheritance is acyclic) — the rendering fuel
   of renders_as_spec is enough *)

Section Height.
  Variable tys : list (bytes * option tree).

  Definition gterm (d : nat) (p : bytes * option tree) : nat :=
    match snd p with
    | Some tb => match spec_tree d tys None tb with Some _ => tree_size tb | None => 0 end
    | None => 0
    end.

  Definition gsum (d : nat) (l : list (bytes * option tree)) : nat := fold_right (fun p a => gterm d p + a) 0 l.

  Lemma gterm_le d d' p : d <= d' -> gterm d p <= gterm d' p.
  Proof.
    intros Hle. unfold gterm. destruct (snd p) as [tb|]; [|lia].
    destruct (spec_tree d tys None tb) as [x|] eqn:Ex; [|lia].
    rewrite (spec_tree_le d d' tys _ _ x Hle Ex). lia.
  Qed.

  Lemma gsum_cons d p l : gsum d (p :: l) = gterm d p + gsum d l.
  Proof. reflexivity. Qed.

  Lemma gsum_le d d' l : d <= d' -> gsum d l <= gsum d' l.
  Proof.
    intros Hle. induction l as [|p l IH]; [apply Nat.le_refl|]. rewrite !gsum_cons.
    assert (H := gterm_le d d' p Hle). lia.
  Qed.

  Lemma gsum_gain d d' l b tb :
    d <= d' -> In (b, Some tb) l -> spec_tree d tys None tb = None -> spec_tree d' tys None tb <> None ->
    gsum d l + tree_size tb <= gsum d' l.
  Proof.
    intros Hle Hin Hd Hd'. induction l as [|p l IH]; [destruct Hin|]. rewrite !gsum_cons. destruct Hin as [->|Hin].
    - assert (H := gsum_le d d' l Hle).
      assert (H0 : gterm d (b, Some tb) = 0) by (unfold gterm; simpl; rewrite Hd; reflexivity).
      assert (H1 : gterm d' (b, Some tb) = tree_size tb).
      { unfold gterm; simpl. destruct (spec_tree d' tys None tb); [reflexivity|congruence]. }
      lia.
    - specialize (IH Hin). assert (H := gterm_le d d' p Hle). lia.
  Qed.

  Lemma gsum_total d l :
    gsum d l <= fold_right (fun (x : bytes * option tree) a => match snd x with Some t => tree_size t | None => O end + a) O l.
  Proof.
    induction l as [|p l IH]; [apply Nat.le_refl|]. rewrite gsum_cons. simpl.
    assert (H : gterm d p <= match snd p with Some t => tree_size t | None => 0 end).
    { unfold gterm. destruct (snd p) as [tb|]; [|lia]. destruct (spec_tree d tys None tb); lia. }
    lia.
  Qed.

  Lemma spec_height_size : forall d k t x,
    spec_tree (S d) tys k t = Some x -> rheight x <= tree_size t + gsum d tys.
  Proof.
    induction d as [d IH] using lt_wf_ind. intros k t x Hs. destruct t as [tk ao kids].
    destruct (spec_unfold tys d _ _ _ _ x Hs) as (own & inh & Ho & Hi & ->).
    rewrite tree_size_eq. simpl. apply le_n_S. apply list_max_le. rewrite map_app. apply Forall_app. split.
    - apply Forall_forall. intros hgt Hh. apply in_map_iff in Hh as (y & <- & Hy).
      apply in_concat in Hy as (blk & Hblk & Hyb).
      apply all_some_map_some in Hi.
      destruct (Forall2_In_r _ _ _ _ Hi Hblk) as (b & _ & Hb).
      destruct (spec_base_some tys d b blk Hb) as (ao' & kids' & r & Hl & Hr & ->).
      apply in_map_iff in Hyb as (z & <- & Hz). rewrite rheight_mark.
      set (tb := Tree TObject ao' kids') in *.
      assert (Hd : spd tys d (type_entry tb) <> None).
      { change (spec_tree d tys None tb <> None). congruence. }
      destruct (spd_min tys d _ Hd) as (dm & Hle & Hdm1 & Hdm0).
      change (spec_tree (S dm) tys None tb <> None) in Hdm1. change (spec_tree dm tys None tb = None) in Hdm0.
      destruct (spec_tree (S dm) tys None tb) as [r'|] eqn:Er'; [|congruence].
      assert (r' = r).
      { apply (spec_tree_le (S dm) d) in Er'; [|lia]. congruence. }
      subst r'. assert (H1 := IH dm ltac:(lia) None tb r Er').
      assert (H2 := gsum_gain dm d tys b tb ltac:(lia) (lookup_In _ _ _ Hl) Hdm0 ltac:(congruence)).
      apply rheight_kid in Hz. lia.
    - apply Forall_forall. intros hgt Hh. apply in_map_iff in Hh as (y & <- & Hy).
      apply all_some_map_some in Ho.
      destruct (Forall2_In_r _ _ _ _ Ho Hy) as (kc & Hkc & Hs').
      destruct d as [|d']; [discriminate|].
      assert (H1 := IH d' ltac:(lia) _ _ _ Hs'). assert (H2 := kids_size_In kc kids Hkc).
      assert (H3 := gsum_le d' (S d') tys ltac:(lia)). lia.
  Qed.
End Height.

(* ------------------------------------------------------------------------------------- *)
(* unconditionally (ANY project): a node keeps its key, token type, rule and mark for ever, and its
   children list only grows at the front *)

Lemma process_all_mono fuel ts uses st st' : process_all fuel ts uses st = ROk st' -> mono st st'.
Proof.
  unfold process_all. intros Hall.
  apply rbind_ok in Hall as (st1 & Hty & Hph). apply rbind_ok in Hph as (st2 & Hph & Hrpc).
  eapply mono_trans; [|eapply mono_trans].
  - unfold process_types in Hty. eapply fold_res_mono; [|exact Hty].
    intros a x a' _ Hx. cbv beta in Hx. destruct (snd (snd x)); [eapply process_mono; eauto|injection Hx as <-; apply mono_refl].
  - eapply fold_res_mono; [|exact Hph]. intros a0 x a0' _ Hx. unfold process_phase in Hx.
    eapply fold_res_mono; [|exact Hx]. intros c y c' _ Hy. cbv beta in Hy.
    destruct (ukind_eqb (fst (snd y)) x); [eapply process_mono; eauto|injection Hy as <-; apply mono_refl].
  - unfold process_rpc in Hrpc. eapply fold_res_mono; [|exact Hrpc]. intros c y c' _ Hy. cbv beta in Hy.
    destruct (is_rpc (fst (snd y))); [eapply process_mono; eauto|injection Hy as <-; apply mono_refl].
Qed.

Theorem nodes_only_grow_lemma e w :
  run e = ROk w ->
  forall i n, get (w_state (init_world e)) i = Some n ->
  exists n', get (w_state w) i = Some n' /\
             n_key n' = n_key n /\ n_tok n' = n_tok n /\ n_allof n' = n_allof n /\ n_inh n' = n_inh n /\
             exists inherited, n_children n' = inherited ++ n_children n.
Proof.
  intros Hrun i n Hg. unfold run, run_fuel in Hrun. apply rbind_ok in Hrun as (stf & Hall & Hw).
  injection Hw as <-. simpl. apply process_all_mono in Hall.
  destruct (Hall i n Hg) as (n' & Hg' & (Hk & Ht & Ha & Hi) & Hpre). exists n'. auto 10.
Qed.

(* ------------------------------------------------------------------------------------- *)
(* the theorem *)

Lemma Forall2_impl_In2 {A B} (P Q : A -> B -> Prop) l1 l2 :
  Forall2 P l1 l2 -> (forall a b, In a l1 -> In b l2 -> P a b -> Q a b) -> Forall2 Q l1 l2.
Proof.
  induction 1 as [|a b l1 l2 Hab _ IH]; intros H; constructor.
  - apply H; simpl; auto.
  - apply IH. intros; apply H; simpl; auto.
Qed.

Lemma init_typed e :
  lib_ok e = true ->
  exists G0, WF (e_types e) (w_types (init_world e)) (spec_fuel e) G0 (w_state (init_world e)) /\
             Forall2 (tyent G0) (e_types e) (w_types (init_world e)) /\
             Forall2 (useent G0) (e_uses e) (w_uses (init_world e)) /\
             memo (w_state (init_world e)) = [].
Proof.
  intros Hlib. destruct (lib_facts e Hlib) as (_ & _ & St & Su). unfold init_world.
  destruct (build_types_typed (e_types e) (spec_fuel e) (e_types e) [] [] eq_refl) as (G1 & Hb1 & Hf1).
  { intros n t Hin. destruct (schema_facts e t (St _ _ Hin)) as (Hw & x & Hx & Hok). split; eauto. }
  destruct (build_types [] (e_types e)) as [h1 ts']. simpl in Hb1, Hf1.
  destruct (build_uses_typed (e_types e) (spec_fuel e) (e_uses e) h1 G1) as (G2 & Hb2 & Hf2).
  { apply (built_length (e_types e) (spec_fuel e) [] [] h1 G1 eq_refl Hb1). }
  { intros k t Hin. destruct (schema_facts e t (Su _ _ Hin)) as (Hw & x & Hx & Hok). split; eauto. }
  destruct (build_uses h1 (e_uses e)) as [h2 us']. simpl in Hb2, Hf2.
  assert (Hb := built_trans (e_types e) (spec_fuel e) [] [] h1 G1 h2 G2 eq_refl Hb1 Hb2).
  assert (Hf1' : Forall2 (tyent (G1 ++ G2)) (e_types e) ts').
  { eapply Forall2_impl'; [|exact Hf1]. intros a b. apply tyent_ext. apply prefix_app. }
  exists (G1 ++ G2). simpl. split; [|split; [exact Hf1'|split; [exact Hf2|reflexivity]]].
  split.
  - apply (built_length (e_types e) (spec_fuel e) [] [] h2 (G1 ++ G2) eq_refl Hb).
  - destruct Hb as (xs & _ & _ & Ht). intros j n Hg. apply (Ht j n); [simpl; lia|exact Hg].
  - intros b rb Hl. assert (Hm := lookup_tyent (G1 ++ G2) (e_types e) ts' b Hf1'). simpl in Hl. rewrite Hl in Hm.
    destruct (lookup (e_types e) b) as [[tb|]|]; try (destruct Hm; fail). exists tb. auto.
Qed.

Theorem allof_correct_lemma :
  forall e, lib_ok e = true ->
  exists w, run e = ROk w /\ renders_as_spec e w /\
            w_types w = w_types (init_world e) /\ w_uses w = w_uses (init_world e) /\
            (forall i n, get (w_state (init_world e)) i = Some n -> n_allof n = [] -> get (w_state w) i = Some n).
Proof.
  intros e Hlib. destruct (lib_facts e Hlib) as (Hne & Hnd & St & Su).
  destruct (init_typed e Hlib) as (G0 & Hw0 & Hft & Hfu & Hmemo).
  set (tys := e_types e) in *. set (D := spec_fuel e) in *.
  set (ts := w_types (init_world e)) in *. set (us := w_uses (init_world e)) in *.
  set (st0 := w_state (init_world e)) in *.
  assert (Hlk : forall b tb, lookup tys b = Some (Some tb) -> exists rb, lookup ts b = Some (Some rb)).
  { intros b tb Hl. assert (Hm := lookup_tyent G0 tys ts b Hft). rewrite Hl in Hm.
    destruct (lookup ts b) as [[rb|]|]; try (destruct Hm; fail). eauto. }
  assert (Hnames : forall b tb, lookup tys b = Some (Some tb) -> b <> []).
  { intros b tb Hl. apply Hne. apply lookup_In in Hl. change b with (fst (b, Some tb)). apply in_map. exact Hl. }
  destruct (process_all_typed tys ts D Hlk Hnames (default_fuel e) us G0 st0) as (st' & G' & Hrun & Htr & Hdt & Hdu).
  - exact Hw0.
  - intros b tb rb Hin. rewrite Hmemo in Hin. destruct Hin.
  - unfold default_fuel, D, spec_fuel. lia.
  - intros name r Hin. destruct (Forall2_In_r _ _ _ _ Hft Hin) as ([n' o] & _ & (_ & Hm)). simpl in Hm.
    destruct o as [t|]; [eauto|destruct Hm].
  - intros k r Hin. destruct (Forall2_In_r _ _ _ _ Hfu Hin) as ([k' t] & _ & (_ & Hm)). simpl in Hm. eauto.
  - assert (HP := tr_pre _ _ _ _ _ _ _ _ _ Htr). assert (Hw' := tr_wf _ _ _ _ _ _ _ _ _ Htr).
    exists {| w_types := ts; w_uses := us; w_state := st' |}.
    split; [unfold run, run_fuel; fold ts us st0; rewrite Hrun; reflexivity|].
    assert (Hrender : forall t r fuel, schema_ok e t = true -> nth_error G0 r = Some (type_entry t) -> fins tys D G' st' r ->
                      tree_size t <= env_size e -> 2 * env_size e + 3 <= fuel -> render fuel st' r = spec_schema e t).
    { intros t r fuel Hok Hn [h Hfin] Hsz Hfuel.
      destruct (schema_facts e t Hok) as (_ & x & Hx & _). unfold spec_schema. rewrite Hx.
      apply (fin_render tys ts D G' st' Hw' h r (type_entry t) x fuel Hfin).
      - eapply prefix_nth; eauto.
      - apply (tg_src tys D None t x Hx).
      - assert (HD : spec_fuel e = S (env_size e + List.length (e_types e) + 1)) by (unfold spec_fuel; lia).
        rewrite HD in Hx. apply spec_height_size in Hx.
        assert (Hg := gsum_total (e_types e) (env_size e + List.length (e_types e) + 1) (e_types e)).
        clear - Hx Hg Hsz Hfuel. unfold env_size in Hsz, Hfuel. lia. }
    split; [|split; [reflexivity|split; [reflexivity|]]].
    + intros fuel Hfuel. simpl. split.
      * eapply Forall2_impl_In2; [exact Hft|]. intros [n1 o1] [n2 o2] Hin1 Hin2 [Hk Hm]. cbn [fst snd] in *. split; [exact Hk|].
        destruct o1 as [t|], o2 as [r|]; auto. subst n2.
        apply (Hrender t r fuel (St n1 t Hin1) Hm (Hdt n1 r Hin2)); [|exact Hfuel].
        assert (Hs := size_in_types _ _ _ Hin1). unfold tys in Hs. unfold env_size. clear - Hs. lia.
      * eapply Forall2_impl_In2; [exact Hfu|]. intros [k1 t] [k2 r] Hin1 Hin2 [Hk Hm]. cbn [fst snd] in *. split; [exact Hk|].
        apply (Hrender t r fuel (Su k1 t Hin1) Hm (Hdu k2 r Hin2)); [|exact Hfuel].
        assert (Hs := size_in_uses _ _ _ Hin1). unfold env_size. clear - Hs. lia.
    + intros i n Hg Hao. simpl. apply (tr_keeps _ _ _ _ _ _ _ _ _ Htr); [exact Hg|].
      destruct (wf_entry _ _ _ _ _ _ _ Hw0 Hg) as (en & Hen & Hok). eapply no_rule_full; eauto.
Qed.

(* ------------------------------------------------------------------------------------- *)
(* corollaries *)

Lemma env_skeleton_skeleton2 e : env_skeleton e = true -> env_skeleton2 e = true.
Proof.
  unfold env_skeleton, env_skeleton2. intros H. apply andb_true_iff in H as [H _]. exact H.
Qed.

Lemma allof_correct_skeleton2_lemma :
  forall e, lib_ok e = true -> env_skeleton2 e = true ->
  exists w, run e = ROk w /\ renders_as_spec e w /\
            w_types w = w_types (init_world e) /\ w_uses w = w_uses (init_world e) /\
            (forall i n, get (w_state (init_world e)) i = Some n -> n_allof n = [] -> get (w_state w) i = Some n).
Proof. intros e Hl _. apply allof_correct_lemma. exact Hl. Qed.

Lemma bases_unchanged_all_lemma :
  forall e, lib_ok e = true ->
  exists w, run e = ROk w /\
            forall i n, get (w_state (init_world e)) i = Some n -> n_allof n = [] -> get (w_state w) i = Some n.
Proof.
  intros e Hl. destruct (allof_correct_lemma e Hl) as (w & Hrun & _ & _ & _ & Hu). exists w. split; [exact Hrun|exact Hu].
Qed.

Theorem order_independent_all_lemma e1 e2 :
  lib_ok e1 = true -> lib_ok e2 = true ->
  Permutation.Permutation (e_types e1) (e_types e2) ->
  exists w1 w2, run e1 = ROk w1 /\ run e2 = ROk w2 /\
    forall name t r1 r2 fuel,
      In (name, Some t) (e_types e1) -> In (name, Some r1) (w_types w1) -> In (name, Some r2) (w_types w2) ->
      2 * (env_size e1 + env_size e2) + 3 <= fuel ->
      render fuel (w_state w1) r1 = render fuel (w_state w2) r2 /\ render fuel (w_state w1) r1 <> None.
Proof.
  intros L1 L2 Hperm.
  destruct (allof_correct_lemma e1 L1) as (w1 & Hrun1 & Hs1 & _).
  destruct (allof_correct_lemma e2 L2) as (w2 & Hrun2 & Hs2 & _).
  exists w1, w2. split; [exact Hrun1|]. split; [exact Hrun2|].
  intros name t r1 r2 fuel Hin Hr1 Hr2 Hfuel.
  assert (Hnd1 := lib_ok_nodup e1 L1). assert (Hnd2 := lib_ok_nodup e2 L2).
  assert (Hin2 : In (name, Some t) (e_types e2)) by (eapply Permutation.Permutation_in; eauto).
  destruct (Hs1 fuel ltac:(lia)) as [Ht1 _]. destruct (Hs2 fuel ltac:(lia)) as [Ht2 _].
  assert (P1 := Forall2_pick _ fst fst _ _ (name, Some t) (name, Some r1) Ht1 (fun x y H => proj1 H) Hnd1 Hin Hr1 eq_refl).
  assert (P2 := Forall2_pick _ fst fst _ _ (name, Some t) (name, Some r2) Ht2 (fun x y H => proj1 H) Hnd2 Hin2 Hr2 eq_refl).
  simpl in P1, P2. destruct P1 as [_ P1], P2 as [_ P2]. rewrite P1, P2.
  assert (Hl : forall b, lookup (e_types e1) b = lookup (e_types e2) b) by (apply lookup_perm; auto).
  destruct (lib_facts e1 L1) as (_ & _ & St1 & _). destruct (lib_facts e2 L2) as (_ & _ & St2 & _).
  destruct (schema_facts e1 t (St1 _ _ Hin)) as (_ & x1 & Hx1 & _).
  destruct (schema_facts e2 t (St2 _ _ Hin2)) as (_ & x2 & Hx2 & _).
  unfold spec_schema. rewrite Hx1, Hx2. split; [|discriminate].
  apply (spec_tree_le _ (max (spec_fuel e1) (spec_fuel e2))) in Hx1; [|lia].
  apply (spec_tree_le _ (max (spec_fuel e1) (spec_fuel e2))) in Hx2; [|lia].
  rewrite (spec_tree_lookup_ext _ _ Hl) in Hx1. congruence.
Qed.

(* ------------------------------------------------------------------------------------- *)
(* concrete projects of the shapes that were outside allof_correct_skeleton *)

Section Examples.
Local Open Scope string_scope.

(* three levels of inheritance (@c <- @b <- @a); the base @a carries a rule on a nested object (p),
   on an array item (l) and two levels down (q.r); @c and @b are used from a response body, a
   JSON-RPC result (below an array) and a nested object of a query; @a is declared after its heirs *)
Definition ex_deep_base : env :=
  {| e_types := [ty "@c" (obj ["@b"] [prop "c" sc]);
                 ty "@b" (obj ["@a"] [prop "b" sc]);
                 ty "@a" (obj [] [prop "p" (obj ["@x"] [prop "q" sc]);
                                  prop "l" (arr [obj ["@y"; "@x"] [prop "m" sc]; sc]);
                                  prop "q" (obj [] [prop "r" (obj ["@y"] [])]);
                                  prop "a" sc]);
                 ty "@x" (obj [] [prop "x" sc]);
                 ty "@y" (obj [] [prop "y" (arr [sc])])];
     e_uses := [(URespBody, obj ["@c"] [prop "z" sc]);
                (URpcResult, arr [obj ["@b"] []]);
                (UQuery, obj [] [prop "w" (obj ["@c"] [prop "v" sc])])] |}.

Definition rprop (k inh : string) (tk : tok) (ks : list rtree) : rtree := RNode (Some (bs k)) tk (bs inh) ks.

Lemma deep_base_example_lemma :
  lib_ok ex_deep_base = true /\ env_skeleton2 ex_deep_base = true /\ env_skeleton ex_deep_base = false /\
  compare_env ex_deep_base = VAgree /\
  uses_of ex_deep_base =
  ROk [(URespBody,
        Some (robj [rprop "p" "@c" TObject [leaf "x" "@x"; leaf "q" ""];
                    rprop "l" "@c" TArray [RNode None TObject [] [rprop "y" "@y" TArray [RNode None TOther [] []];
                                                                  leaf "x" "@x"; leaf "m" ""];
                                           RNode None TOther [] []];
                    rprop "q" "@c" TObject [rprop "r" "" TObject [rprop "y" "@y" TArray [RNode None TOther [] []]]];
                    leaf "a" "@c"; leaf "b" "@c"; leaf "c" "@c"; leaf "z" ""]));
       (URpcResult,
        Some (RNode None TArray []
               [RNode None TObject []
                  [rprop "p" "@b" TObject [leaf "x" "@x"; leaf "q" ""];
                   rprop "l" "@b" TArray [RNode None TObject [] [rprop "y" "@y" TArray [RNode None TOther [] []];
                                                                 leaf "x" "@x"; leaf "m" ""];
                                          RNode None TOther [] []];
                   rprop "q" "@b" TObject [rprop "r" "" TObject [rprop "y" "@y" TArray [RNode None TOther [] []]]];
                   leaf "a" "@b"; leaf "b" "@b"]]));
       (UQuery,
        Some (robj [rprop "w" "" TObject
                      [rprop "p" "@c" TObject [leaf "x" "@x"; leaf "q" ""];
                       rprop "l" "@c" TArray [RNode None TObject [] [rprop "y" "@y" TArray [RNode None TOther [] []];
                                                                     leaf "x" "@x"; leaf "m" ""];
                                              RNode None TOther [] []];
                       rprop "q" "@c" TObject [rprop "r" "" TObject [rprop "y" "@y" TArray [RNode None TOther [] []]]];
                       leaf "a" "@c"; leaf "b" "@c"; leaf "c" "@c"; leaf "v" ""]]))].
Proof. vm_compute. repeat split. Qed.

(* a rule inside an object that has a rule itself (ex_nested, ex_array of AllOfProofs.v): outside
   env_skeleton2 too, inside allof_correct *)
Lemma nested_rule_example_lemma :
  lib_ok ex_nested = true /\ env_skeleton2 ex_nested = false /\ compare_env ex_nested = VAgree /\
  lib_ok ex_array = true /\ env_skeleton2 ex_array = false /\ compare_env ex_array = VAgree.
Proof. vm_compute. repeat split. Qed.

End Examples.
