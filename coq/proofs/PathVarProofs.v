(* C10: the path-variable stage (bind_all / path_vars_of) and the similar-path state do not depend on order *)
From Coq Require Import List NArith Bool String Lia Permutation.
From JV.lib Require Import Bytes.
From JV.gen Require Import DirectiveTables TagName.
From JV.model Require Import ScannerSem Core Description PathParams TagTitle Catalog.
From JV.proofs Require Import BytesLemmas TagNameProofs CatalogProofs FaithfulProofs LocalityProofs OrderProofs.
Import ListNotations.
Open Scope N_scope.

Lemma nd_app_l {A} (l r : list A) : NoDup (l ++ r) -> NoDup l.
Proof. induction l as [|a l IH]; simpl; intro H; [constructor|]. inversion H; subst. constructor; [|auto]. intro Hin. apply H2. apply in_or_app; left; exact Hin. Qed.
Lemma nd_app_r {A} (l r : list A) : NoDup (l ++ r) -> NoDup r.
Proof. induction l as [|a l IH]; simpl; intro H; [exact H|]. inversion H; auto. Qed.
Lemma nd_app_disj {A} (l r : list A) x : NoDup (l ++ r) -> In x l -> In x r -> False.
Proof.
  induction l as [|a l IH]; simpl; intros H Hl Hr; [destruct Hl|]. inversion H; subst. destruct Hl as [<-|Hl].
  - apply H2. apply in_or_app; right; exact Hr.
  - exact (IH H3 Hl Hr).
Qed.
Lemma nd_app_both {A} (l r : list A) : NoDup l -> NoDup r -> (forall x, In x r -> In x l -> False) -> NoDup (l ++ r).
Proof.
  induction l as [|a l IH]; simpl; intros Hl Hr Hd; [exact Hr|]. inversion Hl; subst. constructor.
  - intro Hin. apply in_app_or in Hin as [Hin|Hin]; [contradiction | exact (Hd a Hin (or_introl eq_refl))].
  - apply IH; auto. intros x Hx Hx2. exact (Hd x Hx (or_intror Hx2)).
Qed.

(* what one Path directive binds: (prefix, name) for every path parameter whose name is a property, in the
   order of the parameters; and the properties that are left over *)
Fixpoint bsplit (params : list (bytes * bytes)) (props : list bytes) : list (bytes * bytes) * list bytes :=
  match params with
  | [] => ([], props)
  | (prefix, name) :: r =>
    if existsb (beq name) props
    then let x := bsplit r (filter (fun y => negb (beq y name)) props) in ((prefix, name) :: fst x, snd x)
    else bsplit r props
  end.

Lemma bind_one_ok params d : forall props all lft all',
  bind_one params props all d = COk (lft, all') <->
  lft = snd (bsplit params props) /\ all' = all ++ fst (bsplit params props) /\
  NoDup (map fst (fst (bsplit params props))) /\
  (forall x, In x (map fst (fst (bsplit params props))) -> ~ In x (map fst all)).
Proof.
  induction params as [|[prefix name] r IH]; intros props all lft all'; cbn [bind_one bsplit].
  - split.
    + intro H. inversion H; subst. rewrite app_nil_r. split; [reflexivity|]. split; [reflexivity|]. split; [constructor | intros x []].
    + intros [-> [-> _]]. rewrite app_nil_r. reflexivity.
  - destruct (existsb (beq name) props).
    + cbn [fst snd]. unfold kerr. destruct (om_has beq all prefix) eqn:Eh.
      * split; [discriminate|]. intros [_ [_ [_ D]]]. exfalso. apply (D prefix); [left; reflexivity|].
        apply (om_has_true beq beq_eq). exact Eh.
      * rewrite IH. rewrite map_app. simpl. rewrite <- app_assoc. simpl.
        apply (om_has_false beq beq_eq) in Eh. split.
        -- intros [A [B [C D]]]. repeat split; auto.
           ++ constructor; [|exact C]. intro Hin. apply (D _ Hin). apply in_or_app; right; left; reflexivity.
           ++ intros x [<-|Hx]; [exact Eh|]. intro Hin. apply (D x Hx). apply in_or_app; left; exact Hin.
        -- intros [A [B [C D]]]. inversion C; subst. repeat split; auto.
           intros x Hx Hin. apply in_app_or in Hin as [Hin|[<-|[]]]; [exact (D x (or_intror Hx) Hin) | contradiction].
    + apply IH.
Qed.

Definition pv_bound (v : rawpv) : list (bytes * bytes) := fst (bsplit (pv_params v) (pv_props v)).
Definition pv_left (v : rawpv) : list bytes := snd (bsplit (pv_params v) (pv_props v)).
Definition bounds (pvs : list rawpv) : list (bytes * bytes) := flat_map pv_bound pvs.

(* when bind_all succeeds, and with what *)
Lemma bind_all_ok pvs : forall all all',
  bind_all pvs all = COk all' <->
  (forall v, In v pvs -> pv_left v = []) /\ NoDup (map fst (bounds pvs)) /\
  (forall x, In x (map fst (bounds pvs)) -> ~ In x (map fst all)) /\ all' = all ++ bounds pvs.
Proof.
  unfold bounds. induction pvs as [|v r IH]; intros all all'; cbn [bind_all flat_map].
  - split.
    + intro H. inversion H; subst. rewrite app_nil_r. split; [intros v []|]. split; [constructor|]. split; [intros x [] | reflexivity].
    + intros [_ [_ [_ ->]]]. rewrite app_nil_r. reflexivity.
  - unfold cbind, kerr.
    destruct (bind_one (pv_params v) (pv_props v) all (pv_dir v)) as [[lft a1]| | |] eqn:E.
    + apply bind_one_ok in E as [El [Ea [En Ed]]]. fold (pv_bound v) in Ea, En, Ed. fold (pv_left v) in El.
      cbn [fst snd]. destruct lft as [|z zs].
      * rewrite IH. rewrite map_app. subst a1. split.
        -- intros [A [B [C D]]]. split; [intros w [<-|Hw]; [symmetry; exact El | exact (A w Hw)]|].
           split; [|split].
           ++ apply nd_app_both; [exact En | exact B|]. intros x Hx Hx2. apply (C x Hx). rewrite map_app. apply in_or_app; right; exact Hx2.
           ++ intros x Hx. apply in_app_or in Hx as [Hx|Hx]; [exact (Ed x Hx)|].
              intro Hin. apply (C x Hx). rewrite map_app. apply in_or_app; left; exact Hin.
           ++ rewrite D, <- app_assoc. reflexivity.
        -- intros [A [B [C D]]]. split; [intros w Hw; exact (A w (or_intror Hw))|]. split; [|split].
           ++ rewrite ?map_app in B. exact (nd_app_r _ _ B).
           ++ intros x Hx Hin. rewrite ?map_app in Hin. apply in_app_or in Hin as [Hin|Hin].
              ** apply (C x); [apply in_or_app; right; exact Hx | exact Hin].
              ** rewrite ?map_app in B. exact (nd_app_disj _ _ _ B Hin Hx).
           ++ rewrite D, <- app_assoc. reflexivity.
      * split; [discriminate|]. intros [A _]. specialize (A v (or_introl eq_refl)). congruence.
    + split; [discriminate|]. intros [A [B [C D]]]. exfalso.
      assert (Hex : bind_one (pv_params v) (pv_props v) all (pv_dir v) = COk (pv_left v, all ++ pv_bound v)).
      { apply bind_one_ok. repeat split; auto.
        - rewrite ?map_app in B. exact (nd_app_l _ _ B).
        - intros x Hx. apply C. rewrite map_app. apply in_or_app; left; exact Hx. }
      congruence.
    + split; [discriminate|]. intros _. exfalso. clear IH.
      assert (forall params pr a d0 w, bind_one params pr a d0 <> CPanic w) as Hnp.
      { induction params as [|[pf nm] ps IHp]; intros pr a d0 w; cbn [bind_one]; [discriminate|].
        destruct (existsb (beq nm) pr); [destruct (om_has beq a pf); [discriminate | apply IHp] | apply IHp]. }
      exact (Hnp _ _ _ _ _ E).
    + split; [discriminate|]. intros _. exfalso. clear IH.
      assert (forall params pr a d0, bind_one params pr a d0 <> CFuel) as Hnp.
      { induction params as [|[pf nm] ps IHp]; intros pr a d0; cbn [bind_one]; [discriminate|].
        destruct (existsb (beq nm) pr); [destruct (om_has beq a pf); [discriminate | apply IHp] | apply IHp]. }
      exact (Hnp _ _ _ _ E).
Qed.

Lemma flat_map_perm {A B} (f : A -> list B) l l' : Permutation l l' -> Permutation (flat_map f l) (flat_map f l').
Proof.
  induction 1 as [|x l l' _ IH|x y l|l l' l'' _ IH1 _ IH2]; simpl.
  - constructor.
  - apply Permutation_app_head; exact IH.
  - rewrite !app_assoc. apply Permutation_app_tail. apply Permutation_app_comm.
  - eapply Permutation_trans; eassumption.
Qed.

Lemma om_has_perm {V} (l l' : list (bytes * V)) k : Permutation l l' -> om_has beq l k = om_has beq l' k.
Proof.
  intro H. unfold om_has. induction H as [|x l l' _ IH|x y l|l l' l'' _ IH1 _ IH2]; simpl.
  - reflexivity.
  - rewrite IH; reflexivity.
  - destruct (beq (fst x) k), (beq (fst y) k); reflexivity.
  - congruence.
Qed.

Lemma path_vars_of_perm all all' p : Permutation all all' -> path_vars_of all p = path_vars_of all' p.
Proof.
  intro H. unfold path_vars_of. destruct (path_parameters p) as [pp|]; [|reflexivity].
  induction pp as [|x r IH]; simpl; [reflexivity|]. rewrite (om_has_perm _ _ (fst x) H), IH. reflexivity.
Qed.

(* C10, the path-variable stage: for every order of the Path directives binding succeeds or fails alike, binds
   the same prefixes, and every path gets the same path variables *)
Theorem bind_all_order_free_lemma pvs pvs' all :
  Permutation pvs pvs' -> bind_all pvs [] = COk all ->
  exists all', bind_all pvs' [] = COk all' /\ Permutation all all' /\
               forall p, path_vars_of all p = path_vars_of all' p.
Proof.
  intros Hp H. apply bind_all_ok in H as [A [B [C D]]]. simpl in D. subst all.
  pose proof (flat_map_perm pv_bound _ _ Hp) as Hb. fold (bounds pvs) (bounds pvs') in Hb.
  exists (bounds pvs'). split; [|split; [exact Hb | intro p; apply path_vars_of_perm; exact Hb]].
  apply bind_all_ok. split; [|split; [|split; [intros x _ [] | reflexivity]]].
  - intros v Hv. apply A. eapply Permutation_in; [apply Permutation_sym; exact Hp | exact Hv].
  - eapply Permutation_NoDup; [apply Permutation_map; exact Hb | exact B].
Qed.

(* ---- the similar-path state: only what is bound to each key matters ---- *)
Definition sp_equiv (st st' : sp_state) : Prop := forall k, sp_lookup k st = sp_lookup k st'.

Lemma sp_lookup_cons k v st key : sp_lookup key ((k, v) :: st) = if beq key k then Some v else sp_lookup key st.
Proof. reflexivity. Qed.

Lemma sp_equiv_cons k v st st' : sp_equiv st st' -> sp_equiv ((k, v) :: st) ((k, v) :: st').
Proof. intros H key. rewrite !sp_lookup_cons. rewrite (H key). reflexivity. Qed.

Definition sp_sim (r r' : spres) : Prop :=
  match r, r' with
  | SPOk s, SPOk s' => sp_equiv s s'
  | SPReject _ k o p, SPReject _ k' o' p' => k = k' /\ o = o' /\ p = p'
  | _, _ => False
  end.

(* the verdict (and the diagnostic) of the similar-path check depends on the state only through its lookups *)
Lemma check_similar_paths_equiv pp : forall st st', sp_equiv st st' ->
  sp_sim (check_similar_paths st pp) (check_similar_paths st' pp).
Proof.
  induction pp as [|[ppath param] r IH]; intros st st' H; cbn [check_similar_paths]; [exact H|].
  cbv zeta. rewrite (H (remove_last_segment ppath)).
  destruct (sp_lookup (remove_last_segment ppath) st') as [v|].
  - destruct (beq v param); [apply IH; apply sp_equiv_cons; exact H | repeat split; reflexivity].
  - apply IH. apply sp_equiv_cons. exact H.
Qed.

(* ... and two consecutive successful checks can be swapped: the clash test is symmetric *)
Lemma sp_lookup_after pp : forall st s key,
  check_similar_paths st pp = SPOk s ->
  sp_lookup key s = match sp_lookup key (rev (map (fun x => (remove_last_segment (fst x), snd x)) pp)) with
                    | Some v => Some v | None => sp_lookup key st end.
Proof.
  induction pp as [|[ppath param] r IH]; intros st s key H; cbn [check_similar_paths] in H.
  - inversion H; subst. reflexivity.
  - cbv zeta in H. simpl map. simpl rev.
    assert (Hgo : check_similar_paths ((remove_last_segment ppath, param) :: st) r = SPOk s).
    { destruct (sp_lookup (remove_last_segment ppath) st) as [v|]; [|exact H].
      destruct (beq v param); [exact H | discriminate H]. }
    rewrite (IH _ _ key Hgo). rewrite sp_lookup_cons.
    clear. induction (rev (map (fun x => (remove_last_segment (fst x), snd x)) r)) as [|[k v] l IHl]; simpl.
    + destruct (beq key (remove_last_segment ppath)); reflexivity.
    + destruct (beq key k); [reflexivity | exact IHl].
Qed.
