(* C20 (b): a declaration inserted at (or removed from) an ARBITRARY top-level position; C10: moving a
   declaration.  Built on the frame lemmas of FrameProofs.v. *)
From Coq Require Import List NArith Bool String Lia Permutation.
From JV.lib Require Import Bytes.
From JV.gen Require Import DirectiveTables TagName.
From JV.model Require Import ScannerSem Core Description PathParams TagTitle Catalog.
From JV.proofs Require Import BytesLemmas TagNameProofs CatalogProofs FaithfulProofs LocalityProofs OrderProofs FrameProofs.
Import ListNotations.
Open Scope N_scope.

Lemma kind_eq_dec (a b : kind) : {a = b} + {a <> b}.
Proof. decide equality. Qed.

(* both succeed with related results, or neither succeeds *)
Definition sim (P : bstate -> bstate -> Prop) (r r' : cres bstate) : Prop :=
  match r, r' with
  | COk x, COk y => P x y
  | COk _, _ => False
  | _, COk _ => False
  | _, _ => True
  end.

Lemma sim_cmap (P : bstate -> bstate -> Prop) f g r : (forall x, P (f x) (g x)) -> sim P (cmap f r) (cmap g r).
Proof. intro H. destruct r; simpl; auto. Qed.

Lemma set_srv_id b : set_srv (c_servers (b_cat b)) b = b.
Proof. destruct b as [c u s p]. destruct c. reflexivity. Qed.
Lemma set_typ_id b : set_typ (c_types (b_cat b)) b = b.
Proof. destruct b as [c u s p]. destruct c. reflexivity. Qed.
Lemma set_enum_id b : set_enum (c_enums (b_cat b)) b = b.
Proof. destruct b as [c u s p]. destruct c. reflexivity. Qed.
Lemma set_srv_srv S S' b : set_srv S (set_srv S' b) = set_srv S b.
Proof. reflexivity. Qed.
Lemma set_typ_typ S S' b : set_typ S (set_typ S' b) = set_typ S b.
Proof. reflexivity. Qed.

(* ---- association lists with one entry inserted ---- *)
Section Ins.
  Context {V : Type}.
  Variable e : bytes * V.

  Lemma om_has_ins (l1 l2 : list (bytes * V)) x : x <> fst e ->
    om_has beq (l1 ++ e :: l2) x = om_has beq (l1 ++ l2) x.
  Proof.
    intro H. unfold om_has. rewrite !existsb_app. simpl.
    destruct (beq (fst e) x) eqn:E; [apply beq_eq in E; congruence | reflexivity].
  Qed.

  Lemma om_get_ins (l1 l2 : list (bytes * V)) x : x <> fst e ->
    om_get beq (l1 ++ e :: l2) x = om_get beq (l1 ++ l2) x.
  Proof.
    intro H. unfold om_get. induction l1 as [|a l1 IH]; simpl.
    - destruct (beq (fst e) x) eqn:E; [apply beq_eq in E; congruence | reflexivity].
    - destruct (beq (fst a) x); [reflexivity | exact IH].
  Qed.

  Lemma om_update_ins (l1 l2 : list (bytes * V)) x f : x <> fst e ->
    om_update beq (l1 ++ e :: l2) x f = om_update beq l1 x f ++ e :: om_update beq l2 x f.
  Proof.
    intro H. unfold om_update. rewrite map_app. simpl.
    destruct (beq (fst e) x) eqn:E; [apply beq_eq in E; congruence | reflexivity].
  Qed.

  Lemma om_update_app (l1 l2 : list (bytes * V)) x f :
    om_update beq (l1 ++ l2) x f = om_update beq l1 x f ++ om_update beq l2 x f.
  Proof. unfold om_update. apply map_app. Qed.
End Ins.

Lemma add_directive_baseurl bt banned t anc b :
  dk t = KBaseURL ->
  add_directive bt banned t anc b =
  let d := tree_dir t in let p := named d (bs "Path") in
  if kind_in KBaseURL banned then CErr (kw_err d (CENotAllowed KBaseURL))
  else if beq p [] then kerr d "required parameter"
  else if negb (beq (d_annot d) []) then kerr d "annotation is forbidden"
  else match parent_dir anc with
       | None => CPanic "nil Parent"
       | Some srv =>
         let n := named srv (bs "Name") in
         match om_get beq (c_servers (b_cat b)) n with
         | None => kerr d "server not found"
         | Some s => if negb (beq (s_base s) []) then kerr d "BaseURL already defined"
                     else COk (with_cat b (upd_servers (b_cat b) (om_update beq (c_servers (b_cat b)) n (fun s => {| s_annot := s_annot s; s_base := p |}))))
         end
       end.
Proof. unfold dk. intro Hk. unfold add_directive. cbv zeta. rewrite Hk. reflexivity. Qed.

(* ---- two runs whose states differ by one inserted server ---- *)
Definition srel (l1 : list (bytes * server)) (e : bytes * server) (l2 : list (bytes * server)) (b bb : bstate) : Prop :=
  exists b0, b = set_srv (l1 ++ l2) b0 /\ bb = set_srv (l1 ++ e :: l2) b0.
(* [K]: the keys of the servers that stand before the inserted one *)
Definition srel_some (K : list bytes) (e : bytes * server) (b bb : bstate) : Prop :=
  exists l1 l2, map fst l1 = K /\ srel l1 e l2 b bb.

(* the step does not touch the server named n *)
Definition srv_step_ok (n : bytes) (t : dtree) (anc : list dtree) : Prop :=
  (dk t = KServer -> named (tree_dir t) (bs "Name") <> n) /\
  (dk t = KBaseURL -> forall p, parent_dir anc = Some p -> named p (bs "Name") <> n).

Section SrvSim.
  Variable body_text : coords -> bytes.
  Variable banned : list kind.
  Notation add_directive := (add_directive body_text banned).

  Lemma step_srel K e t anc b bb :
    srel_some K e b bb -> srv_step_ok (fst e) t anc ->
    sim (srel_some K e) (add_directive t anc b) (add_directive t anc bb).
  Proof.
    intros [l1 [l2 [HK [b0 [-> ->]]]]] [Hs Hb].
    destruct (kind_eq_dec (dk t) KServer) as [Ek|Ek]; [|destruct (kind_eq_dec (dk t) KBaseURL) as [Ek2|Ek2]].
    - (* SERVER *)
      specialize (Hs Ek). rewrite !(add_directive_server _ _ _ _ _ Ek). cbv zeta. unfold kerr.
      destruct (kind_in KServer banned); [exact I|].
      destruct (beq (named (tree_dir t) (bs "Name")) []); [exact I|].
      cbn [b_cat set_srv c_servers upd_servers]. rewrite (om_has_ins e l1 l2 _ Hs).
      destruct (om_has beq (l1 ++ l2) (named (tree_dir t) (bs "Name"))); [exact I|].
      simpl. exists l1, (l2 ++ [(named (tree_dir t) (bs "Name"), {| s_annot := d_annot (tree_dir t); s_base := [] |})]).
      split; [exact HK|]. exists b0.
      split; unfold set_srv, with_cat; cbn; rewrite <- ?app_assoc; reflexivity.
    - (* BaseUrl *)
      specialize (Hb Ek2). rewrite !(add_directive_baseurl _ _ _ _ _ Ek2). cbv zeta. unfold kerr.
      destruct (kind_in KBaseURL banned); [exact I|].
      destruct (beq (named (tree_dir t) (bs "Path")) []); [exact I|].
      destruct (negb (beq (d_annot (tree_dir t)) [])); [exact I|].
      destruct (parent_dir anc) as [p|]; [|exact I]. specialize (Hb p eq_refl).
      cbn [b_cat set_srv c_servers upd_servers]. rewrite (om_get_ins e l1 l2 _ Hb).
      destruct (om_get beq (l1 ++ l2) (named p (bs "Name"))) as [s|]; [|exact I].
      destruct (negb (beq (s_base s) [])); [exact I|].
      simpl. rewrite (om_update_ins e l1 l2 _ _ Hb), om_update_app.
      eexists; eexists. split; [rewrite om_update_keys; exact HK|]. exists b0. split; reflexivity.
    - (* the other kinds neither read nor write the servers *)
      rewrite !(add_directive_srv _ _ _ _ _ _ Ek Ek2). apply sim_cmap.
      intro x. exists l1, l2. split; [exact HK|]. exists x. split; reflexivity.
  Qed.

  (* a relation preserved step by step is preserved by the run *)
  Lemma run_sim (R : bstate -> bstate -> Prop) (ok : dtree -> list dtree -> Prop) :
    (forall t anc b bb, R b bb -> ok t anc -> sim R (add_directive t anc b) (add_directive t anc bb)) ->
    forall l, (forall p, In p l -> ok (fst p) (snd p)) ->
    forall b bb, R b bb -> sim R (run body_text banned l b) (run body_text banned l bb).
  Proof.
    intros Hstep. induction l as [|p r IH]; intros Hok b bb HR; simpl; [exact HR|].
    pose proof (Hstep (fst p) (snd p) b bb HR (Hok p (or_introl eq_refl))) as Hs.
    destruct (add_directive (fst p) (snd p) b) as [b1| | |], (add_directive (fst p) (snd p) bb) as [bb1| | |];
      simpl in Hs |- *; try contradiction; try exact I.
    apply IH; [intros q Hq; apply Hok; right; exact Hq | exact Hs].
  Qed.
End SrvSim.

(* ---- the passes over a forest with a node in the middle that they do not look at ---- *)
Lemma collect_enums_mid_other a t b acc :
  kind_eqb (dk t) KEnum = false -> collect_enums (a ++ t :: b) acc = collect_enums (a ++ b) acc.
Proof.
  unfold dk. intro H. rewrite !collect_enums_app. destruct (collect_enums a acc); simpl; try reflexivity. rewrite H. reflexivity.
Qed.

Lemma collect_tags_mid_other a t b acc :
  kind_eqb (dk t) KTAG = false -> collect_tags (a ++ t :: b) acc = collect_tags (a ++ b) acc.
Proof.
  unfold dk. intro H. rewrite !collect_tags_app. destruct (collect_tags a acc); simpl; try reflexivity. rewrite H. reflexivity.
Qed.

Lemma check_dup_types_mid_other a t b seen :
  kind_eqb (dk t) KType = false -> check_dup_types (a ++ t :: b) seen = check_dup_types (a ++ b) seen.
Proof.
  unfold dk. intro H. rewrite !check_dup_types_app. destruct (check_dup_types a seen); simpl; try reflexivity. rewrite H. reflexivity.
Qed.

Lemma collect_paths_mid_leaf pp a t b acc :
  tree_kids t = [] -> kind_eqb (dk t) KMacro = false -> kind_eqb (dk t) KPath = false ->
  collect_paths_all pp (a ++ t :: b) acc = collect_paths_all pp (a ++ b) acc.
Proof.
  intros A B C. rewrite !collect_paths_all_app. destruct (collect_paths_all pp a acc); simpl; try reflexivity.
  rewrite (collect_paths_leaf pp t _ A B C). reflexivity.
Qed.

Lemma app_eq_split {A} (l1 m1 l2 m2 : list A) :
  List.length l1 = List.length m1 -> l1 ++ l2 = m1 ++ m2 -> l1 = m1 /\ l2 = m2.
Proof.
  revert m1. induction l1 as [|x l1 IH]; intros [|y m1] Hl H; simpl in *; try discriminate Hl.
  - split; [reflexivity | exact H].
  - injection H as -> H. injection Hl as Hl. destruct (IH m1 Hl H) as [-> ->]. split; reflexivity.
Qed.

(* the names a successful enum pass collects *)
Lemma gnames_enum_exact ts : (forall t, In t ts -> f_enum t <> Bad) ->
  gnames f_enum ts = map fst (map enum_entry (filter enum_node ts)).
Proof.
  induction ts as [|t r IH]; intro H; [reflexivity|]. unfold gnames in *. cbn [flat_map filter].
  rewrite IH; [|intros x Hx; apply H; right; exact Hx].
  pose proof (H t (or_introl eq_refl)) as Ht. unfold f_enum, enum_node in *.
  destruct (kind_eqb (dk t) KEnum); [|reflexivity].
  destruct (beq (named (tree_dir t) (bs "Name")) []); [congruence|].
  destruct (d_body (tree_dir t)); reflexivity.
Qed.

Lemma collect_enums_gcoll0 ts : is_ok (collect_enums ts []) = gcoll f_enum ts [].
Proof. exact (collect_enums_gcoll ts []). Qed.

(* the enum pass with one more ENUM (with a body) in the middle *)
Lemma collect_enums_mid_enum a t b en' :
  enum_node t = true ->
  (collect_enums (a ++ t :: b) [] = COk en' <->
   exists en, collect_enums (a ++ b) [] = COk en /\ named (tree_dir t) (bs "Name") <> [] /\
              ~ In (named (tree_dir t) (bs "Name")) (map fst en) /\
              en' = map enum_entry (filter enum_node (a ++ t :: b))).
Proof.
  intro Hen. unfold enum_node in Hen. apply andb_true_iff in Hen as [Hk Hbody].
  assert (Hperm : Permutation (a ++ t :: b) (t :: a ++ b)) by (apply Permutation_sym, Permutation_middle).
  assert (Hft : f_enum t = if beq (named (tree_dir t) (bs "Name")) [] then Bad else Name (named (tree_dir t) (bs "Name"))).
  { unfold f_enum. rewrite Hk. destruct (beq (named (tree_dir t) (bs "Name")) []); [reflexivity|].
    destruct (d_body (tree_dir t)); [reflexivity | discriminate Hbody]. }
  split.
  - intro H. pose proof (collect_enums_exact _ _ _ H) as Hex. simpl in Hex.
    assert (Hok : gcoll f_enum (t :: a ++ b) [] = true).
    { rewrite <- (gcoll_perm f_enum _ _ [] [] Hperm); [|tauto]. rewrite <- (collect_enums_gcoll0 (a ++ t :: b)), H. reflexivity. }
    cbn [gcoll] in Hok. rewrite Hft in Hok.
    destruct (beq (named (tree_dir t) (bs "Name")) []) eqn:En; [discriminate Hok|]. cbn [existsb] in Hok.
    apply gcoll_ok in Hok as [G1 [G2 G3]].
    assert (Hok2 : gcoll f_enum (a ++ b) [] = true) by (apply gcoll_ok; repeat split; auto).
    rewrite <- (collect_enums_gcoll0 (a ++ b)) in Hok2.
    destruct (collect_enums (a ++ b) []) as [en| | |] eqn:Ec; try discriminate Hok2.
    exists en. split; [reflexivity|]. split; [apply beq_false_ne; exact En|]. split; [|exact Hex].
    pose proof (collect_enums_exact _ _ _ Ec) as Hex2. simpl in Hex2. subst en.
    rewrite <- (gnames_enum_exact _ G1). intro Hin. apply (G3 _ Hin). left; reflexivity.
  - intros [en [Hc [Hn [Hfresh Hex]]]].
    pose proof (collect_enums_exact _ _ _ Hc) as Hex2. simpl in Hex2.
    assert (Hok2 : gcoll f_enum (a ++ b) [] = true) by (rewrite <- (collect_enums_gcoll0 (a ++ b)), Hc; reflexivity).
    apply gcoll_ok in Hok2 as [G1 [G2 G3]].
    assert (Hok : gcoll f_enum (t :: a ++ b) [] = true).
    { cbn [gcoll]. rewrite Hft. apply beq_false_ne in Hn. rewrite Hn. cbn [existsb].
      apply gcoll_ok. repeat split; auto. intros m Hm [<-|[]].
      apply Hfresh. subst en. rewrite <- (gnames_enum_exact _ G1). exact Hm. }
    rewrite <- (gcoll_perm f_enum _ _ [] [] Hperm) in Hok; [|tauto].
    rewrite <- (collect_enums_gcoll0 (a ++ t :: b)) in Hok.
    destruct (collect_enums (a ++ t :: b) []) as [en2| | |] eqn:Ec; try discriminate Hok.
    pose proof (collect_enums_exact _ _ _ Ec) as Hex3. simpl in Hex3. congruence.
Qed.

Section Mid.
  Variable path_props : coords -> option (list bytes).
  Variable body_text : coords -> bytes.
  Variable banned : list kind.
  Notation build := (build path_props body_text banned).
  Notation run := (run body_text banned).

  Lemma add_all_mid_leaf a t b s : tree_kids t = [] ->
    add_all body_text banned (a ++ t :: b) s =
    run (positions_all a) s >>=c fun s1 => add_directive body_text banned t [] s1 >>=c run (positions_all b).
  Proof.
    intro Hl. rewrite add_all_app, add_all_run. destruct (run (positions_all a) s) as [s1| | |]; simpl; try reflexivity.
    rewrite add_branch_eq, Hl. simpl. destruct (add_directive body_text banned t [] s1) as [s2| | |]; simpl; try reflexivity.
    apply add_all_run.
  Qed.

  Lemma add_all_two a b s :
    add_all body_text banned (a ++ b) s = run (positions_all a) s >>=c run (positions_all b).
  Proof. rewrite add_all_run, positions_all_app, run_app. reflexivity. Qed.

  (* C20 (b), SERVER at an arbitrary top-level position (both directions: insertion and removal).
     [srv_step_ok n]: no later SERVER is named n and no later BaseUrl stands under a directive named n (in a
     forest that respects the context table this follows from n being new). *)
  Theorem server_inserted_lemma first a t b c' :
    tree_kids t = [] -> dk t = KServer -> kind_in KServer banned = false ->
    let n := named (tree_dir t) (bs "Name") in
    let e := (n, {| s_annot := d_annot (tree_dir t); s_base := [] |}) in
    (forall p, In p (positions_all b) -> srv_step_ok n (fst p) (snd p)) ->
    (build ((first :: a) ++ t :: b) = COk c' <->
     exists c l1 l2, build ((first :: a) ++ b) = COk c /\ n <> [] /\ ~ In n (map fst (c_servers c)) /\
       c_servers c = l1 ++ l2 /\ map fst l1 = server_names (positions_all (first :: a)) /\
       c' = upd_servers c (l1 ++ e :: l2)).
  Proof.
    intros Hl Hk Hb n e Hok.
    assert (K1 : kind_eqb (dk t) KEnum = false) by (rewrite Hk; reflexivity).
    assert (K2 : kind_eqb (dk t) KTAG = false) by (rewrite Hk; reflexivity).
    assert (K3 : kind_eqb (dk t) KType = false) by (rewrite Hk; reflexivity).
    assert (K4 : kind_eqb (dk t) KMacro = false) by (rewrite Hk; reflexivity).
    assert (K5 : kind_eqb (dk t) KPath = false) by (rewrite Hk; reflexivity).
    (* the two folds *)
    assert (Hfold : forall s,
      match run (positions_all (first :: a)) s with
      | COk s1 =>
        if beq n [] then is_ok (add_all body_text banned ((first :: a) ++ t :: b) s) = false
        else if om_has beq (c_servers (b_cat s1)) n then is_ok (add_all body_text banned ((first :: a) ++ t :: b) s) = false
        else sim (srel_some (map fst (c_servers (b_cat s1))) e)
                 (add_all body_text banned ((first :: a) ++ b) s) (add_all body_text banned ((first :: a) ++ t :: b) s)
      | _ => is_ok (add_all body_text banned ((first :: a) ++ t :: b) s) = false /\
             is_ok (add_all body_text banned ((first :: a) ++ b) s) = false
      end).
    { intro s. rewrite (add_all_mid_leaf _ _ _ _ Hl), add_all_two.
      destruct (run (positions_all (first :: a)) s) as [s1| | |]; simpl; try (split; reflexivity).
      rewrite (add_directive_server _ _ _ _ _ Hk). cbv zeta. rewrite Hb. fold n. unfold kerr.
      destruct (beq n []); [reflexivity|].
      destruct (om_has beq (c_servers (b_cat s1)) n); [reflexivity|]. simpl.
      apply (run_sim _ _ (srel_some (map fst (c_servers (b_cat s1))) e) (srv_step_ok n)); [|exact Hok|].
      - intros t0 anc0 x y HR Hst. apply step_srel; assumption.
      - exists (c_servers (b_cat s1)), []. split; [reflexivity|]. exists s1. rewrite app_nil_r.
        split; [symmetry; apply set_srv_id | reflexivity]. }
    assert (Hst : forall en tg pvs x all,
      stages path_props body_text banned ((first :: a) ++ t :: b) en tg pvs x all <->
      (collect_enums ((first :: a) ++ b) [] = COk en /\ collect_tags ((first :: a) ++ b) [] = COk tg /\
       check_dup_types ((first :: a) ++ b) [] = COk tt /\ collect_paths_all path_props ((first :: a) ++ b) [] = COk pvs /\
       add_all body_text banned ((first :: a) ++ t :: b) (init_state en tg) = COk x /\ bind_all pvs [] = COk all)).
    { intros. unfold stages.
      rewrite (collect_enums_mid_other _ _ _ _ K1), (collect_tags_mid_other _ _ _ _ K2), (check_dup_types_mid_other _ _ _ _ K3),
              (collect_paths_mid_leaf path_props _ _ _ _ Hl K4 K5). reflexivity. }
    split.
    - intro Hfull. destruct (keys_unique_lemma _ _ _ _ _ Hfull) as [Hnd _].
      change ((first :: a) ++ t :: b) with (first :: (a ++ t :: b)) in Hfull. apply build_iff in Hfull.
      change (first :: (a ++ t :: b)) with ((first :: a) ++ t :: b) in Hfull.
      destruct Hfull as [Hj [en [tg [pvs [bb [all [St V]]]]]]]. apply Hst in St. destruct St as [A [B [C [D [E F]]]]].
      specialize (Hfold (init_state en tg)).
      destruct (run (positions_all (first :: a)) (init_state en tg)) as [s1| | |] eqn:Ea;
        try (destruct Hfold as [Hf _]; rewrite E in Hf; discriminate Hf).
      destruct (beq n []) eqn:En; [rewrite E in Hfold; discriminate Hfold|].
      destruct (om_has beq (c_servers (b_cat s1)) n) eqn:Eh; [rewrite E in Hfold; discriminate Hfold|].
      rewrite E in Hfold.
      destruct (add_all body_text banned ((first :: a) ++ b) (init_state en tg)) as [bfin| | |] eqn:Eb; simpl in Hfold; try contradiction.
      destruct Hfold as [l1 [l2 [HK [b0 [-> ->]]]]].
      cbn [b_cat set_srv] in V.
      apply (validate_frame (fun x => upd_servers x (l1 ++ e :: l2)) (b_cat b0) all c') in V as [c0 [V ->]];
        [| intro x; split; reflexivity | intro x; reflexivity].
      assert (V2 : validate (set_pathvars (b_cat (set_srv (l1 ++ l2) b0)) all) = COk (upd_servers c0 (l1 ++ l2))).
      { cbn [b_cat set_srv]. apply (validate_frame (fun x => upd_servers x (l1 ++ l2)) (b_cat b0) all);
          [intro x; split; reflexivity | intro x; reflexivity|]. exists c0. split; [exact V | reflexivity]. }
      exists (upd_servers c0 (l1 ++ l2)), l1, l2. split; [|split; [apply beq_false_ne; exact En|]].
      + change ((first :: a) ++ b) with (first :: (a ++ b)). apply build_iff. split; [exact Hj|].
        exists en, tg, pvs, (set_srv (l1 ++ l2) b0), all. unfold stages. repeat split; assumption.
      + destruct (run_keys _ _ _ _ _ Ea) as [Ks _]. simpl in Ks.
        split; [|split; [reflexivity | split; [rewrite HK, Ks; reflexivity | reflexivity]]].
        simpl in Hnd |- *. rewrite map_app in Hnd |- *. simpl in Hnd. intro Hin. apply in_app_or in Hin.
        apply NoDup_remove_2 in Hnd. apply Hnd. apply in_or_app. exact Hin.
    - intros [c [l1 [l2 [Hc [Hn [Hfresh [Hsrv [HK ->]]]]]]]].
      change ((first :: a) ++ b) with (first :: (a ++ b)) in Hc. apply build_iff in Hc.
      change (first :: (a ++ b)) with ((first :: a) ++ b) in Hc.
      destruct Hc as [Hj [en [tg [pvs [bfin [all [[A [B [C [D [E F]]]]] V]]]]]]].
      change ((first :: a) ++ t :: b) with (first :: (a ++ t :: b)). apply build_iff. split; [exact Hj|].
      change (first :: (a ++ t :: b)) with ((first :: a) ++ t :: b).
      specialize (Hfold (init_state en tg)).
      destruct (run (positions_all (first :: a)) (init_state en tg)) as [s1| | |] eqn:Ea;
        try (destruct Hfold as [_ Hf]; rewrite E in Hf; discriminate Hf).
      pose proof V as V0. apply validate_iff in V0 as [Hceq _].
      assert (Hs1 : forall x, In x (map fst (c_servers (b_cat s1))) -> In x (map fst (c_servers c))).
      { intros x Hx. rewrite add_all_two, Ea in E. simpl in E.
        destruct (run_keys _ _ _ _ _ E) as [Ks _]. subst c. simpl. rewrite Ks. apply in_or_app. left; exact Hx. }
      apply beq_false_ne in Hn. fold n in Hn. rewrite Hn in Hfold.
      destruct (om_has beq (c_servers (b_cat s1)) n) eqn:Eh.
      { exfalso. apply Hfresh. apply Hs1. apply (om_has_true beq beq_eq). exact Eh. }
      rewrite E in Hfold.
      destruct (add_all body_text banned ((first :: a) ++ t :: b) (init_state en tg)) as [bb| | |] eqn:Ebb; simpl in Hfold; try contradiction.
      destruct Hfold as [m1 [m2 [HK2 [b0 [-> ->]]]]].
      (* the split of the servers of c at the keys K is unique *)
      assert (Hsplit : l1 = m1 /\ l2 = m2).
      { subst c. simpl in Hsrv. apply app_eq_split; [|symmetry; exact Hsrv].
        rewrite <- (map_length fst l1), <- (map_length fst m1), HK, HK2.
        destruct (run_keys _ _ _ _ _ Ea) as [Ks _]. simpl in Ks. rewrite Ks. reflexivity. }
      destruct Hsplit as [<- <-].
      exists en, tg, pvs, (set_srv (l1 ++ e :: l2) b0), all. split; [apply Hst; repeat split; assumption|].
      cbn [b_cat set_srv] in V |- *.
      apply (validate_frame (fun x => upd_servers x (l1 ++ l2)) (b_cat b0) all c) in V as [c0 [V Hc0]];
        [| intro x; split; reflexivity | intro x; reflexivity].
      apply (validate_frame (fun x => upd_servers x (l1 ++ e :: l2)) (b_cat b0) all);
        [intro x; split; reflexivity | intro x; reflexivity|].
      exists c0. split; [exact V|]. subst c. reflexivity.
  Qed.

  Lemma run_enum S l : forall s, run l (set_enum S s) = cmap (set_enum S) (run l s).
  Proof.
    induction l as [|p r IH]; intro s; [reflexivity|]. simpl. rewrite add_directive_enum.
    destruct (add_directive body_text banned (fst p) (snd p) s); simpl; try reflexivity. apply IH.
  Qed.

  (* C20 (b), ENUM (with a body) at an arbitrary top-level position; both directions *)
  Theorem enum_inserted_lemma first a t b c' :
    tree_kids t = [] -> enum_node t = true -> kind_in KEnum banned = false ->
    let n := named (tree_dir t) (bs "Name") in
    (build ((first :: a) ++ t :: b) = COk c' <->
     exists c, build ((first :: a) ++ b) = COk c /\ n <> [] /\ ~ In n (map fst (c_enums c)) /\
       c' = upd_enums c (map enum_entry (filter enum_node ((first :: a) ++ t :: b)))).
  Proof.
    intros Hl Hen Hb n.
    assert (Hk : dk t = KEnum).
    { unfold enum_node in Hen. apply andb_true_iff in Hen as [Hk _]. apply kind_eqb_eq; exact Hk. }
    assert (K2 : kind_eqb (dk t) KTAG = false) by (rewrite Hk; reflexivity).
    assert (K3 : kind_eqb (dk t) KType = false) by (rewrite Hk; reflexivity).
    assert (K4 : kind_eqb (dk t) KMacro = false) by (rewrite Hk; reflexivity).
    assert (K5 : kind_eqb (dk t) KPath = false) by (rewrite Hk; reflexivity).
    assert (Hadd : forall s, add_all body_text banned ((first :: a) ++ t :: b) s = add_all body_text banned ((first :: a) ++ b) s).
    { intro s. rewrite (add_all_mid_leaf _ _ _ _ Hl), add_all_two.
      destruct (run (positions_all (first :: a)) s) as [s1| | |]; simpl; try reflexivity.
      rewrite (add_directive_noop _ _ _ _ _ (or_intror Hk)). rewrite Hk, Hb. reflexivity. }
    set (EN := map enum_entry (filter enum_node ((first :: a) ++ t :: b))).
    split.
    - intro Hfull. change ((first :: a) ++ t :: b) with (first :: (a ++ t :: b)) in Hfull. apply build_iff in Hfull.
      change (first :: (a ++ t :: b)) with ((first :: a) ++ t :: b) in Hfull.
      destruct Hfull as [Hj [en' [tg [pvs [bb [all [[A [B [C [D [E F]]]]] V]]]]]]].
      apply (collect_enums_mid_enum _ _ _ _ Hen) in A as [en [A [Hn [Hfresh Hex]]]]. fold n in Hn, Hfresh. fold EN in Hex.
      rewrite (collect_tags_mid_other _ _ _ _ K2) in B. rewrite (check_dup_types_mid_other _ _ _ _ K3) in C.
      rewrite (collect_paths_mid_leaf path_props _ _ _ _ Hl K4 K5) in D.
      rewrite Hadd in E. change (init_state en' tg) with (set_enum en' (init_state en tg)) in E.
      rewrite add_all_run, run_enum, <- add_all_run in E.
      destruct (add_all body_text banned ((first :: a) ++ b) (init_state en tg)) as [bfin| | |] eqn:Eb; simpl in E; try discriminate E.
      inversion E; subst bb; clear E. cbn [b_cat set_enum] in V.
      apply (validate_frame (fun x => upd_enums x en') (b_cat bfin) all c') in V as [c0 [V ->]];
        [| intro x; split; reflexivity | intro x; reflexivity].
      exists c0. split; [|split; [exact Hn|]].
      + change ((first :: a) ++ b) with (first :: (a ++ b)). apply build_iff. split; [exact Hj|].
        exists en, tg, pvs, bfin, all. unfold stages. repeat split; assumption.
      + apply validate_iff in V as [-> _]. rewrite add_all_run in Eb.
        destruct (run_keys _ _ _ _ _ Eb) as [_ [_ [Ke _]]]. simpl in Ke.
        change (c_enums (set_pathvars (b_cat bfin) all)) with (c_enums (b_cat bfin)). rewrite Ke.
        split; [exact Hfresh | rewrite Hex; reflexivity].
    - intros [c [Hc [Hn [Hfresh ->]]]].
      change ((first :: a) ++ b) with (first :: (a ++ b)) in Hc. apply build_iff in Hc.
      change (first :: (a ++ b)) with ((first :: a) ++ b) in Hc.
      destruct Hc as [Hj [en [tg [pvs [bfin [all [[A [B [C [D [E F]]]]] V]]]]]]].
      change ((first :: a) ++ t :: b) with (first :: (a ++ t :: b)). apply build_iff. split; [exact Hj|].
      change (first :: (a ++ t :: b)) with ((first :: a) ++ t :: b).
      pose proof V as V0. apply validate_iff in V0 as [Hceq _].
      assert (Hen_c : c_enums c = en).
      { subst c. rewrite add_all_run in E. destruct (run_keys _ _ _ _ _ E) as [_ [_ [Ke _]]]. exact Ke. }
      rewrite Hen_c in Hfresh.
      exists EN, tg, pvs, (set_enum EN bfin), all. split.
      + unfold stages. split; [apply (collect_enums_mid_enum _ _ _ _ Hen); exists en; repeat split; assumption|].
        rewrite (collect_tags_mid_other _ _ _ _ K2), (check_dup_types_mid_other _ _ _ _ K3),
                (collect_paths_mid_leaf path_props _ _ _ _ Hl K4 K5).
        repeat split; try assumption.
        rewrite Hadd. change (init_state EN tg) with (set_enum EN (init_state en tg)).
        rewrite add_all_run, run_enum, <- add_all_run, E. reflexivity.
      + cbn [b_cat set_enum]. apply (validate_frame (fun x => upd_enums x EN) (b_cat bfin) all);
          [intro x; split; reflexivity | intro x; reflexivity|].
        exists c. split; [exact V | reflexivity].
  Qed.
End Mid.

(* ---- TYPE ---- *)
Definition trel_some (K : list bytes) (e : bytes * utype) (b bb : bstate) : Prop :=
  exists l1 l2, map fst l1 = K /\ exists b0, b = set_typ (l1 ++ l2) b0 /\ bb = set_typ (l1 ++ e :: l2) b0.
Definition typ_step_ok (n : bytes) (t : dtree) (anc : list dtree) : Prop :=
  dk t = KType -> named (tree_dir t) (bs "Name") <> n.

Lemma gnames_type_names ts n : In n (gnames f_type ts) -> In n (type_names (positions_all ts)).
Proof.
  unfold gnames, type_names. induction ts as [|t r IH]; simpl; intro H; [exact H|].
  rewrite flat_map_app. apply in_app_or in H as [H|H]; apply in_or_app.
  - left. rewrite positions_eq. cbn [flat_map fst]. apply in_or_app. left.
    unfold f_type, type_delta in *. destruct (kind_eqb (dk t) KType); [|destruct H].
    destruct (beq (named (tree_dir t) (bs "Name")) []); [destruct H | exact H].
  - right. exact (IH H).
Qed.

Lemma check_dup_types_gcoll0 ts : is_ok (check_dup_types ts []) = gcoll f_type ts [].
Proof. exact (check_dup_types_gcoll ts []). Qed.

Lemma is_ok_unit (r : cres unit) : is_ok r = true <-> r = COk tt.
Proof. destruct r as [[]| | |]; simpl; split; intro H; try reflexivity; discriminate H. Qed.

(* the duplicate-TYPE pass with one more named TYPE in the middle *)
Lemma check_dup_types_mid_type a t b :
  dk t = KType -> named (tree_dir t) (bs "Name") <> [] ->
  (check_dup_types (a ++ t :: b) [] = COk tt <->
   check_dup_types (a ++ b) [] = COk tt /\ ~ In (named (tree_dir t) (bs "Name")) (gnames f_type (a ++ b))).
Proof.
  intros Hk Hn.
  assert (Hperm : Permutation (a ++ t :: b) (t :: a ++ b)) by (apply Permutation_sym, Permutation_middle).
  assert (Hft : f_type t = Name (named (tree_dir t) (bs "Name"))).
  { unfold f_type. rewrite Hk. change (kind_eqb KType KType) with true. cbv iota. apply beq_false_ne in Hn. rewrite Hn. reflexivity. }
  rewrite <- !is_ok_unit, !check_dup_types_gcoll0, (gcoll_perm f_type _ _ [] [] Hperm); [|tauto].
  cbn [gcoll]. rewrite Hft. cbn [existsb]. rewrite !gcoll_ok. split.
  - intros [A [B C]]. split; [repeat split; auto; intros m Hm []|]. intro Hin. apply (C _ Hin). left; reflexivity.
  - intros [[A [B _]] C]. repeat split; auto. intros m Hm [<-|[]]. exact (C Hm).
Qed.

Section TypSim.
  Variable path_props : coords -> option (list bytes).
  Variable body_text : coords -> bytes.
  Variable banned : list kind.
  Notation add_directive := (add_directive body_text banned).
  Notation build := (build path_props body_text banned).
  Notation run := (run body_text banned).

  Lemma step_trel K e t anc b bb :
    trel_some K e b bb -> typ_step_ok (fst e) t anc ->
    sim (trel_some K e) (add_directive t anc b) (add_directive t anc bb).
  Proof.
    intros [l1 [l2 [HK [b0 [-> ->]]]]] Hs.
    destruct (kind_eq_dec (dk t) KType) as [Ek|Ek].
    - specialize (Hs Ek). rewrite !(add_directive_type _ _ _ _ _ Ek). cbv zeta. unfold kerr.
      destruct (kind_in KType banned); [exact I|].
      destruct (beq (named (tree_dir t) (bs "Name")) []); [exact I|].
      cbn [b_cat set_typ c_types upd_types]. rewrite (om_has_ins e l1 l2 _ Hs).
      destruct (om_has beq (l1 ++ l2) (named (tree_dir t) (bs "Name"))); [exact I|].
      destruct (norm_notation (named (tree_dir t) (bs "SchemaNotation"))) as [nt|]; [|exact I].
      match goal with |- sim _ (if ?X then _ else _) _ => destruct X end; [exact I|].
      simpl. eexists l1, (l2 ++ [_]). split; [exact HK|]. exists b0.
      split; unfold set_typ, with_cat; cbn; rewrite <- ?app_assoc; reflexivity.
    - rewrite !(add_directive_typ _ _ _ _ _ _ Ek). apply sim_cmap.
      intro x. exists l1, l2. split; [exact HK|]. exists x. split; reflexivity.
  Qed.

  (* C20 (b), TYPE at an arbitrary top-level position; both directions *)
  Theorem type_inserted_lemma first a t b c' :
    tree_kids t = [] -> dk t = KType -> kind_in KType banned = false ->
    let d := tree_dir t in let n := named d (bs "Name") in
    (forall p, In p (positions_all b) -> typ_step_ok n (fst p) (snd p)) ->
    (build ((first :: a) ++ t :: b) = COk c' <->
     exists c nt l1 l2, build ((first :: a) ++ b) = COk c /\ n <> [] /\ ~ In n (map fst (c_types c)) /\
       norm_notation (named d (bs "SchemaNotation")) = Some nt /\
       ((beq nt (bs "jsight") || beq nt (bs "regex")) && (match d_body d with None => true | Some _ => false end)) = false /\
       c_types c = l1 ++ l2 /\ map fst l1 = type_names (positions_all (first :: a)) /\
       c' = upd_types c (l1 ++ (n, {| ut_annot := d_annot d; ut_notation := nt; ut_schema := schema_of d |}) :: l2)).
  Proof.
    intros Hl Hk Hb d n Hok.
    assert (K1 : kind_eqb (dk t) KEnum = false) by (rewrite Hk; reflexivity).
    assert (K2 : kind_eqb (dk t) KTAG = false) by (rewrite Hk; reflexivity).
    assert (K4 : kind_eqb (dk t) KMacro = false) by (rewrite Hk; reflexivity).
    assert (K5 : kind_eqb (dk t) KPath = false) by (rewrite Hk; reflexivity).
    set (E := fun nt => (n, {| ut_annot := d_annot d; ut_notation := nt; ut_schema := schema_of d |})).
    (* the step of t itself *)
    assert (Hstep : forall s1,
      add_directive t [] s1 =
      if beq n [] then kerr d "required parameter"
      else if om_has beq (c_types (b_cat s1)) n then kerr d "duplicate names"
      else match norm_notation (named d (bs "SchemaNotation")) with
           | None => kerr d "unknown schema notation"
           | Some nt =>
             if (beq nt (bs "jsight") || beq nt (bs "regex")) && (match d_body d with None => true | Some _ => false end)
             then kerr d "empty body"
             else COk (set_typ (c_types (b_cat s1) ++ [E nt]) s1)
           end).
    { intro s1. rewrite (add_directive_type _ _ _ _ _ Hk). cbv zeta. rewrite Hb. reflexivity. }
    split.
    - intro Hfull. destruct (keys_unique_lemma _ _ _ _ _ Hfull) as [_ [Hnd _]].
      change ((first :: a) ++ t :: b) with (first :: (a ++ t :: b)) in Hfull. apply build_iff in Hfull.
      change (first :: (a ++ t :: b)) with ((first :: a) ++ t :: b) in Hfull.
      destruct Hfull as [Hj [en [tg [pvs [bb [all [[A [B [C [D [Ea F]]]]] V]]]]]]].
      rewrite (collect_enums_mid_other _ _ _ _ K1) in A. rewrite (collect_tags_mid_other _ _ _ _ K2) in B.
      rewrite (collect_paths_mid_leaf path_props _ _ _ _ Hl K4 K5) in D.
      rewrite (add_all_mid_leaf _ _ _ _ _ _ Hl) in Ea.
      destruct (run (positions_all (first :: a)) (init_state en tg)) as [s1| | |] eqn:Er; simpl in Ea; try discriminate Ea.
      rewrite Hstep in Ea. unfold kerr in Ea.
      destruct (beq n []) eqn:En; [discriminate Ea|].
      destruct (om_has beq (c_types (b_cat s1)) n) eqn:Eh; [discriminate Ea|].
      destruct (norm_notation (named d (bs "SchemaNotation"))) as [nt|] eqn:Ent; [|discriminate Ea].
      match type of Ea with ((if ?X then _ else _) >>=c _) = _ => destruct X eqn:Ebody end; [discriminate Ea|].
      simpl in Ea.
      assert (Hn : n <> []) by (apply beq_false_ne; exact En).
      apply (check_dup_types_mid_type _ _ _ Hk Hn) in C as [C _].
      pose proof (run_sim body_text banned (trel_some (map fst (c_types (b_cat s1))) (E nt)) (typ_step_ok n)
                    (fun t0 anc0 x y HR Hst => step_trel _ _ t0 anc0 x y HR Hst) (positions_all b) Hok
                    s1 (set_typ (c_types (b_cat s1) ++ [E nt]) s1)) as Hsim.
      rewrite Ea in Hsim.
      destruct (run (positions_all b) s1) as [bfin| | |] eqn:Eb.
      2-4: exfalso; apply Hsim; exists (c_types (b_cat s1)), []; split; [reflexivity|]; exists s1; rewrite app_nil_r;
           split; [symmetry; apply set_typ_id | reflexivity].
      destruct Hsim as [l1 [l2 [HK [b0 [-> ->]]]]].
      { exists (c_types (b_cat s1)), []. split; [reflexivity|]. exists s1. rewrite app_nil_r.
        split; [symmetry; apply set_typ_id | reflexivity]. }
      cbn [b_cat set_typ] in V.
      apply (validate_frame (fun x => upd_types x (l1 ++ E nt :: l2)) (b_cat b0) all c') in V as [c0 [V ->]];
        [| intro x; split; reflexivity | intro x; reflexivity].
      assert (V2 : validate (set_pathvars (b_cat (set_typ (l1 ++ l2) b0)) all) = COk (upd_types c0 (l1 ++ l2))).
      { cbn [b_cat set_typ]. apply (validate_frame (fun x => upd_types x (l1 ++ l2)) (b_cat b0) all);
          [intro x; split; reflexivity | intro x; reflexivity|]. exists c0. split; [exact V | reflexivity]. }
      exists (upd_types c0 (l1 ++ l2)), nt, l1, l2. split; [|split; [exact Hn|]].
      + change ((first :: a) ++ b) with (first :: (a ++ b)). apply build_iff. split; [exact Hj|].
        exists en, tg, pvs, (set_typ (l1 ++ l2) b0), all. unfold stages. repeat split; try assumption.
        change (first :: (a ++ b)) with ((first :: a) ++ b). rewrite add_all_two, Er. simpl. exact Eb.
      + destruct (run_keys _ _ _ _ _ Er) as [_ [Kt _]]. simpl in Kt.
        split; [|split; [reflexivity | split; [exact Ebody | split; [reflexivity | split; [rewrite HK, Kt; reflexivity | reflexivity]]]]].
        simpl in Hnd |- *. rewrite map_app in Hnd |- *. simpl in Hnd. intro Hin. apply in_app_or in Hin.
        apply NoDup_remove_2 in Hnd. apply Hnd. apply in_or_app. exact Hin.
    - intros [c [nt [l1 [l2 [Hc [Hn [Hfresh [Ent [Ebody [Htyp [HK ->]]]]]]]]]]].
      destruct (catalog_keys_lemma _ _ _ _ _ Hc) as [_ [Kall _]].
      change ((first :: a) ++ b) with (first :: (a ++ b)) in Hc. apply build_iff in Hc.
      change (first :: (a ++ b)) with ((first :: a) ++ b) in Hc.
      destruct Hc as [Hj [en [tg [pvs [bfin [all [[A [B [C [D [Ea F]]]]] V]]]]]]].
      change ((first :: a) ++ t :: b) with (first :: (a ++ t :: b)). apply build_iff. split; [exact Hj|].
      change (first :: (a ++ t :: b)) with ((first :: a) ++ t :: b).
      rewrite add_all_two in Ea.
      destruct (run (positions_all (first :: a)) (init_state en tg)) as [s1| | |] eqn:Er; simpl in Ea; try discriminate Ea.
      pose proof V as V0. apply validate_iff in V0 as [Hceq _].
      destruct (run_keys _ _ _ _ _ Er) as [_ [Kt1 _]]. simpl in Kt1.
      destruct (run_keys _ _ _ _ _ Ea) as [_ [Kt2 _]].
      assert (Eh : om_has beq (c_types (b_cat s1)) n = false).
      { apply (om_has_false beq beq_eq). intro Hin. apply Hfresh. subst c. simpl. rewrite Kt2. apply in_or_app. left; exact Hin. }
      pose proof (run_sim body_text banned (trel_some (map fst (c_types (b_cat s1))) (E nt)) (typ_step_ok n)
                    (fun t0 anc0 x y HR Hst => step_trel _ _ t0 anc0 x y HR Hst) (positions_all b) Hok
                    s1 (set_typ (c_types (b_cat s1) ++ [E nt]) s1)) as Hsim.
      rewrite Ea in Hsim.
      destruct (run (positions_all b) (set_typ (c_types (b_cat s1) ++ [E nt]) s1)) as [bb| | |] eqn:Ebb.
      2-4: exfalso; apply Hsim; exists (c_types (b_cat s1)), []; split; [reflexivity|]; exists s1; rewrite app_nil_r;
           split; [symmetry; apply set_typ_id | reflexivity].
      destruct Hsim as [m1 [m2 [HK2 [b0 [-> ->]]]]].
      { exists (c_types (b_cat s1)), []. split; [reflexivity|]. exists s1. rewrite app_nil_r.
        split; [symmetry; apply set_typ_id | reflexivity]. }
      assert (Hsplit : l1 = m1 /\ l2 = m2).
      { subst c. simpl in Htyp. apply app_eq_split; [|symmetry; exact Htyp].
        rewrite <- (map_length fst l1), <- (map_length fst m1), HK, HK2, Kt1. reflexivity. }
      destruct Hsplit as [<- <-].
      exists en, tg, pvs, (set_typ (l1 ++ E nt :: l2) b0), all. split.
      + unfold stages. rewrite (collect_enums_mid_other _ _ _ _ K1), (collect_tags_mid_other _ _ _ _ K2),
                               (collect_paths_mid_leaf path_props _ _ _ _ Hl K4 K5).
        repeat split; try assumption.
        * apply (check_dup_types_mid_type _ _ _ Hk Hn). split; [exact C|]. intro Hin. apply Hfresh.
          rewrite Kall. apply gnames_type_names. exact Hin.
        * rewrite (add_all_mid_leaf _ _ _ _ _ _ Hl), Er. simpl. rewrite Hstep. apply beq_false_ne in Hn. rewrite Hn, Eh, Ent, Ebody.
          simpl. exact Ebb.
      + cbn [b_cat set_typ] in V |- *.
        apply (validate_frame (fun x => upd_types x (l1 ++ l2)) (b_cat b0) all c) in V as [c0 [V Hc0]];
          [| intro x; split; reflexivity | intro x; reflexivity].
        apply (validate_frame (fun x => upd_types x (l1 ++ E nt :: l2)) (b_cat b0) all);
          [intro x; split; reflexivity | intro x; reflexivity|].
        exists c0. split; [exact V|]. subst c. reflexivity.
  Qed.
End TypSim.

(* ---- C10: moving a SERVER declaration to another top-level position ---- *)
Lemma split_at_keys {V} (l : list (bytes * V)) (k1 k2 : list bytes) :
  map fst l = k1 ++ k2 -> exists l1 l2, l = l1 ++ l2 /\ map fst l1 = k1.
Proof.
  revert l. induction k1 as [|x k1 IH]; intros l H.
  - exists [], l. split; reflexivity.
  - destruct l as [|e l]; [discriminate H|]. simpl in H. injection H as Hx H.
    destruct (IH l H) as [l1 [l2 [-> Hk]]]. exists (e :: l1), l2. split; [reflexivity|]. simpl. rewrite Hx, Hk. reflexivity.
Qed.

Section Move.
  Variable path_props : coords -> option (list bytes).
  Variable body_text : coords -> bytes.
  Variable banned : list kind.
  Notation build := (build path_props body_text banned).

  Theorem server_moved_lemma first a t b1 b2 c :
    tree_kids t = [] -> dk t = KServer -> kind_in KServer banned = false ->
    let n := named (tree_dir t) (bs "Name") in
    (forall p, In p (positions_all (b1 ++ b2)) -> srv_step_ok n (fst p) (snd p)) ->
    build ((first :: a) ++ t :: b1 ++ b2) = COk c ->
    exists c', build ((first :: a ++ b1) ++ t :: b2) = COk c' /\
      Permutation (c_servers c) (c_servers c') /\
      c_types c' = c_types c /\ c_enums c' = c_enums c /\ c_tags c' = c_tags c /\ c_inters c' = c_inters c /\
      c_info c' = c_info c /\ c_jsight c' = c_jsight c.
  Proof.
    intros Hl Hk Hb n Hok Hc.
    apply (server_inserted_lemma path_props body_text banned first a t (b1 ++ b2) c Hl Hk Hb Hok) in Hc
      as [c0 [l1 [l2 [Hc0 [Hn [Hfresh [Hsrv [HK ->]]]]]]]].
    assert (Hok2 : forall p, In p (positions_all b2) -> srv_step_ok n (fst p) (snd p)).
    { intros p Hp. apply Hok. rewrite positions_all_app. apply in_or_app. right; exact Hp. }
    assert (Hforest : (first :: a) ++ b1 ++ b2 = (first :: a ++ b1) ++ b2) by (simpl; rewrite app_assoc; reflexivity).
    rewrite Hforest in Hc0.
    destruct (catalog_keys_lemma _ _ _ _ _ Hc0) as [Ks _].
    rewrite positions_all_app in Ks. unfold server_names in Ks. rewrite flat_map_app in Ks.
    destruct (split_at_keys _ _ _ Ks) as [m1 [m2 [Hm Hmk]]].
    exists (upd_servers c0 (m1 ++ (n, {| s_annot := d_annot (tree_dir t); s_base := [] |}) :: m2)). split.
    - apply (server_inserted_lemma path_props body_text banned first (a ++ b1) t b2 _ Hl Hk Hb Hok2).
      exists c0, m1, m2. repeat split; try assumption.
    - simpl. rewrite Hsrv in Hm. repeat split; try reflexivity.
      eapply Permutation_trans; [apply Permutation_sym, Permutation_middle|].
      rewrite Hm. apply Permutation_middle.
  Qed.
End Move.

(* ---- C10: moving a TYPE / an ENUM declaration to another top-level position ---- *)
Section Move2.
  Variable path_props : coords -> option (list bytes).
  Variable body_text : coords -> bytes.
  Variable banned : list kind.
  Notation build := (build path_props body_text banned).

  Theorem type_moved_lemma first a t b1 b2 c :
    tree_kids t = [] -> dk t = KType -> kind_in KType banned = false ->
    let n := named (tree_dir t) (bs "Name") in
    (forall p, In p (positions_all (b1 ++ b2)) -> typ_step_ok n (fst p) (snd p)) ->
    build ((first :: a) ++ t :: b1 ++ b2) = COk c ->
    exists c', build ((first :: a ++ b1) ++ t :: b2) = COk c' /\
      Permutation (c_types c) (c_types c') /\
      c_servers c' = c_servers c /\ c_enums c' = c_enums c /\ c_tags c' = c_tags c /\ c_inters c' = c_inters c /\
      c_info c' = c_info c /\ c_jsight c' = c_jsight c.
  Proof.
    intros Hl Hk Hb n Hok Hc.
    apply (type_inserted_lemma path_props body_text banned first a t (b1 ++ b2) c Hl Hk Hb Hok) in Hc
      as [c0 [nt [l1 [l2 [Hc0 [Hn [Hfresh [Ent [Ebody [Htyp [HK ->]]]]]]]]]]].
    assert (Hok2 : forall p, In p (positions_all b2) -> typ_step_ok n (fst p) (snd p)).
    { intros p Hp. apply Hok. rewrite positions_all_app. apply in_or_app. right; exact Hp. }
    assert (Hforest : (first :: a) ++ b1 ++ b2 = (first :: a ++ b1) ++ b2) by (simpl; rewrite app_assoc; reflexivity).
    rewrite Hforest in Hc0.
    destruct (catalog_keys_lemma _ _ _ _ _ Hc0) as [_ [Ks _]].
    rewrite positions_all_app in Ks. unfold type_names in Ks. rewrite flat_map_app in Ks.
    destruct (split_at_keys _ _ _ Ks) as [m1 [m2 [Hm Hmk]]].
    exists (upd_types c0 (m1 ++ (n, {| ut_annot := d_annot (tree_dir t); ut_notation := nt; ut_schema := schema_of (tree_dir t) |}) :: m2)). split.
    - apply (type_inserted_lemma path_props body_text banned first (a ++ b1) t b2 _ Hl Hk Hb Hok2).
      exists c0, nt, m1, m2. repeat split; try assumption.
    - simpl. rewrite Htyp in Hm. repeat split; try reflexivity.
      eapply Permutation_trans; [apply Permutation_sym, Permutation_middle|].
      rewrite Hm. apply Permutation_middle.
  Qed.

  Theorem enum_moved_lemma first a t b1 b2 c :
    tree_kids t = [] -> enum_node t = true -> kind_in KEnum banned = false ->
    build ((first :: a) ++ t :: b1 ++ b2) = COk c ->
    exists c', build ((first :: a ++ b1) ++ t :: b2) = COk c' /\
      Permutation (c_enums c) (c_enums c') /\
      c_servers c' = c_servers c /\ c_types c' = c_types c /\ c_tags c' = c_tags c /\ c_inters c' = c_inters c /\
      c_info c' = c_info c /\ c_jsight c' = c_jsight c.
  Proof.
    intros Hl Hen Hb Hc.
    apply (enum_inserted_lemma path_props body_text banned first a t (b1 ++ b2) c Hl Hen Hb) in Hc
      as [c0 [Hc0 [Hn [Hfresh ->]]]].
    assert (Hforest : (first :: a) ++ b1 ++ b2 = (first :: a ++ b1) ++ b2) by (simpl; rewrite app_assoc; reflexivity).
    rewrite Hforest in Hc0.
    exists (upd_enums c0 (map enum_entry (filter enum_node ((first :: a ++ b1) ++ t :: b2)))). split.
    - apply (enum_inserted_lemma path_props body_text banned first (a ++ b1) t b2 _ Hl Hen Hb).
      exists c0. repeat split; assumption.
    - cbn [c_enums upd_enums c_servers c_types c_tags c_inters c_info c_jsight]. repeat split; try reflexivity.
      apply Permutation_map. apply Permutation_filter.
      cbn [app]. constructor. rewrite <- app_assoc.
      apply Permutation_app_head. apply (Permutation_middle b1 b2 t).
  Qed.
End Move2.
