(* A generic frame lemma for the catalog fold: add_directive commutes with any transformer of the state that
   rearranges / extends the interaction, tag, URL-path and protocol collections in a way the step cannot see.
   Instances (SwapProofs.v): a block prepended (what a subtree adds), a block inserted, two blocks swapped. *)
From Coq Require Import List NArith Bool String Lia Permutation.
From JV.lib Require Import Bytes.
From JV.gen Require Import DirectiveTables TagName.
From JV.model Require Import ScannerSem Core Description PathParams TagTitle Catalog.
From JV.proofs Require Import BytesLemmas TagNameProofs CatalogProofs FaithfulProofs LocalityProofs OrderProofs FrameProofs InsertProofs.
Import ListNotations.
Open Scope N_scope.

Definition rmap (g : list (bytes * tag) -> list (bytes * tag)) (r : cres (list bytes * list (bytes * tag)))
  : cres (list bytes * list (bytes * tag)) :=
  match r with COk (ns, tg) => COk (ns, g tg) | CErr e => CErr e | CPanic w => CPanic w | CFuel => CFuel end.

Section Gen.
  Variable gI : list (iid * interaction) -> list (iid * interaction).
  Variable gT : list (bytes * tag) -> list (bytes * tag).
  Variable gU : list bytes -> list bytes.
  Variable gP : list coords -> list coords.
  (* JI / JT: what the transformer needs of the collection it is applied to; okI / okT / okU / okP: the keys a
     step may use *)
  Variable JI : list (iid * interaction) -> Prop.
  Variable JT : list (bytes * tag) -> Prop.
  Variable okI : iid -> Prop.
  Variable okT : bytes -> Prop.
  Variable okU : bytes -> Prop.
  Variable okP : coords -> Prop.

  Hypothesis I1 : forall l k, JI l -> okI k -> om_get iid_eqb (gI l) k = om_get iid_eqb l k.
  Hypothesis I2 : forall l k, JI l -> okI k -> om_has iid_eqb (gI l) k = om_has iid_eqb l k.
  Hypothesis I3 : forall l k h, okI k -> gI (om_update iid_eqb l k h) = om_update iid_eqb (gI l) k h.
  Hypothesis I4 : forall l x, JI l -> gI (l ++ [x]) = gI l ++ [x].
  Hypothesis I5 : forall l k h, JI l -> JI (om_update iid_eqb l k h).
  Hypothesis I6 : forall l x, JI l -> JI (l ++ [x]).
  Hypothesis T1 : forall l k, JT l -> okT k -> om_get beq (gT l) k = om_get beq l k.
  Hypothesis T2 : forall l k, JT l -> okT k -> om_has beq (gT l) k = om_has beq l k.
  Hypothesis T3 : forall l k h, okT k -> gT (om_update beq l k h) = om_update beq (gT l) k h.
  Hypothesis T4 : forall l x, JT l -> gT (l ++ [x]) = gT l ++ [x].
  Hypothesis T5 : forall l k h, JT l -> JT (om_update beq l k h).
  Hypothesis T6 : forall l x, JT l -> JT (l ++ [x]).
  Variable JU : list bytes -> Prop.
  Variable JP : list coords -> Prop.
  Hypothesis U1 : forall u p, JU u -> okU p -> existsb (beq p) (gU u) = existsb (beq p) u.
  Hypothesis U2 : forall u p, JU u -> gU (p :: u) = p :: gU u.
  Hypothesis P1 : forall u k, JP u -> okP k -> existsb (coords_eqb k) (gP u) = existsb (coords_eqb k) u.
  Hypothesis P2 : forall u k, JP u -> gP (k :: u) = k :: gP u.

  Definition G (s : bstate) : bstate :=
    {| b_cat := upd_tags (upd_inters (b_cat s) (gI (c_inters (b_cat s)))) (gT (c_tags (b_cat s)));
       b_urls := gU (b_urls s); b_similar := b_similar s; b_protocols := gP (b_protocols s) |}.

  (* ---- tags ---- *)
  Lemma tags_go_G td i ns : Forall okT ns -> forall acc l, JT l ->
    tags_go td i ns acc (gT l) = rmap gT (tags_go td i ns acc l).
  Proof.
    induction ns as [|n r IH]; intros Hok acc l HJ; [reflexivity|]. inversion Hok; subst.
    cbn [tags_go]. rewrite (T1 _ _ HJ H1). destruct (om_get beq l n) as [t0|]; [|reflexivity].
    destruct (t_auto t0); [reflexivity|]. destruct i as [j|].
    - rewrite <- (T3 _ _ _ H1). apply IH; [exact H2 | apply T5; exact HJ].
    - apply IH; assumption.
  Qed.

  Lemma tags_from_directive_G td i l : Forall okT (d_unnamed td) -> JT l ->
    tags_from_directive td i (gT l) = rmap gT (tags_from_directive td i l).
  Proof.
    intros Hok HJ. rewrite !tags_from_directive_unfold. unfold kerr.
    destruct (negb (beq (d_annot td) [])); [reflexivity|].
    destruct (d_unnamed td) as [|x r] eqn:E; [reflexivity|]. apply tags_go_G; assumption.
  Qed.

  Definition tag_names_ok (me : dtree) (anc : list dtree) (i : iid) : Prop :=
    match used_tags_directive me anc with
    | Some td => Forall okT (d_unnamed td)
    | None => okT (auto_tag_name (i_path i))
    end.

  Lemma tags_for_G me anc i l : tag_names_ok me anc i -> JT l ->
    tags_for me anc i (gT l) = rmap gT (tags_for me anc i l).
  Proof.
    unfold tag_names_ok. intros Hok HJ. rewrite !tags_for_unfold.
    destruct (used_tags_directive me anc) as [td|]; [apply tags_from_directive_G; assumption|].
    cbv zeta. rewrite (T2 _ _ HJ Hok). simpl. f_equal. f_equal.
    destruct (om_has beq l (auto_tag_name (i_path i))).
    - rewrite (T3 _ _ _ Hok). reflexivity.
    - rewrite (T3 _ _ _ Hok), (T4 _ _ HJ). reflexivity.
  Qed.

  (* ---- the steps ---- *)
  Variable body_text : coords -> bytes.
  Variable banned : list kind.

  Ltac gnorm :=
    unfold G;
    cbn [b_cat b_urls b_similar b_protocols with_cat cmap rmap
         c_jsight c_info c_servers c_types c_enums c_inters c_tags
         upd_servers upd_inters upd_tags upd_info upd_types upd_enums upd_jsight].

  Lemma check_path_G d s p : check_path d (G s) p = cmap G (check_path d s p).
  Proof.
    unfold check_path, kerr.
    repeat (gnorm; cbv beta iota zeta; gnorm;
            lazymatch goal with |- (match ?X with _ => _ end) = _ => head_disc X ltac:(fun Z => destruct Z eqn:?) end);
    gnorm; cbv beta iota zeta; reflexivity.
  Qed.

  (* side conditions of the collection axioms *)
  Ltac ji HJI := repeat first [apply I5 | apply I6]; exact HJI.

  Ltac gwalk :=
    repeat (gnorm; cbv beta iota zeta; gnorm;
            lazymatch goal with |- (match ?X with _ => _ end) = _ => head_disc X ltac:(fun Z => destruct Z eqn:?) end);
    gnorm; cbv beta iota zeta; gnorm; try reflexivity.

  Lemma add_request_G d anc s :
    JI (c_inters (b_cat s)) -> (forall i, http_id d anc = IdOk i -> okI i) ->
    add_request d anc (G s) = cmap G (add_request d anc s).
  Proof.
    intros HJI Hid. unfold add_request, kerr, get_http, upd_http. cbv zeta.
    destruct (http_id d anc) as [i|cls] eqn:Eid.
    - assert (Hi : okI i) by (apply Hid; reflexivity).
      destruct (kind_eqb (d_kind d) KRequest); gnorm; cbv beta iota zeta; gnorm;
        repeat rewrite <- (I3 _ _ _ Hi); repeat rewrite I1 by (first [ji HJI | exact Hi]); gwalk;
        repeat rewrite <- (I3 _ _ _ Hi); reflexivity.
    - destruct (kind_eqb (d_kind d) KRequest); gwalk.
  Qed.

  Lemma add_response_G d anc s :
    JI (c_inters (b_cat s)) -> (forall i, http_id d anc = IdOk i -> okI i) ->
    add_response d anc (G s) = cmap G (add_response d anc s).
  Proof.
    intros HJI Hid. unfold add_response, kerr, get_http, upd_http, cbind. cbv zeta.
    destruct (http_id d anc) as [i|cls] eqn:Eid.
    - assert (Hi : okI i) by (apply Hid; reflexivity).
      repeat (gnorm; cbv beta iota zeta; gnorm;
              repeat rewrite <- (I3 _ _ _ Hi); repeat rewrite I1 by (first [ji HJI | exact Hi]);
              lazymatch goal with |- (match ?X with _ => _ end) = _ => head_disc X ltac:(fun Z => destruct Z eqn:?) end);
      gnorm; cbv beta iota zeta; gnorm; repeat rewrite <- (I3 _ _ _ Hi); reflexivity.
    - gwalk.
  Qed.

  (* the keys a step may use are all fine for the transformer *)
  Record gstep_ok (t : dtree) (anc : list dtree) : Prop := {
    go_http : forall i, http_id (tree_dir t) anc = IdOk i -> okI i;
    go_rpc : forall i, rpc_id (tree_dir t) anc = IdOk i -> okI i;
    go_made : forall i, In i (inter_delta t anc) -> okI i;
    go_tags : forall i, In i (inter_delta t anc) -> tag_names_ok t anc i;
    go_tagsdir : dk t = KTags -> Forall okT (d_unnamed (tree_dir t));
    go_desc : dk t = KDescription -> forall p, parent_dir anc = Some p -> d_kind p = KTAG -> okT (named p (bs "TagName"));
    go_url : dk t = KURL -> forall p, path_of (tree_dir t) anc = PathOk p -> okU p;
    go_prot : dk t = KProtocol -> forall p, parent_dir anc = Some p -> okP (d_kw p)
  }.

  Lemma add_directive_G t anc s :
    JI (c_inters (b_cat s)) -> JT (c_tags (b_cat s)) -> JU (b_urls s) -> JP (b_protocols s) -> gstep_ok t anc ->
    add_directive body_text banned t anc (G s) = cmap G (add_directive body_text banned t anc s).
  Proof.
    intros HJI HJT HJU HJP [Hh Hr Hm Htg Htd Hds Hu Hp].
    unfold add_directive. cbv zeta.
    destruct (kind_in (d_kind (tree_dir t)) banned); [reflexivity|].
    unfold inter_delta, dk in *.
    destruct (d_kind (tree_dir t)) eqn:Hk;
      repeat match goal with
             | |- context [kind_eqb ?a ?b] =>
               let v := eval vm_compute in (kind_eqb a b) in
               lazymatch v with true => idtac | false => idtac end; change (kind_eqb a b) with v
             | |- context [is_http_method ?a] =>
               let v := eval vm_compute in (is_http_method a) in
               lazymatch v with true => idtac | false => idtac end; change (is_http_method a) with v
             end; cbv beta iota delta [orb];
      rewrite ?(add_request_G _ _ _ HJI Hh), ?(add_response_G _ _ _ HJI Hh);
      unfold kerr, berr, get_http, get_rpc, upd_http, upd_rpc, cbind.
    all: try (solve [gwalk]).
    - (* Description *)
      destruct (parent_dir anc) as [par|] eqn:Epar; [|gwalk].
      specialize (Hds eq_refl par eq_refl).
      destruct (http_id (tree_dir t) anc) as [i1|c1] eqn:E1; destruct (rpc_id (tree_dir t) anc) as [i2|c2] eqn:E2;
        try (pose proof (Hh _ eq_refl) as Hi1); try (pose proof (Hr _ eq_refl) as Hi2);
        (destruct (kind_eqb (d_kind par) KTAG) eqn:Ekt;
         [ pose proof (Hds (proj1 (kind_eqb_eq _ _) Ekt)) as Hokt;
           rewrite (proj1 (kind_eqb_eq _ _) Ekt);
           repeat match goal with
                  | |- context [kind_eqb ?a ?b] =>
                    let v := eval vm_compute in (kind_eqb a b) in
                    lazymatch v with true => idtac | false => idtac end; change (kind_eqb a b) with v
                  | |- context [is_http_method ?a] =>
                    let v := eval vm_compute in (is_http_method a) in
                    lazymatch v with true => idtac | false => idtac end; change (is_http_method a) with v
                  end;
           repeat (gnorm; cbv beta iota zeta; gnorm;
                   repeat rewrite <- (T3 _ _ _ Hokt); repeat rewrite (T1 _ _ HJT Hokt);
                   lazymatch goal with |- (match ?X with _ => _ end) = _ => head_disc X ltac:(fun Z => destruct Z eqn:?) end);
           gnorm; cbv beta iota zeta; gnorm; repeat rewrite <- (T3 _ _ _ Hokt); reflexivity
         | repeat (gnorm; cbv beta iota zeta; gnorm;
                   try (repeat rewrite <- (I3 _ _ _ Hi1)); try (repeat rewrite <- (I3 _ _ _ Hi2));
                   try (repeat rewrite I1 by (first [ji HJI | exact Hi1 | exact Hi2]));
                   lazymatch goal with |- (match ?X with _ => _ end) = _ => head_disc X ltac:(fun Z => destruct Z eqn:?) end);
           gnorm; cbv beta iota zeta; gnorm;
           try (repeat rewrite <- (I3 _ _ _ Hi1)); try (repeat rewrite <- (I3 _ _ _ Hi2)); reflexivity ]).
    - (* URL *)
      destruct (path_of (tree_dir t) anc) as [p| |] eqn:Ep; try (solve [gwalk]).
      specialize (Hu eq_refl p eq_refl).
      destruct (negb (beq (d_annot (tree_dir t)) [])); [reflexivity|].
      rewrite check_path_G. destruct (check_path (tree_dir t) s p) as [a| | |] eqn:Eca; try reflexivity.
      assert (HJUa : JU (b_urls a)).
      { clear - Eca HJU. unfold check_path, kerr in Eca.
        destruct (path_parameters_checked p) as [[pp| |?]|?]; try discriminate Eca.
        destruct (check_similar_paths (b_similar s) pp); try discriminate Eca. inversion Eca; subst a. exact HJU. }
      gnorm. cbv beta iota zeta. gnorm. rewrite (U1 _ _ HJUa Hu).
      destruct (existsb (beq p) (b_urls a)); [reflexivity|].
      repeat (gnorm; cbv beta iota zeta; gnorm;
              lazymatch goal with |- (match ?X with _ => _ end) = _ => head_disc X ltac:(fun Z => destruct Z eqn:?) end);
      gnorm; rewrite <- ?(U2 _ _ HJUa); reflexivity.
    - (* GET/POST/.. *)
      destruct (path_of (tree_dir t) anc) as [p| |] eqn:Ep; [|reflexivity|reflexivity].
      rewrite check_path_G. destruct (check_path (tree_dir t) s p) as [a| | |] eqn:Ec; try reflexivity.
      pose proof (check_path_cat _ _ _ _ Ec) as Hcat.
      gnorm. cbv beta iota zeta. gnorm. rewrite Hcat.
      match goal with |- context [om_has iid_eqb (gI _) ?i] =>
        assert (Hi : okI i) by (apply Hm; vm_compute; left; reflexivity);
        assert (Htn : tag_names_ok t anc i) by (apply Htg; vm_compute; left; reflexivity);
        rewrite (I2 _ i HJI Hi); destruct (om_has iid_eqb (c_inters (b_cat s)) i); [reflexivity|];
        rewrite (tags_for_G _ _ _ _ Htn HJT); destruct (tags_for t anc i (c_tags (b_cat s))) as [[ns tg]| | |]; try reflexivity
      end.
      gnorm. rewrite ?Hcat, <- (I4 _ _ HJI). reflexivity.
    - (* GET/POST/.. *)
      destruct (path_of (tree_dir t) anc) as [p| |] eqn:Ep; [|reflexivity|reflexivity].
      rewrite check_path_G. destruct (check_path (tree_dir t) s p) as [a| | |] eqn:Ec; try reflexivity.
      pose proof (check_path_cat _ _ _ _ Ec) as Hcat.
      gnorm. cbv beta iota zeta. gnorm. rewrite Hcat.
      match goal with |- context [om_has iid_eqb (gI _) ?i] =>
        assert (Hi : okI i) by (apply Hm; vm_compute; left; reflexivity);
        assert (Htn : tag_names_ok t anc i) by (apply Htg; vm_compute; left; reflexivity);
        rewrite (I2 _ i HJI Hi); destruct (om_has iid_eqb (c_inters (b_cat s)) i); [reflexivity|];
        rewrite (tags_for_G _ _ _ _ Htn HJT); destruct (tags_for t anc i (c_tags (b_cat s))) as [[ns tg]| | |]; try reflexivity
      end.
      gnorm. rewrite ?Hcat, <- (I4 _ _ HJI). reflexivity.
    - (* GET/POST/.. *)
      destruct (path_of (tree_dir t) anc) as [p| |] eqn:Ep; [|reflexivity|reflexivity].
      rewrite check_path_G. destruct (check_path (tree_dir t) s p) as [a| | |] eqn:Ec; try reflexivity.
      pose proof (check_path_cat _ _ _ _ Ec) as Hcat.
      gnorm. cbv beta iota zeta. gnorm. rewrite Hcat.
      match goal with |- context [om_has iid_eqb (gI _) ?i] =>
        assert (Hi : okI i) by (apply Hm; vm_compute; left; reflexivity);
        assert (Htn : tag_names_ok t anc i) by (apply Htg; vm_compute; left; reflexivity);
        rewrite (I2 _ i HJI Hi); destruct (om_has iid_eqb (c_inters (b_cat s)) i); [reflexivity|];
        rewrite (tags_for_G _ _ _ _ Htn HJT); destruct (tags_for t anc i (c_tags (b_cat s))) as [[ns tg]| | |]; try reflexivity
      end.
      gnorm. rewrite ?Hcat, <- (I4 _ _ HJI). reflexivity.
    - (* GET/POST/.. *)
      destruct (path_of (tree_dir t) anc) as [p| |] eqn:Ep; [|reflexivity|reflexivity].
      rewrite check_path_G. destruct (check_path (tree_dir t) s p) as [a| | |] eqn:Ec; try reflexivity.
      pose proof (check_path_cat _ _ _ _ Ec) as Hcat.
      gnorm. cbv beta iota zeta. gnorm. rewrite Hcat.
      match goal with |- context [om_has iid_eqb (gI _) ?i] =>
        assert (Hi : okI i) by (apply Hm; vm_compute; left; reflexivity);
        assert (Htn : tag_names_ok t anc i) by (apply Htg; vm_compute; left; reflexivity);
        rewrite (I2 _ i HJI Hi); destruct (om_has iid_eqb (c_inters (b_cat s)) i); [reflexivity|];
        rewrite (tags_for_G _ _ _ _ Htn HJT); destruct (tags_for t anc i (c_tags (b_cat s))) as [[ns tg]| | |]; try reflexivity
      end.
      gnorm. rewrite ?Hcat, <- (I4 _ _ HJI). reflexivity.
    - (* GET/POST/.. *)
      destruct (path_of (tree_dir t) anc) as [p| |] eqn:Ep; [|reflexivity|reflexivity].
      rewrite check_path_G. destruct (check_path (tree_dir t) s p) as [a| | |] eqn:Ec; try reflexivity.
      pose proof (check_path_cat _ _ _ _ Ec) as Hcat.
      gnorm. cbv beta iota zeta. gnorm. rewrite Hcat.
      match goal with |- context [om_has iid_eqb (gI _) ?i] =>
        assert (Hi : okI i) by (apply Hm; vm_compute; left; reflexivity);
        assert (Htn : tag_names_ok t anc i) by (apply Htg; vm_compute; left; reflexivity);
        rewrite (I2 _ i HJI Hi); destruct (om_has iid_eqb (c_inters (b_cat s)) i); [reflexivity|];
        rewrite (tags_for_G _ _ _ _ Htn HJT); destruct (tags_for t anc i (c_tags (b_cat s))) as [[ns tg]| | |]; try reflexivity
      end.
      gnorm. rewrite ?Hcat, <- (I4 _ _ HJI). reflexivity.
    - (* Headers *)
      destruct (http_id (tree_dir t) anc) as [i1|c1] eqn:E1; [|gwalk].
      pose proof (Hh _ eq_refl) as Hi1.
      repeat (gnorm; cbv beta iota zeta; gnorm;
              repeat rewrite <- (I3 _ _ _ Hi1); repeat rewrite I1 by (first [ji HJI | exact Hi1]);
              lazymatch goal with |- (match ?X with _ => _ end) = _ => head_disc X ltac:(fun Z => destruct Z eqn:?) end);
      gnorm; cbv beta iota zeta; gnorm; repeat rewrite <- (I3 _ _ _ Hi1); reflexivity.
    - (* Query *)
      destruct (http_id (tree_dir t) anc) as [i1|c1] eqn:E1; [|gwalk].
      pose proof (Hh _ eq_refl) as Hi1.
      repeat (gnorm; cbv beta iota zeta; gnorm;
              repeat rewrite <- (I3 _ _ _ Hi1); repeat rewrite I1 by (first [ji HJI | exact Hi1]);
              lazymatch goal with |- (match ?X with _ => _ end) = _ => head_disc X ltac:(fun Z => destruct Z eqn:?) end);
      gnorm; cbv beta iota zeta; gnorm; repeat rewrite <- (I3 _ _ _ Hi1); reflexivity.
    - (* Protocol *)
      destruct (parent_dir anc) as [par|] eqn:Epar; [|gwalk]. specialize (Hp eq_refl par eq_refl).
      repeat (gnorm; cbv beta iota zeta; gnorm; repeat rewrite (P1 _ _ HJP Hp);
              lazymatch goal with |- (match ?X with _ => _ end) = _ => head_disc X ltac:(fun Z => destruct Z eqn:?) end);
      gnorm; rewrite <- ?(P2 _ _ HJP); reflexivity.
    - (* Method *)
      destruct (rpc_id (tree_dir t) anc) as [i|cls] eqn:Er; [|gwalk].
      pose proof (Hr _ eq_refl) as Hi.
      assert (Htn : tag_names_ok t anc i) by (apply Htg; vm_compute; left; reflexivity).
      destruct (beq (named (tree_dir t) (bs "MethodName")) []); [reflexivity|].
      destruct anc as [|a rest]; [reflexivity|].
      destruct (negb (existsb (fun x => kind_eqb (d_kind (tree_dir x)) KProtocol) (tree_kids a))); [reflexivity|].
      gnorm. cbv beta iota zeta. gnorm. rewrite (I2 _ _ HJI Hi).
      destruct (om_has iid_eqb (c_inters (b_cat s)) i); [reflexivity|].
      rewrite (tags_for_G _ _ _ _ Htn HJT). destruct (tags_for t (a :: rest) i (c_tags (b_cat s))) as [[ns tg]| | |]; try reflexivity.
      gnorm. rewrite <- (I4 _ _ HJI). reflexivity.
    - (* Params *)
      destruct (rpc_id (tree_dir t) anc) as [i1|c1] eqn:E1; [|gwalk].
      pose proof (Hr _ eq_refl) as Hi1.
      repeat (gnorm; cbv beta iota zeta; gnorm;
              repeat rewrite <- (I3 _ _ _ Hi1); repeat rewrite I1 by (first [ji HJI | exact Hi1]);
              lazymatch goal with |- (match ?X with _ => _ end) = _ => head_disc X ltac:(fun Z => destruct Z eqn:?) end);
      gnorm; cbv beta iota zeta; gnorm; repeat rewrite <- (I3 _ _ _ Hi1); reflexivity.
    - (* Result *)
      destruct (rpc_id (tree_dir t) anc) as [i1|c1] eqn:E1; [|gwalk].
      pose proof (Hr _ eq_refl) as Hi1.
      repeat (gnorm; cbv beta iota zeta; gnorm;
              repeat rewrite <- (I3 _ _ _ Hi1); repeat rewrite I1 by (first [ji HJI | exact Hi1]);
              lazymatch goal with |- (match ?X with _ => _ end) = _ => head_disc X ltac:(fun Z => destruct Z eqn:?) end);
      gnorm; cbv beta iota zeta; gnorm; repeat rewrite <- (I3 _ _ _ Hi1); reflexivity.
    - (* Tags *)
      specialize (Htd eq_refl). rewrite (tags_from_directive_G _ _ _ Htd HJT).
      destruct (tags_from_directive (tree_dir t) None (c_tags (b_cat s))) as [[ns tg]| | |]; reflexivity.
  Qed.

  (* the run: [Jst] is an invariant of the states of the untransformed run that gives JI / JT *)
  Variable Jst : bstate -> Prop.
  Hypothesis Jst_J : forall s, Jst s -> JI (c_inters (b_cat s)) /\ JT (c_tags (b_cat s)) /\ JU (b_urls s) /\ JP (b_protocols s).

  Lemma run_G l :
    (forall p, In p l -> gstep_ok (fst p) (snd p)) ->
    (forall p s s', In p l -> Jst s -> add_directive body_text banned (fst p) (snd p) s = COk s' -> Jst s') ->
    forall s, Jst s -> run body_text banned l (G s) = cmap G (run body_text banned l s).
  Proof.
    induction l as [|p r IH]; intros Hok Hpres s HJ; [reflexivity|]. simpl.
    destruct (Jst_J s HJ) as [A [B [C D]]].
    rewrite (add_directive_G _ _ _ A B C D (Hok p (or_introl eq_refl))).
    destruct (add_directive body_text banned (fst p) (snd p) s) as [s1| | |] eqn:E; simpl; try reflexivity.
    apply IH.
    - intros q Hq. apply Hok. right; exact Hq.
    - intros q x y Hq. apply Hpres. right; exact Hq.
    - exact (Hpres p s s1 (or_introl eq_refl) HJ E).
  Qed.
End Gen.
