(* List lemmas for the exchange of two adjacent blocks of an ordered map (used by SwapProofs.v). *)
From Coq Require Import List Permutation Arith Lia Bool NArith.
From JV.lib Require Import Bytes.
From JV.model Require Import Catalog.
From JV.proofs Require Import CatalogProofs.
Import ListNotations.
Local Open Scope nat_scope.

Definition swapmid {A} (n1 m1 m2 : nat) (l : list A) : list A :=
  firstn n1 l ++ firstn m2 (skipn (n1 + m1) l) ++ firstn m1 (skipn n1 l) ++ skipn (n1 + m1 + m2) l.

Lemma firstn_len_app {A} (a x : list A) : firstn (length a) (a ++ x) = a.
Proof. induction a; simpl; [destruct x; reflexivity | f_equal; assumption]. Qed.
Lemma skipn_len_app {A} (a x : list A) : skipn (length a) (a ++ x) = x.
Proof. induction a; simpl; [reflexivity | assumption]. Qed.

Lemma skipn_skipn' {A} x y (l : list A) : skipn x (skipn y l) = skipn (y + x) l.
Proof.
  revert l. induction y as [|y IH]; intro l; [reflexivity|]. destruct l as [|a l]; simpl; [destruct x; reflexivity|apply IH].
Qed.

Lemma swapmid_split {A} n1 m1 m2 (l : list A) :
  l = firstn n1 l ++ firstn m1 (skipn n1 l) ++ firstn m2 (skipn (n1 + m1) l) ++ skipn (n1 + m1 + m2) l.
Proof.
  rewrite <- (firstn_skipn n1 l) at 1. f_equal.
  rewrite <- (firstn_skipn m1 (skipn n1 l)) at 1. f_equal.
  rewrite skipn_skipn'.
  rewrite <- (firstn_skipn m2 (skipn (n1 + m1) l)) at 1. f_equal.
  rewrite skipn_skipn'. reflexivity.
Qed.

Lemma swapmid_perm {A} n1 m1 m2 (l : list A) : Permutation (swapmid n1 m1 m2 l) l.
Proof.
  rewrite (swapmid_split n1 m1 m2 l) at 2. unfold swapmid. apply Permutation_app_head.
  rewrite !app_assoc. apply Permutation_app_tail. apply Permutation_app_comm.
Qed.

Lemma swapmid_blocks {A} (a b c d : list A) :
  swapmid (length a) (length b) (length c) (a ++ b ++ c ++ d) = a ++ c ++ b ++ d.
Proof.
  unfold swapmid. rewrite firstn_len_app, skipn_len_app, firstn_len_app. f_equal.
  replace (skipn (length a + length b) (a ++ b ++ c ++ d)) with (c ++ d)
    by (rewrite <- app_length, app_assoc, skipn_len_app; reflexivity).
  rewrite firstn_len_app. f_equal. f_equal.
  rewrite <- !app_length. rewrite !app_assoc. rewrite <- (app_assoc a b c). rewrite skipn_len_app. reflexivity.
Qed.

Lemma swapmid_exact {A} n1 m1 m2 (l : list A) : n1 + m1 + m2 <= length l ->
  exists a b c d, l = a ++ b ++ c ++ d /\ length a = n1 /\ length b = m1 /\ length c = m2.
Proof.
  intro H. exists (firstn n1 l), (firstn m1 (skipn n1 l)), (firstn m2 (skipn (n1 + m1) l)), (skipn (n1 + m1 + m2) l).
  split; [apply swapmid_split|]. rewrite !firstn_length, !skipn_length. lia.
Qed.

Lemma swapmid_snoc {A} n1 m1 m2 (l : list A) x : n1 + m1 + m2 <= length l ->
  swapmid n1 m1 m2 (l ++ [x]) = swapmid n1 m1 m2 l ++ [x].
Proof.
  intro H. destruct (swapmid_exact _ _ _ _ H) as [a [b [c [d [-> [<- [<- <-]]]]]]].
  replace ((a ++ b ++ c ++ d) ++ [x]) with (a ++ b ++ c ++ (d ++ [x])) by (rewrite !app_assoc; reflexivity).
  rewrite !swapmid_blocks. rewrite !app_assoc. reflexivity.
Qed.

Lemma swapmid_map {A B} (f : A -> B) n1 m1 m2 (l : list A) : map f (swapmid n1 m1 m2 l) = swapmid n1 m1 m2 (map f l).
Proof. unfold swapmid. rewrite !map_app, !firstn_map, !skipn_map, !firstn_map. reflexivity. Qed.

Lemma swapmid_length {A} n1 m1 m2 (l : list A) : length (swapmid n1 m1 m2 l) = length l.
Proof. apply Permutation_length, swapmid_perm. Qed.

(* lookups in an ordered map with distinct keys do not depend on the order *)
Section OmPerm.
  Context {K V : Type} (keq : K -> K -> bool).
  Hypothesis keq_eq : forall a b, keq a b = true <-> a = b.

  Lemma om_get_in_nodup (l : list (K * V)) k v : NoDup (map fst l) -> In (k, v) l -> om_get keq l k = Some v.
  Proof.
    unfold om_get. induction l as [|[a w] l IH]; intros Hnd Hin; [destruct Hin|].
    simpl in *. inversion Hnd as [|? ? Hna Hnd']; subst.
    destruct Hin as [Hin|Hin].
    - inversion Hin; subst. rewrite (proj2 (keq_eq k k) eq_refl). reflexivity.
    - destruct (keq a k) eqn:E.
      + apply keq_eq in E. subst a. exfalso. apply Hna. apply (in_map fst) in Hin. exact Hin.
      + apply IH; assumption.
  Qed.

  Lemma om_get_notin (l : list (K * V)) k : ~ In k (map fst l) -> om_get keq l k = None.
  Proof.
    intro H. destruct (om_get keq l k) as [v|] eqn:E; [|reflexivity].
    apply (om_get_some keq keq_eq) in E. exfalso. apply H. apply (in_map fst) in E. exact E.
  Qed.

  Lemma om_get_perm (l l' : list (K * V)) k : NoDup (map fst l) -> Permutation l l' -> om_get keq l' k = om_get keq l k.
  Proof.
    intros Hnd Hp.
    assert (Hnd' : NoDup (map fst l')) by (eapply Permutation_NoDup; [apply Permutation_map; exact Hp|exact Hnd]).
    destruct (om_get keq l k) as [v|] eqn:E.
    - apply (om_get_some keq keq_eq) in E. apply om_get_in_nodup; [exact Hnd'|]. eapply Permutation_in; eassumption.
    - apply (om_get_none keq keq_eq) in E. apply om_get_notin. intro Hin. apply E.
      eapply Permutation_in; [apply Permutation_map; apply Permutation_sym; exact Hp|exact Hin].
  Qed.

  Lemma om_has_perm_gen (l l' : list (K * V)) k : Permutation l l' -> om_has keq l' k = om_has keq l k.
  Proof.
    intro Hp. unfold om_has. induction Hp; simpl; try congruence.
    destruct (keq (fst x) k), (keq (fst y) k); reflexivity.
  Qed.

  Lemma om_update_swapmid n1 m1 m2 (l : list (K * V)) k h :
    swapmid n1 m1 m2 (om_update keq l k h) = om_update keq (swapmid n1 m1 m2 l) k h.
  Proof. unfold om_update. symmetry. apply swapmid_map. Qed.
End OmPerm.

Lemma existsb_perm {A} (f : A -> bool) l l' : Permutation l l' -> existsb f l = existsb f l'.
Proof.
  intro Hp. induction Hp; simpl; try congruence. destruct (f x), (f y); reflexivity.
Qed.
