(* Table metatheory, part 5: the Next() driver, draining of events, the whole scan. *)
From Coq Require Import List NArith ZArith Bool String Lia.
From JV.lib Require Import Bytes.
From JV.gen Require Import ScannerTable.
From JV.model Require Import ScannerSem TableCheck.
From JV.proofs Require Import TM_Basics TM_Stack TM_Events TM_Dispatch.
Import ListNotations.
Open Scope N_scope.

Arguments evt_in : simpl never.
Arguments pair_ok : simpl never.

Definition isb (c : N) : Prop := c < 256.
Definition AllB (g : cfg) : Prop := Forall isb (pre g) /\ Forall isb (rest g).

Lemma fwd_allb n : forall a b, Forall isb a -> Forall isb b ->
  Forall isb (fst (fwd n a b)) /\ Forall isb (snd (fwd n a b)).
Proof.
  induction n as [|n IH]; intros a b Ha Hb; simpl.
  - destruct b; split; assumption.
  - destruct b as [|c b]; [split; assumption|].
    inversion Hb; subst. apply IH; [constructor; assumption | assumption].
Qed.

Lemma advance_allb g n : AllB g -> AllB (advance g n).
Proof. intros [A B]. unfold advance, AllB. cbn [pre rest set_zip]. apply fwd_allb; assumption. Qed.

Section Loop.
  Variable ty : typing.
  Hypothesis Hok : table_ok ty = true.
  Variable jsc_len enum_len : bytes -> len_result.
  Hypothesis jsc_sane : len_sane jsc_len.
  Hypothesis enum_sane : len_sane enum_len.
  Variable data : bytes.
  Variable size : N.

  Notation InvTy := (InvTy ty size).
  Notation InvEv := (InvEv size).
  Notation MM := (MM ty size).
  Notation lex_inb := (lex_inb size).

  (* ---- AllB is preserved by the machine ---- *)
  Lemma exec_act_allb x g g' : exec_act jsc_len enum_len x g = Ok g' -> AllB g -> AllB g'.
  Proof.
    intros He [Ha Hb]. destruct x; simpl in He.
    - destruct (pos g <? back); [discriminate|]. injection He as <-. split; assumption.
    - injection He as <-. split; assumption.
    - injection He as <-. split; assumption.
    - injection He as <-. split; assumption.
    - destruct (sstk g); [discriminate|]. injection He as <-. split; assumption.
    - destruct (pos g <? n); [discriminate|]. injection He as <-.
      unfold retreat, AllB. simpl. destruct (fwd_allb (N.to_nat n) (rest g) (pre g) Hb Ha). split; assumption.
    - unfold read_body in He. destruct (jsc_len (rest g)); [|discriminate]. injection He as <-.
      destruct (0 <? n); [|split; assumption].
      unfold advance, AllB. simpl. apply fwd_allb; assumption.
    - unfold read_body in He. destruct (enum_len (rest g)); [|discriminate]. injection He as <-.
      destruct (0 <? n); [|split; assumption].
      unfold advance, AllB. simpl. apply fwd_allb; assumption.
  Qed.

  Lemma exec_acts_allb l : forall g g', exec_acts jsc_len enum_len l g = Ok g' -> AllB g -> AllB g'.
  Proof.
    induction l as [|x l IH]; intros g g' He Ha; simpl in He.
    - injection He as <-. exact Ha.
    - destruct (exec_act jsc_len enum_len x g) as [g1| | |] eqn:E; simpl in He; try discriminate.
      eapply IH; [exact He|]. eapply exec_act_allb; eassumption.
  Qed.

  Lemma dispatch_allb fuel c : forall g g',
    dispatch jsc_len enum_len data size fuel c g = Ok g' -> AllB g -> AllB g'.
  Proof.
    induction fuel as [|fuel IH]; intros g g' Hd Ha; cbn [dispatch] in Hd; [discriminate|].
    destruct (eval_tree data size (step_tree (reg g)) c g) as [ax| | |]; cbn [obind] in Hd; try discriminate.
    destruct (exec_acts jsc_len enum_len (fst ax) g) as [g1| | |] eqn:E; cbn [obind] in Hd; try discriminate.
    pose proof (exec_acts_allb _ _ _ E Ha) as Ha1.
    destruct (snd ax).
    - injection Hd as <-. exact Ha1.
    - eapply IH; eassumption.
    - discriminate.
  Qed.

  (* ---- processing one event ---- *)
  Definition estk_rel (s : ostate * N) (g : cfg) : Prop :=
    match fst s with None => estk g = [] | Some bq => estk g = [bq] end.
  Definition ost_ok (s : ostate * N) : Prop :=
    match fst s with Some (_, qb) => snd s = qb | None => True end.

  Lemma ev_step_props s ev s1 :
    ev_step size s ev = Some s1 -> ost_ok s1 /\ snd s <= snd s1 /\ snd s1 <= size.
  Proof.
    destruct s as [o F], ev as [e q]. unfold ev_step, ost_ok.
    destruct (evt_in e evt_beginning).
    { destruct o; [discriminate|].
      destruct ((F <=? q) && (q <=? size)) eqn:E; [|discriminate]. intros H; injection H as <-. simpl.
      apply andb_true_iff in E as [E1 E2]. apply N.leb_le in E1, E2. repeat split; lia. }
    destruct (evt_in e evt_ending).
    { destruct o as [[b qb]|]; [|discriminate].
      destruct (pair_ok b e && (F <=? q + 1) && (q + 1 <=? size)) eqn:E; [|discriminate].
      intros H; injection H as <-. simpl.
      apply andb_true_iff in E as [E E3]. apply andb_true_iff in E as [_ E2]. apply N.leb_le in E2, E3.
      repeat split; lia. }
    destruct (evt_in e evt_single); [|discriminate].
    destruct o; [discriminate|].
    destruct ((F <=? q) && (q + 1 <=? size)) eqn:E; [|discriminate]. intros H; injection H as <-. simpl.
    apply andb_true_iff in E as [E1 E2]. apply N.leb_le in E1, E2. repeat split; lia.
  Qed.

  Lemma process_event_sound s ev s1 g :
    estk_rel s g -> ost_ok s -> ev_step size s ev = Some s1 ->
    exists g' ol, process_event ev g = Ok (g', ol) /\
      (g' = g \/ exists e', g' = set_estk g e') /\
      estk_rel s1 g' /\
      match ol with
      | Some l => lex_inb l /\ snd s <= lb l /\ le l + 1 = snd s1
      | None => True
      end.
  Proof.
    destruct s as [o F], ev as [e q]. unfold estk_rel, ost_ok, ev_step, process_event. simpl fst. simpl snd.
    intros Hrel Hok1 Hst.
    destruct (evt_in e evt_beginning) eqn:K1.
    { destruct o; [discriminate|].
      destruct ((F <=? q) && (q <=? size)); [|discriminate]. injection Hst as <-.
      eexists _, None. split; [reflexivity|]. split; [right; eexists; reflexivity|].
      simpl. rewrite Hrel. split; [reflexivity | exact I]. }
    destruct (evt_in e evt_ending) eqn:K2.
    { destruct o as [[b qb]|]; [|discriminate].
      destruct (pair_ok b e && (F <=? q + 1) && (q + 1 <=? size)) eqn:E; [|discriminate].
      injection Hst as <-.
      apply andb_true_iff in E as [E E3]. apply andb_true_iff in E as [E1 E2]. apply N.leb_le in E2, E3.
      rewrite Hrel. rewrite E1.
      destruct (ok_events ty Hok e (or_introl K2)) as [k Hk]. rewrite Hk.
      eexists _, (Some _). split; [reflexivity|]. split; [right; eexists; reflexivity|].
      simpl. split; [reflexivity|]. subst F. unfold TM_Dispatch.lex_inb. simpl. repeat split; lia. }
    destruct (evt_in e evt_single) eqn:K3; [|discriminate].
    destruct o; [discriminate|].
    destruct ((F <=? q) && (q + 1 <=? size)) eqn:E; [|discriminate]. injection Hst as <-.
    apply andb_true_iff in E as [E1 E2]. apply N.leb_le in E1, E2.
    destruct (ok_events ty Hok e (or_intror K3)) as [k Hk]. rewrite Hk.
    eexists _, (Some _). split; [reflexivity|]. split; [left; reflexivity|].
    simpl. split; [exact Hrel|]. unfold TM_Dispatch.lex_inb. simpl. repeat split; lia.
  Qed.

  (* ---- the global invariant between calls of Next() ---- *)
  Definition GI (s : ostate * N) (g : cfg) : Prop :=
    estk_rel s g /\ ost_ok s /\ snd s <= size /\ InvEv s g /\ Forall lex_inb (lastp g) /\
    (pos g <= size -> InvTy s g).

  Lemma invty_shift s s1 g ev fs :
    finds g = ev :: fs -> ev_step size s ev = Some s1 -> InvTy s g -> InvTy s1 (set_finds g fs).
  Proof.
    intros Hf Hst (Hv & (o1 & F1 & Hrun & Hrest) & HZ & HL).
    split; [exact Hv|]. split; [|split; [exact HZ | exact HL]].
    exists o1, F1. split; [|exact Hrest].
    rewrite Hf in Hrun. simpl in Hrun. rewrite Hst in Hrun. exact Hrun.
  Qed.

  (* InvTy / MM do not look at the event stack *)
  Lemma invty_estk s g e : InvTy s g -> InvTy s (set_estk g e).
  Proof. intros H. exact H. Qed.

  Lemma drain_sound n : forall s g,
    GI s g -> AllB g -> (n <= List.length (finds g))%nat ->
    match drain n g with
    | Ok (g', ol) =>
      exists s', GI s' g' /\ AllB g' /\ snd s <= snd s' /\ pos g' = pos g /\ reg g' = reg g /\
        match ol with
        | Some l => lex_inb l /\ snd s <= lb l /\ le l + 1 <= snd s' /\ (MM g' + 1 <= MM g)%Z
        | None => (MM g' <= MM g)%Z
        end
    | Err p _ => p <= size
    | _ => False
    end.
  Proof.
    induction n as [|n IH]; intros s g HG HA Hn; cbn [drain].
    - exists s. split; [exact HG|]. split; [exact HA|]. split; [lia|]. split; [reflexivity|]. split; [reflexivity|]. lia.
    - destruct (finds g) as [|ev fs] eqn:Ef; [simpl in Hn; lia|].
      destruct HG as (Hrel & Hos & Hsz & [sEnd Hrun] & HL & HT).
      rewrite Ef in Hrun. simpl in Hrun.
      destruct (ev_step size s ev) as [s1|] eqn:Est; [|discriminate].
      destruct (ev_step_props _ _ _ Est) as (Hos1 & Hm1 & Hsz1).
      assert (Hrel' : estk_rel s (set_finds g fs)) by exact Hrel.
      destruct (process_event_sound s ev s1 (set_finds g fs) Hrel' Hos Est) as (g1 & ol & Hpe & Hshape & Hrel1 & Hol).
      rewrite Hpe. cbn [obind fst snd].
      assert (HG1 : GI s1 g1 /\ AllB g1 /\ pos g1 = pos g /\ reg g1 = reg g /\ finds g1 = fs /\ lastp g1 = lastp g).
      { assert (HT1 : pos g <= size -> InvTy s1 (set_finds g fs)).
        { intros H. eapply invty_shift; [exact Ef | exact Est | exact (HT H)]. }
        destruct Hshape as [->|[e' ->]].
        - split; [|repeat split; try reflexivity; apply HA].
          split; [exact Hrel1|]. split; [exact Hos1|]. split; [exact Hsz1|].
          split; [eexists; exact Hrun|]. split; [exact HL|]. exact HT1.
        - split; [|repeat split; try reflexivity; apply HA].
          split; [exact Hrel1|]. split; [exact Hos1|]. split; [exact Hsz1|].
          split; [eexists; exact Hrun|]. split; [exact HL|]. exact HT1. }
      destruct HG1 as (HG1 & HA1 & Hp1 & Hr1 & Hf1 & Hl1).
      assert (HMM1 : (MM g1 + 1 <= MM g)%Z).
      { unfold TM_Dispatch.MM, TM_Dispatch.PhiR', TM_Dispatch.PhiR. rewrite Hp1, Hr1, Hf1, Ef. simpl List.length. lia. }
      destruct ol as [l|].
      + destruct Hol as (Hl_inb & Hl_lb & Hl_le).
        exists s1.
        assert (HGn : GI s1 (note_lexeme l g1)).
        { destruct HG1 as (A & B & C & D & E & F).
          unfold note_lexeme.
          destruct (lexkind_eqb (lk l) LParameter).
          - split; [exact A|]. split; [exact B|]. split; [exact C|]. split; [exact D|].
            split; [simpl; apply Forall_app; split; [exact E | constructor; [exact Hl_inb | constructor]]|].
            intros H. destruct (F H) as (F1 & F2 & F3 & F4).
            split; [exact F1|]. split; [exact F2|]. split; [exact F3|].
            simpl. apply Forall_app. split; [exact E | constructor; [exact Hl_inb | constructor]].
          - destruct (lexkind_eqb (lk l) LKeyword).
            + split; [exact A|]. split; [exact B|]. split; [exact C|]. split; [exact D|].
              split; [simpl; constructor|].
              intros H. destruct (F H) as (F1 & F2 & F3 & F4).
              split; [exact F1|]. split; [exact F2|]. split; [exact F3|]. simpl. constructor.
            + split; [exact A|]. split; [exact B|]. split; [exact C|]. split; [exact D|]. split; [exact E | exact F]. }
        assert (Hsame : AllB (note_lexeme l g1) /\ pos (note_lexeme l g1) = pos g1 /\ reg (note_lexeme l g1) = reg g1 /\
                        MM (note_lexeme l g1) = MM g1).
        { unfold note_lexeme. destruct (lexkind_eqb (lk l) LParameter); [repeat split; apply HA1|].
          destruct (lexkind_eqb (lk l) LKeyword); repeat split; apply HA1. }
        destruct Hsame as (S1 & S2 & S3 & S4).
        split; [exact HGn|]. split; [exact S1|]. split; [exact Hm1|]. split; [lia|]. split; [congruence|].
        split; [exact Hl_inb|]. split; [exact Hl_lb|]. split; [lia|]. rewrite S4. exact HMM1.
      + assert (Hn1 : (n <= List.length (finds g1))%nat) by (rewrite Hf1; simpl in Hn; lia).
        specialize (IH s1 g1 HG1 HA1 Hn1).
        destruct (drain n g1) as [[g' ol']|p e| |]; try exact IH.
        destruct IH as (s' & A & B & C & D & E & F).
        exists s'. split; [exact A|]. split; [exact B|]. split; [lia|]. split; [lia|]. split; [congruence|].
        destruct ol' as [l'|].
        * destruct F as (F1 & F2 & F3 & F4). split; [exact F1|]. split; [lia|]. split; [exact F3|]. lia.
        * lia.
  Qed.

  (* ---- the byte loop of Next() ---- *)
  Lemma main_loop_sound fuel : forall s g,
    GI s g -> AllB g -> (MM g < Z.of_nat fuel)%Z ->
    match main_loop jsc_len enum_len data size fuel g with
    | Ok (g', ol) =>
      exists s', GI s' g' /\ AllB g' /\ snd s <= snd s' /\
        match ol with
        | Some l => lex_inb l /\ snd s <= lb l /\ le l + 1 <= snd s' /\ (MM g' + 1 <= MM g)%Z
        | None => size < pos g' /\ (MM g' <= MM g)%Z
        end
    | Err p _ => p <= size
    | _ => False
    end.
  Proof.
    induction fuel as [|fuel IH]; intros s g HG HA Hfuel.
    - pose proof (PhiR'_nonneg ty Hok size g). unfold TM_Dispatch.MM in Hfuel. change (Z.of_nat 0) with 0%Z in Hfuel. lia.
    - cbn [main_loop].
      destruct (pos g <=? size) eqn:Epos.
      2:{ apply N.leb_gt in Epos. exists s. split; [exact HG|]. split; [exact HA|]. split; [lia|]. split; [exact Epos | lia]. }
      apply N.leb_le in Epos.
      destruct HG as (Hrel & Hos & Hsz & HEv & HL & HT).
      pose proof (HT Epos) as HI.
      assert (HZ : Zip size g) by (destruct HI as (_ & _ & HZ & _); exact HZ).
      (* the current byte *)
      assert (Hbyte : exists c, (if pos g =? size then Some 0 else hd_error (rest g)) = Some c /\ c < 256 /\
                                (pos g = size -> c = 0) /\ (pos g < size -> hd_error (rest g) = Some c)).
      { destruct (pos g =? size) eqn:E.
        - exists 0. apply N.eqb_eq in E. repeat split; try reflexivity; try lia.
        - apply N.eqb_neq in E. destruct HZ as [_ Z2].
          destruct (rest g) as [|c r] eqn:Er; [simpl in Z2; lia|].
          exists c. destruct HA as [_ HAr]. rewrite Er in HAr. inversion HAr; subst.
          repeat split; try reflexivity; try assumption. intros; lia. }
      destruct Hbyte as (c & Hc & Hc256 & Hcz & Hcn).
      rewrite Hc.
      destruct ((c =? 0) && negb (pos g =? size)) eqn:Enul; [exact Epos|].
      assert (Hc0 : c = 0 -> pos g = size).
      { intros ->. simpl in Enul. destruct (pos g =? size) eqn:E; [apply N.eqb_eq; exact E | discriminate]. }
      assert (Hc1 : c <> 0 -> pos g < size).
      { intros Hne. destruct (N.eq_dec (pos g) size) as [E|E]; [specialize (Hcz E); contradiction | lia]. }
      assert (Hrf : (rho ty (reg g) < Z.of_nat redo_fuel)%Z).
      { destruct (ok_sane ty Hok (reg g)) as (_ & H & _). unfold RHO_MAX in H. unfold redo_fuel. lia. }
      pose proof (dispatch_sound ty Hok jsc_len enum_len jsc_sane enum_sane data size c s Hc256 redo_fuel g Hc0 Hc1 HI Hrf) as Hd.
      destruct (dispatch jsc_len enum_len data size redo_fuel c g) as [g1|p e| |] eqn:Ed; cbn [obind]; try exact Hd.
      destruct Hd as (HZ1 & HEv1 & Hsz1 & HLp1 & HI2 & HMM2).
      pose proof (dispatch_allb _ _ _ _ Ed HA) as HA1.
      set (g2 := advance g1 1).
      assert (HA2 : AllB g2) by (apply advance_allb; exact HA1).
      assert (Hrel2 : estk_rel s g2).
      { unfold g2, advance, estk_rel. cbn [estk set_zip].
        (* the event stack is not touched by dispatch *)
        assert (He : estk g1 = estk g).
        { clear - Ed. revert g g1 Ed. generalize redo_fuel as f. induction f as [|f IHf]; intros g g1 Ed; cbn [dispatch] in Ed; [discriminate|].
          destruct (eval_tree data size (step_tree (reg g)) c g) as [ax| | |]; cbn [obind] in Ed; try discriminate.
          destruct (exec_acts jsc_len enum_len (fst ax) g) as [gx| | |] eqn:Ex; cbn [obind] in Ed; try discriminate.
          assert (Hx : estk gx = estk g).
          { clear - Ex. revert g gx Ex. induction (fst ax) as [|a l IHl]; intros g gx Ex; simpl in Ex.
            - injection Ex as <-. reflexivity.
            - destruct (exec_act jsc_len enum_len a g) as [gy| | |] eqn:Ea; simpl in Ex; try discriminate.
              rewrite (IHl _ _ Ex).
              destruct a; simpl in Ea.
              + destruct (pos g <? back); [discriminate|]. injection Ea as <-. reflexivity.
              + injection Ea as <-. reflexivity.
              + injection Ea as <-. reflexivity.
              + injection Ea as <-. reflexivity.
              + destruct (sstk g); [discriminate|]. injection Ea as <-. reflexivity.
              + destruct (pos g <? n); [discriminate|]. injection Ea as <-. reflexivity.
              + unfold read_body in Ea. destruct (jsc_len (rest g)); [|discriminate]. injection Ea as <-. destruct (0 <? n); reflexivity.
              + unfold read_body in Ea. destruct (enum_len (rest g)); [|discriminate]. injection Ea as <-. destruct (0 <? n); reflexivity. }
          destruct (snd ax).
          - injection Ed as <-. exact Hx.
          - rewrite (IHf _ _ Ed). exact Hx.
          - discriminate. }
        unfold estk_rel in Hrel. rewrite He. exact Hrel. }
      assert (HG2 : GI s g2).
      { split; [exact Hrel2|]. split; [exact Hos|]. split; [exact Hsz|].
        split; [exact HEv1|]. split; [unfold g2, advance; simpl; rewrite HLp1; exact HL|].
        intros H. apply HI2. unfold g2, advance in H. simpl in H. exact H. }
      pose proof (drain_sound (List.length (finds g2)) s g2 HG2 HA2 (le_n _)) as Hdr.
      destruct (drain (List.length (finds g2)) g2) as [[g3 ol]|p e| |]; cbn [obind fst snd]; try exact Hdr.
      destruct Hdr as (s3 & HG3 & HA3 & Hm3 & Hp3 & Hr3 & Hol).
      destruct ol as [l|].
      + exists s3. split; [exact HG3|]. split; [exact HA3|]. split; [exact Hm3|].
        destruct Hol as (O1 & O2 & O3 & O4). split; [exact O1|]. split; [exact O2|]. split; [exact O3|].
        fold g2 in HMM2. lia.
      + assert (Hfuel3 : (MM g3 < Z.of_nat fuel)%Z) by (fold g2 in HMM2; lia).
        specialize (IH s3 g3 HG3 HA3 Hfuel3).
        destruct (main_loop jsc_len enum_len data size fuel g3) as [[g4 ol4]|p e| |]; try exact IH.
        destruct IH as (s4 & A & B & C & D).
        exists s4. split; [exact A|]. split; [exact B|]. split; [lia|].
        fold g2 in HMM2.
        destruct ol4 as [l4|].
        * destruct D as (D1 & D2 & D3 & D4). split; [exact D1|]. split; [lia|]. split; [exact D3|]. lia.
        * destruct D as (D1 & D2). split; [exact D1|]. lia.
  Qed.

  (* ---- Next() ---- *)
  Lemma next_sound fuel s g :
    GI s g -> AllB g -> (MM g < Z.of_nat fuel)%Z ->
    match next jsc_len enum_len data size fuel g with
    | Ok (g', ol) =>
      exists s', GI s' g' /\ AllB g' /\ snd s <= snd s' /\
        match ol with
        | Some l => lex_inb l /\ snd s <= lb l /\ le l + 1 <= snd s' /\ (MM g' + 1 <= MM g)%Z
        | None => size < pos g'
        end
    | Err p _ => p <= size
    | _ => False
    end.
  Proof.
    intros HG HA Hfuel. unfold next.
    destruct (finds g) as [|ev fs] eqn:Ef.
    - pose proof (main_loop_sound fuel s g HG HA Hfuel) as H.
      destruct (main_loop jsc_len enum_len data size fuel g) as [[g' ol]|p e| |]; try exact H.
      destruct H as (s' & A & B & C & D). exists s'. split; [exact A|]. split; [exact B|]. split; [exact C|].
      destruct ol; [exact D | apply D].
    - destruct HG as (Hrel & Hos & Hsz & [sEnd Hrun] & HL & HT).
      rewrite Ef in Hrun. simpl in Hrun.
      destruct (ev_step size s ev) as [s1|] eqn:Est; [|discriminate].
      destruct (ev_step_props _ _ _ Est) as (Hos1 & Hm1 & Hsz1).
      assert (Hrel' : estk_rel s (set_finds g fs)) by exact Hrel.
      destruct (process_event_sound s ev s1 (set_finds g fs) Hrel' Hos Est) as (g1 & ol & Hpe & Hshape & Hrel1 & Hol).
      rewrite Hpe. cbn [obind fst snd].
      assert (HT1 : pos g <= size -> InvTy s1 (set_finds g fs)).
      { intros H. eapply invty_shift; [exact Ef | exact Est | exact (HT H)]. }
      assert (HG1 : GI s1 g1 /\ AllB g1 /\ pos g1 = pos g /\ reg g1 = reg g /\ finds g1 = fs).
      { destruct Hshape as [->|[e' ->]].
        - split; [|repeat split; try reflexivity; apply HA].
          split; [exact Hrel1|]. split; [exact Hos1|]. split; [exact Hsz1|].
          split; [eexists; exact Hrun|]. split; [exact HL|]. exact HT1.
        - split; [|repeat split; try reflexivity; apply HA].
          split; [exact Hrel1|]. split; [exact Hos1|]. split; [exact Hsz1|].
          split; [eexists; exact Hrun|]. split; [exact HL|]. exact HT1. }
      destruct HG1 as (HG1 & HA1 & Hp1 & Hr1 & Hf1).
      assert (HMM1 : (MM g1 + 1 <= MM g)%Z).
      { unfold TM_Dispatch.MM, TM_Dispatch.PhiR', TM_Dispatch.PhiR. rewrite Hp1, Hr1, Hf1, Ef. simpl List.length. lia. }
      destruct ol as [l|].
      + destruct Hol as (O1 & O2 & O3).
        exists s1. split; [exact HG1|]. split; [exact HA1|]. split; [exact Hm1|].
        split; [exact O1|]. split; [exact O2|]. split; [lia | exact HMM1].
      + assert (Hfuel1 : (MM g1 < Z.of_nat fuel)%Z) by lia.
        pose proof (main_loop_sound fuel s1 g1 HG1 HA1 Hfuel1) as H.
        destruct (main_loop jsc_len enum_len data size fuel g1) as [[g' ol']|p e| |]; try exact H.
        destruct H as (s' & A & B & C & D). exists s'. split; [exact A|]. split; [exact B|]. split; [lia|].
        destruct ol' as [l'|].
        * destruct D as (D1 & D2 & D3 & D4). split; [exact D1|]. split; [lia|]. split; [exact D3|]. lia.
        * apply D.
  Qed.

  (* ---- the whole scan ---- *)
  (* lexemes inside the file, non-overlapping, in increasing position, all at or after F *)
  Fixpoint lexemes_from (F : N) (ls : list lexeme) : Prop :=
    match ls with
    | [] => True
    | l :: r => lex_inb l /\ F <= lb l /\ lexemes_from (le l + 1) r
    end.

  Lemma lexemes_from_weaken F F' ls : F' <= F -> lexemes_from F ls -> lexemes_from F' ls.
  Proof. destruct ls as [|l r]; simpl; [tauto|]. intros H (A & B & C). split; [exact A|]. split; [lia | exact C]. Qed.

  Lemma lexemes_from_snoc F ls l :
    lexemes_from F ls -> lex_inb l ->
    (match rev ls with [] => F <= lb l | x :: _ => le x + 1 <= lb l end) ->
    lexemes_from F (ls ++ [l]).
  Proof.
    revert F. induction ls as [|a ls IH]; intros F H Hl Hlast; simpl in *.
    - split; [exact Hl|]. split; [exact Hlast | exact I].
    - destruct H as (A & B & C). split; [exact A|]. split; [exact B|].
      apply IH; try assumption.
      destruct (rev ls) as [|x r] eqn:Er; simpl in Hlast; exact Hlast.
  Qed.

  Definition end_ok (e : scan_end) : Prop :=
    match e with
    | SEof => True
    | SErr p _ => p <= size
    | SPanic _ => False
    | SFuel => False
    end.

  Lemma scan_all_sound fuel : forall s g acc F0,
    GI s g -> AllB g -> (MM g < Z.of_nat fuel)%Z ->
    lexemes_from F0 (rev acc) ->
    (match acc with [] => F0 <= snd s | x :: _ => le x + 1 <= snd s end) ->
    match scan_all jsc_len enum_len data size fuel g acc with
    | (lexs, e, _) => end_ok e /\ lexemes_from F0 lexs
    end.
  Proof.
    induction fuel as [|fuel IH]; intros s g acc F0 HG HA Hfuel Hacc Hlast.
    - pose proof (PhiR'_nonneg ty Hok size g). unfold TM_Dispatch.MM in Hfuel. change (Z.of_nat 0) with 0%Z in Hfuel. lia.
    - cbn [scan_all].
      pose proof (next_sound (S fuel) s g HG HA Hfuel) as Hn.
      destruct (next jsc_len enum_len data size (S fuel) g) as [[g' ol]|p e| |]; try contradiction.
      + destruct Hn as (s' & A & B & C & D).
        destruct ol as [l|].
        * destruct D as (D1 & D2 & D3 & D4).
          apply (IH s' g' (l :: acc) F0 A B); [lia| |simpl; exact D3].
          simpl. apply lexemes_from_snoc; try assumption.
          rewrite rev_involutive. destruct acc as [|x r]; lia.
        * split; [exact I | exact Hacc].
      + split; [exact Hn | exact Hacc].
  Qed.
End Loop.
