(* C17 — proofs about the parameter model (model/Params.v). *)
From Coq Require Import List NArith Bool String Lia.
From JV.lib Require Import Bytes.
From JV.gen Require Import DirectiveTables.
From JV.model Require Import Params.
Import ListNotations.
Open Scope N_scope.

(* ------------------------------------------------------------------------------------- *)
(* unescape . quote = id                                                                   *)

Lemma unescape_inner_plain c x :
  (c =? 92) = false -> unescape_inner (c :: x) = c :: unescape_inner x.
Proof. intros H. simpl. rewrite H. reflexivity. Qed.

Lemma unescape_inner_esc d x :
  (d =? 34) || (d =? 92) = true -> unescape_inner (92 :: d :: x) = d :: unescape_inner x.
Proof. intros H. simpl. rewrite H. reflexivity. Qed.

Lemma escape_cons c s : escape (c :: s) = escape_byte c ++ escape s.
Proof. reflexivity. Qed.

Lemma escape_cons_esc d s :
  (d =? 34) || (d =? 92) = true -> escape (d :: s) = 92 :: d :: escape s.
Proof. intros H. rewrite escape_cons. unfold escape_byte. rewrite H. reflexivity. Qed.

Lemma escape_cons_plain c s :
  (c =? 34) || (c =? 92) = false -> escape (c :: s) = c :: escape s.
Proof. intros H. rewrite escape_cons. unfold escape_byte. rewrite H. reflexivity. Qed.

Lemma unescape_inner_escape s : unescape_inner (escape s) = s.
Proof.
  induction s as [|c s IH]; [reflexivity|].
  destruct ((c =? 34) || (c =? 92)) eqn:E.
  - rewrite (escape_cons_esc _ _ E), (unescape_inner_esc _ _ E), IH. reflexivity.
  - rewrite (escape_cons_plain _ _ E).
    apply orb_false_iff in E as [_ E92].
    rewrite (unescape_inner_plain _ _ E92), IH. reflexivity.
Qed.

Lemma in_quotes_wrap x : in_quotes (34 :: x ++ [34]) = true.
Proof.
  unfold in_quotes.
  destruct (x ++ [34]) as [|y l] eqn:E; [destruct x; discriminate|].
  rewrite <- E, last_last. reflexivity.
Qed.

Lemma inner_wrap x : removelast (tl (34 :: x ++ [34])) = x.
Proof. cbn [tl]. apply removelast_last. Qed.

Lemma unescape_wrap x : unescape_parameter (34 :: x ++ [34]) = unescape_inner x.
Proof. unfold unescape_parameter. rewrite in_quotes_wrap, inner_wrap. reflexivity. Qed.

(* every byte string, no restriction whatsoever *)
Lemma unescape_quote_lemma s : unescape_parameter (quote_param s) = s.
Proof. unfold quote_param. rewrite unescape_wrap. apply unescape_inner_escape. Qed.

(* ------------------------------------------------------------------------------------- *)
(* the quoted states accept exactly the canonical quotings of single-line values           *)

Lemma line_byte_false c : line_byte c = true -> is_newline c || (c =? 0) = false.
Proof. unfold line_byte. intros H. apply negb_true_iff in H. exact H. Qed.

Lemma esc_is_line_byte d : (d =? 92) || (d =? 34) = true -> line_byte d = true.
Proof.
  intros H. apply orb_true_iff in H as [H|H]; apply N.eqb_eq in H; subst d; reflexivity.
Qed.

Lemma qstep_in_esc1 : qstep QIn 92 = QNext QSlash.
Proof. reflexivity. Qed.

Lemma qstep_in_plain c :
  line_byte c = true -> (c =? 34) || (c =? 92) = false -> qstep QIn c = QNext QIn.
Proof.
  intros Hl He. apply line_byte_false in Hl. apply orb_false_iff in He as [E34 E92].
  unfold qstep. rewrite Hl, E92, E34. reflexivity.
Qed.

Lemma qstep_slash_esc d : (d =? 34) || (d =? 92) = true -> qstep QSlash d = QNext QIn.
Proof. intros H. unfold qstep. rewrite orb_comm, H. reflexivity. Qed.

Lemma qstep_in_dq : qstep QIn 34 = QEnd.
Proof. reflexivity. Qed.

Lemma qaccept_cons st c x :
  qaccept st (c :: x) =
  match qstep st c with
  | QNext st' => qaccept st' x
  | QEnd => match x with [] => true | _ => false end
  | QReject => false
  end.
Proof. reflexivity. Qed.

Lemma qaccept_escape s : single_line s = true -> qaccept QIn (escape s ++ [34]) = true.
Proof.
  induction s as [|c s IH]; intros Hs; [reflexivity|].
  unfold single_line in Hs. cbn [forallb] in Hs. apply andb_true_iff in Hs as [Hc Hs].
  specialize (IH Hs).
  destruct ((c =? 34) || (c =? 92)) eqn:E.
  - rewrite (escape_cons_esc _ _ E). cbn [app].
    rewrite qaccept_cons, qstep_in_esc1, qaccept_cons, (qstep_slash_esc _ E). exact IH.
  - rewrite (escape_cons_plain _ _ E). cbn [app].
    rewrite qaccept_cons, (qstep_in_plain _ Hc E). exact IH.
Qed.

Definition is_body (r : bytes) : Prop := exists s, single_line s = true /\ r = escape s ++ [34].

Lemma qaccept_inv r :
  (qaccept QIn r = true -> is_body r) /\
  (qaccept QSlash r = true ->
   exists d r', r = d :: r' /\ (d =? 34) || (d =? 92) = true /\ is_body r').
Proof.
  induction r as [|c r [IHin IHsl]]; [split; discriminate|].
  split; intros H; rewrite qaccept_cons in H.
  - unfold qstep in H.
    destruct (is_newline c || (c =? 0)) eqn:E1; [discriminate|].
    destruct (c =? 92) eqn:E92.
    + apply N.eqb_eq in E92. subst c.
      destruct (IHsl H) as (d & r' & -> & Hd & s & Hs & ->).
      exists (d :: s). split.
      * unfold single_line. cbn [forallb]. apply andb_true_iff. split; [|exact Hs].
        apply esc_is_line_byte. rewrite orb_comm. exact Hd.
      * rewrite (escape_cons_esc _ _ Hd). reflexivity.
    + destruct (c =? 34) eqn:E34.
      * apply N.eqb_eq in E34. subst c.
        destruct r as [|y r]; [|discriminate].
        exists []. split; reflexivity.
      * destruct (IHin H) as (s & Hs & ->).
        exists (c :: s). split.
        -- unfold single_line. cbn [forallb]. apply andb_true_iff. split; [|exact Hs].
           unfold line_byte. rewrite E1. reflexivity.
        -- rewrite escape_cons_plain; [reflexivity|]. rewrite E34, E92. reflexivity.
  - unfold qstep in H.
    destruct ((c =? 92) || (c =? 34)) eqn:E; [|discriminate].
    exists c, r. split; [reflexivity|]. split; [rewrite orb_comm; exact E|]. exact (IHin H).
Qed.

Lemma accepts_quoted_iff q :
  accepts_quoted q = true <-> exists s, single_line s = true /\ q = quote_param s.
Proof.
  split.
  - destruct q as [|c r]; [discriminate|]. unfold accepts_quoted. intros H.
    apply andb_true_iff in H as [Hc Hr]. apply N.eqb_eq in Hc. subst c.
    destruct (proj1 (qaccept_inv r) Hr) as (s & Hs & ->).
    exists s. split; [exact Hs | reflexivity].
  - intros (s & Hs & ->). unfold quote_param, accepts_quoted.
    rewrite N.eqb_refl. cbn [andb]. apply qaccept_escape. exact Hs.
Qed.

Lemma quote_accepted_lemma s : single_line s = true -> accepts_quoted (quote_param s) = true.
Proof. intros Hs. apply accepts_quoted_iff. exists s. split; [exact Hs | reflexivity]. Qed.

(* the hypothesis of quote_accepted, spelled without the boolean *)
Lemma single_line_spec s : single_line s = true <-> (~ In 10 s /\ ~ In 13 s /\ ~ In 0 s).
Proof.
  unfold single_line. rewrite forallb_forall. split.
  - intros H. repeat split; intros Hin; apply H in Hin; discriminate.
  - intros (H10 & H13 & H0) c Hin. unfold line_byte, is_newline.
    destruct (c =? 10) eqn:E1; [apply N.eqb_eq in E1; subst c; contradiction|].
    destruct (c =? 13) eqn:E2; [apply N.eqb_eq in E2; subst c; contradiction|].
    destruct (c =? 0) eqn:E3; [apply N.eqb_eq in E3; subst c; contradiction|].
    reflexivity.
Qed.

Lemma accepted_is_quote_lemma q :
  accepts_quoted q = true -> q = quote_param (unescape_parameter q).
Proof.
  intros H. apply accepts_quoted_iff in H as (s & _ & ->).
  rewrite unescape_quote_lemma. reflexivity.
Qed.

(* two accepted lexemes with the same value are the same lexeme *)
Lemma accepted_injective q1 q2 :
  accepts_quoted q1 = true -> accepts_quoted q2 = true ->
  unescape_parameter q1 = unescape_parameter q2 -> q1 = q2.
Proof.
  intros H1 H2 E. rewrite (accepted_is_quote_lemma _ H1), (accepted_is_quote_lemma _ H2), E.
  reflexivity.
Qed.

(* ------------------------------------------------------------------------------------- *)
(* bare = quoted                                                                           *)

Lemma not_in_quotes_id s : in_quotes s = false -> unescape_parameter s = s.
Proof. intros H. unfold unescape_parameter. rewrite H. reflexivity. Qed.

Lemma no_leading_quote_not_in_quotes s : hd_error s <> Some 34 -> in_quotes s = false.
Proof.
  destruct s as [|c r]; [reflexivity|]. cbn [hd_error]. intros H.
  unfold in_quotes. destruct r as [|y r]; [reflexivity|].
  destruct (c =? 34) eqn:E; [apply N.eqb_eq in E; subst c; congruence | reflexivity].
Qed.

Lemma bare_no_leading_quote s : bare_param s = true -> hd_error s <> Some 34.
Proof.
  destruct s as [|c r]; [discriminate|]. unfold bare_param. intros H.
  apply andb_true_iff in H as [H _]. apply negb_true_iff in H.
  cbn [hd_error]. intros E. injection E as ->. discriminate.
Qed.

(* strongest form: any string that does not begin with a double quote (bare or not) *)
Lemma unquoted_eq_quoted s k :
  hd_error s <> Some 34 ->
  unescape_parameter s = s /\ append_parameter k s = append_parameter k (quote_param s).
Proof.
  intros H. pose proof (not_in_quotes_id s (no_leading_quote_not_in_quotes s H)) as E.
  split; [exact E|]. unfold append_parameter. rewrite E, unescape_quote_lemma. reflexivity.
Qed.

Lemma bare_eq_quoted_lemma s k :
  bare_param s = true ->
  unescape_parameter s = s /\ append_parameter k s = append_parameter k (quote_param s).
Proof. intros H. apply unquoted_eq_quoted. apply bare_no_leading_quote. exact H. Qed.

(* a bare parameter is a single-line value, so its quoted spelling is accepted by the scanner *)
Lemma bare_single_line s : bare_param s = true -> single_line s = true.
Proof.
  destruct s as [|c0 r]; [discriminate|]. unfold bare_param. intros H.
  apply andb_true_iff in H as [_ H]. unfold single_line.
  rewrite forallb_forall in *. intros c Hin. specialize (H c Hin).
  unfold bare_byte in H. apply negb_true_iff in H.
  repeat (apply orb_false_iff in H; destruct H as [H ?]).
  unfold line_byte, is_newline. apply negb_true_iff.
  repeat (apply orb_false_iff; split); assumption.
Qed.

(* ------------------------------------------------------------------------------------- *)
(* positions of rejection                                                                  *)

Lemma qrun_cons st c x i :
  qrun st (c :: x) i =
  match qstep st c with
  | QNext st' => qrun st' x (S i)
  | QEnd => None
  | QReject => Some i
  end.
Proof. reflexivity. Qed.

Lemma qafter_cons st c p :
  qafter st (c :: p) = match qstep st c with QNext st' => qafter st' p | _ => None end.
Proof. reflexivity. Qed.

(* running over a prefix that stays inside the quoted states *)
Lemma qrun_after pre : forall st st' post i,
  qafter st pre = Some st' -> qrun st (pre ++ post) i = qrun st' post (i + List.length pre).
Proof.
  induction pre as [|c p IH]; intros st st' post i H.
  - cbn in H. injection H as ->. cbn [app List.length]. f_equal; lia.
  - rewrite qafter_cons in H. cbn [app]. rewrite qrun_cons.
    destruct (qstep st c) as [st1| |] eqn:E; try discriminate.
    rewrite (IH _ _ _ _ H). cbn [List.length]. f_equal; lia.
Qed.

Lemma qaccept_after pre : forall st, qaccept st (pre ++ [34]) = true -> qafter st pre = Some QIn.
Proof.
  induction pre as [|c p IH]; intros st H.
  - destruct st; [reflexivity | discriminate].
  - cbn [app] in H. rewrite qaccept_cons in H. rewrite qafter_cons.
    destruct (qstep st c) as [st1| |] eqn:E.
    + apply IH. exact H.
    + destruct p; discriminate.
    + discriminate.
Qed.

Lemma qafter_accept pre : forall st, qafter st pre = Some QIn -> qaccept st (pre ++ [34]) = true.
Proof.
  induction pre as [|c p IH]; intros st H.
  - cbn in H. injection H as ->. reflexivity.
  - rewrite qafter_cons in H. cbn [app]. rewrite qaccept_cons.
    destruct (qstep st c) as [st1| |] eqn:E; try discriminate.
    apply IH. exact H.
Qed.

Lemma qstep_next_slash st c : qstep st c = QNext QSlash -> st = QIn /\ c = 92.
Proof.
  destruct st; unfold qstep.
  - destruct (is_newline c || (c =? 0)); [discriminate|].
    destruct (c =? 92) eqn:E; [intros _; split; [reflexivity | apply N.eqb_eq; exact E]|].
    destruct (c =? 34); discriminate.
  - destruct ((c =? 92) || (c =? 34)); discriminate.
Qed.

Lemma qafter_slash pre : forall st,
  qafter st pre = Some QSlash ->
  (pre = [] /\ st = QSlash) \/ exists body, pre = body ++ [92] /\ qafter st body = Some QIn.
Proof.
  induction pre as [|c p IH]; intros st H.
  - cbn in H. injection H as ->. left. split; reflexivity.
  - right. rewrite qafter_cons in H.
    destruct (qstep st c) as [st1| |] eqn:E; try discriminate.
    destruct (IH _ H) as [[-> ->] | (body & -> & Hb)].
    + apply qstep_next_slash in E as [-> ->]. exists []. split; reflexivity.
    + exists (c :: body). split; [reflexivity|]. rewrite qafter_cons, E. exact Hb.
Qed.

(* accepted-lexeme-without-its-closing-quote: the bytes between the quotes *)
Definition open_body (body : bytes) : Prop := accepts_quoted (34 :: body ++ [34]) = true.

Lemma open_body_after body : open_body body <-> qafter QIn body = Some QIn.
Proof.
  unfold open_body, accepts_quoted. rewrite N.eqb_refl. cbn [andb].
  split; [apply qaccept_after | apply qafter_accept].
Qed.

(* clause 1 of the property: unterminated quote => rejected at the line end / end of file *)
Lemma reject_unterminated_eof body :
  open_body body -> quoted_reject_pos (34 :: body) = Some (1 + List.length body)%nat.
Proof.
  intros H. apply open_body_after in H. unfold quoted_reject_pos. rewrite N.eqb_refl.
  rewrite <- (app_nil_r body) at 1. rewrite (qrun_after _ _ _ _ _ H). reflexivity.
Qed.

Lemma reject_unterminated_line body c rest :
  open_body body -> is_newline c || (c =? 0) = true ->
  quoted_reject_pos (34 :: body ++ c :: rest) = Some (1 + List.length body)%nat.
Proof.
  intros H Hc. apply open_body_after in H. unfold quoted_reject_pos. rewrite N.eqb_refl.
  rewrite (qrun_after _ _ _ _ _ H), qrun_cons. unfold qstep. rewrite Hc. reflexivity.
Qed.

(* clause 2: backslash before a byte other than backslash / double quote => rejected at that byte *)
Lemma reject_bad_escape body c rest :
  open_body body -> (c =? 92) || (c =? 34) = false ->
  quoted_reject_pos (34 :: body ++ 92 :: c :: rest) = Some (2 + List.length body)%nat.
Proof.
  intros H Hc. apply open_body_after in H. unfold quoted_reject_pos. rewrite N.eqb_refl.
  rewrite (qrun_after _ _ _ _ _ H), qrun_cons, qstep_in_esc1, qrun_cons. unfold qstep.
  rewrite Hc. f_equal; lia.
Qed.

Lemma reject_bad_escape_eof body :
  open_body body ->
  quoted_reject_pos (34 :: body ++ [92]) = Some (2 + List.length body)%nat.
Proof.
  intros H. apply open_body_after in H. unfold quoted_reject_pos. rewrite N.eqb_refl.
  rewrite (qrun_after _ _ _ _ _ H), qrun_cons, qstep_in_esc1. cbn [qrun]. f_equal; lia.
Qed.

(* no rejection <=> the text begins with an accepted lexeme *)
Lemma qrun_none_prefix r : forall st i,
  qrun st r i = None -> exists q rest, r = q ++ rest /\ qaccept st q = true.
Proof.
  induction r as [|c r IH]; intros st i H; [discriminate|].
  rewrite qrun_cons in H. destruct (qstep st c) as [st1| |] eqn:E.
  - destruct (IH _ _ H) as (q & rest & -> & Hq).
    exists (c :: q), rest. split; [reflexivity|]. rewrite qaccept_cons, E. exact Hq.
  - exists [c], r. split; [reflexivity|]. rewrite qaccept_cons, E. reflexivity.
  - discriminate.
Qed.

Lemma qaccept_run_none q : forall st rest i, qaccept st q = true -> qrun st (q ++ rest) i = None.
Proof.
  induction q as [|c q IH]; intros st rest i H; [discriminate|].
  rewrite qaccept_cons in H. cbn [app]. rewrite qrun_cons.
  destruct (qstep st c) as [st1| |] eqn:E.
  - apply IH. exact H.
  - reflexivity.
  - discriminate.
Qed.

Lemma reject_none_iff t :
  quoted_reject_pos t = None <-> exists q rest, accepts_quoted q = true /\ t = q ++ rest.
Proof.
  split.
  - destruct t as [|c r]; [discriminate|]. unfold quoted_reject_pos.
    destruct (c =? 34) eqn:E; [|discriminate]. apply N.eqb_eq in E. subst c. intros H.
    destruct (qrun_none_prefix _ _ _ H) as (q & rest & -> & Hq).
    exists (34 :: q), rest. split; [|reflexivity].
    unfold accepts_quoted. rewrite N.eqb_refl. exact Hq.
  - intros (q & rest & Hq & ->). destruct q as [|c q]; [discriminate|].
    unfold accepts_quoted in Hq. apply andb_true_iff in Hq as [Hc Hq].
    cbn [app]. unfold quoted_reject_pos. rewrite Hc. apply qaccept_run_none. exact Hq.
Qed.

(* the lexeme the quoted states cut out of a text is the accepted prefix *)
Lemma qend_cons st c x i :
  qend st (c :: x) i =
  match qstep st c with
  | QNext st' => qend st' x (S i)
  | QEnd => Some (S i)
  | QReject => None
  end.
Proof. reflexivity. Qed.

Lemma qend_some r : forall st i n,
  qend st r i = Some n ->
  exists q rest, r = q ++ rest /\ qaccept st q = true /\ n = (i + List.length q)%nat.
Proof.
  induction r as [|c r IH]; intros st i n H; [discriminate|].
  rewrite qend_cons in H. destruct (qstep st c) as [st1| |] eqn:E.
  - destruct (IH _ _ _ H) as (q & rest & -> & Hq & ->).
    exists (c :: q), rest. split; [reflexivity|]. split; [rewrite qaccept_cons, E; exact Hq|].
    cbn [List.length]. lia.
  - injection H as <-. exists [c], r. split; [reflexivity|].
    split; [rewrite qaccept_cons, E; reflexivity | cbn [List.length]; lia].
  - discriminate.
Qed.

Lemma qaccept_qend q : forall st rest i,
  qaccept st q = true -> qend st (q ++ rest) i = Some (i + List.length q)%nat.
Proof.
  induction q as [|c q IH]; intros st rest i H; [discriminate|].
  rewrite qaccept_cons in H. cbn [app]. rewrite qend_cons.
  destruct (qstep st c) as [st1| |] eqn:E.
  - rewrite (IH _ _ _ H). cbn [List.length]. f_equal; lia.
  - destruct q; [|discriminate]. cbn [List.length]. f_equal; lia.
  - discriminate.
Qed.

Lemma lexeme_len_iff t n :
  quoted_lexeme_len t = Some n <->
  exists q rest, t = q ++ rest /\ accepts_quoted q = true /\ n = List.length q.
Proof.
  split.
  - destruct t as [|c r]; [discriminate|]. unfold quoted_lexeme_len.
    destruct (c =? 34) eqn:E; [|discriminate]. apply N.eqb_eq in E. subst c. intros H.
    destruct (qend_some _ _ _ _ H) as (q & rest & -> & Hq & ->).
    exists (34 :: q), rest. split; [reflexivity|].
    split; [unfold accepts_quoted; rewrite N.eqb_refl; exact Hq | reflexivity].
  - intros (q & rest & -> & Hq & ->). destruct q as [|c q]; [discriminate|].
    unfold accepts_quoted in Hq. apply andb_true_iff in Hq as [Hc Hq].
    cbn [app]. unfold quoted_lexeme_len. rewrite Hc. rewrite (qaccept_qend _ _ _ _ Hq).
    reflexivity.
Qed.

(* a rejection position always has one of the two shapes of the property (soundness of
   Some j); together with the four reject_* lemmas above this characterises Some j exactly *)
Lemma qrun_some r : forall st i j,
  qrun st r i = Some j ->
  exists pre post st', r = pre ++ post /\ j = (i + List.length pre)%nat /\
    qafter st pre = Some st' /\
    (post = [] \/ exists c p, post = c :: p /\ qstep st' c = QReject).
Proof.
  induction r as [|c r IH]; intros st i j H.
  - cbn in H. injection H as <-. exists [], [], st.
    split; [reflexivity|]. split; [cbn; lia|]. split; [reflexivity|]. left; reflexivity.
  - rewrite qrun_cons in H. destruct (qstep st c) as [st1| |] eqn:E.
    + destruct (IH _ _ _ H) as (pre & post & st' & -> & -> & Ha & Hp).
      exists (c :: pre), post, st'. split; [reflexivity|]. split; [cbn [List.length]; lia|].
      split; [rewrite qafter_cons, E; exact Ha | exact Hp].
    + discriminate.
    + injection H as <-. exists [], (c :: r), st.
      split; [reflexivity|]. split; [cbn; lia|]. split; [reflexivity|].
      right. exists c, r. split; [reflexivity | exact E].
Qed.

Lemma qstep_in_reject c : qstep QIn c = QReject -> is_newline c || (c =? 0) = true.
Proof.
  unfold qstep. destruct (is_newline c || (c =? 0)); [reflexivity|].
  destruct (c =? 92); [discriminate|]. destruct (c =? 34); discriminate.
Qed.

Lemma qstep_slash_reject c : qstep QSlash c = QReject -> (c =? 92) || (c =? 34) = false.
Proof. unfold qstep. destruct ((c =? 92) || (c =? 34)); [discriminate | reflexivity]. Qed.

Lemma reject_some_shape r j :
  quoted_reject_pos (34 :: r) = Some j ->
  exists body post, open_body body /\
    ((r = body ++ post /\ j = (1 + List.length body)%nat /\
      (post = [] \/ exists c p, post = c :: p /\ is_newline c || (c =? 0) = true))
     \/
     (r = body ++ 92 :: post /\ j = (2 + List.length body)%nat /\
      (post = [] \/ exists c p, post = c :: p /\ (c =? 92) || (c =? 34) = false))).
Proof.
  unfold quoted_reject_pos. rewrite N.eqb_refl. intros H.
  destruct (qrun_some _ _ _ _ H) as (pre & post & st' & -> & -> & Ha & Hp).
  destruct st'.
  - exists pre, post. split; [apply open_body_after; exact Ha|]. left.
    split; [reflexivity|]. split; [reflexivity|].
    destruct Hp as [->|(c & p & -> & Hc)]; [left; reflexivity|].
    right. exists c, p. split; [reflexivity | apply qstep_in_reject; exact Hc].
  - destruct (qafter_slash _ _ Ha) as [[_ Hst] | (body & -> & Hb)]; [discriminate|].
    exists body, post. split; [apply open_body_after; exact Hb|]. right.
    split; [rewrite <- app_assoc; reflexivity|].
    split; [rewrite app_length; cbn [List.length]; lia|].
    destruct Hp as [->|(c & p & -> & Hc)]; [left; reflexivity|].
    right. exists c, p. split; [reflexivity | apply qstep_slash_reject; exact Hc].
Qed.

(* the open bodies are exactly the escaped spellings of single-line values *)
Lemma open_body_iff body : open_body body <-> exists s, single_line s = true /\ body = escape s.
Proof.
  unfold open_body. rewrite accepts_quoted_iff. unfold quote_param. split.
  - intros (s & Hs & E). injection E as E. apply app_inj_tail in E as [E _].
    exists s. split; assumption.
  - intros (s & Hs & ->). exists s. split; [exact Hs | reflexivity].
Qed.

(* ------------------------------------------------------------------------------------- *)
(* examples, by computation.  a=97 b=98 TAB=9 BACKSLASH=92 DQUOTE=34, 195 169 = e-acute in
   UTF-8, 255 = a byte that is not valid UTF-8 *)

Definition ex_value : bytes := [97; 92; 92; 98; 32; 97; 92; 34; 98; 9; 195; 169; 255; 35; 92].

Example ex_quote_spelling :
  quote_param [97; 92; 34; 98] = [34; 97; 92; 92; 92; 34; 98; 34].
Proof. vm_compute. reflexivity. Qed.

Example ex_unescape_quote : unescape_parameter (quote_param ex_value) = ex_value.
Proof. vm_compute. reflexivity. Qed.

Example ex_unescape_quote_edge :
  unescape_parameter (quote_param []) = [] /\
  unescape_parameter (quote_param [34]) = [34] /\
  unescape_parameter (quote_param [92]) = [92] /\
  unescape_parameter (quote_param [34; 34]) = [34; 34] /\
  unescape_parameter (quote_param [97; 92]) = [97; 92].
Proof. vm_compute. repeat split. Qed.

Example ex_quote_accepted : accepts_quoted (quote_param ex_value) = true.
Proof. vm_compute. reflexivity. Qed.

Example ex_not_accepted :
  accepts_quoted (bs "abc") = false /\                       (* no opening quote *)
  accepts_quoted [34; 97; 34; 98; 34] = false /\             (* closing quote not last *)
  accepts_quoted [34; 97; 92; 110; 34] = false /\            (* backslash n *)
  accepts_quoted [34; 97; 92; 34] = false /\                 (* the last quote is escaped *)
  accepts_quoted [34; 97; 10; 34] = false /\                 (* line feed inside *)
  accepts_quoted [34] = false.
Proof. vm_compute. repeat split. Qed.

Example ex_accepted_is_quote :
  let q := [34; 97; 92; 92; 98; 9; 92; 34; 195; 169; 34] in
  accepts_quoted q = true /\ unescape_parameter q = [97; 92; 98; 9; 34; 195; 169] /\
  q = quote_param (unescape_parameter q).
Proof. vm_compute. repeat split. Qed.

Example ex_bare_eq_quoted :
  let s := [47; 97; 92; 98; 47; 123; 195; 169; 125] in       (* /a\b/{e-acute} *)
  bare_param s = true /\ unescape_parameter s = s /\
  append_parameter KGet s = PNamed (bs "Path") s /\
  append_parameter KGet (quote_param s) = PNamed (bs "Path") s.
Proof. vm_compute. repeat split. Qed.

Example ex_bare_eq_quoted_type :
  append_parameter KBody (bs "[@cat]") = PNamed (bs "Type") (bs "[@cat]") /\
  append_parameter KBody (quote_param (bs "[@cat]")) = PNamed (bs "Type") (bs "[@cat]") /\
  append_parameter KTags (quote_param (bs "@t-1")) = PUnnamed (bs "@t-1") /\
  append_parameter KQuery (quote_param (bs "noFormat")) = PNamed (bs "Format") (bs "noFormat") /\
  append_parameter KTAG (bs "cat") = PErr.
Proof. vm_compute. repeat split. Qed.

Example ex_reject_positions :
  quoted_reject_pos [34; 97; 92; 92; 98] = Some 5%nat /\             (* EOF inside quotes *)
  quoted_reject_pos [34; 97; 9; 195; 10; 98; 34] = Some 4%nat /\     (* at the line feed *)
  quoted_reject_pos [34; 97; 92; 110; 34] = Some 3%nat /\            (* at the n of backslash n *)
  quoted_reject_pos [34; 97; 92; 92; 92; 9; 34] = Some 5%nat /\      (* at the TAB after the 3rd backslash *)
  quoted_reject_pos [34; 97; 92] = Some 3%nat /\                     (* EOF after a backslash *)
  quoted_reject_pos [34; 97; 92; 34; 34; 32; 98] = None.             (* accepted lexeme, then more text *)
Proof. vm_compute. repeat split. Qed.
