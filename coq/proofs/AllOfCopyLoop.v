(* C12 — allOf inheritance for EVERY library-accepted project (part 2 of 4): the copy loop of
   inheritPropertiesFromUserType under the heap typing of AllOfHeapTyping.v.

   One turn of the loop, for the property v (index i) of the completed base rb:
     - ObjectProperty finds it in sc as an inherited property      -> nothing happens
       (this is what happens when a node is visited again — through a second schema that inherits
        from it, or through a by-value copy of its parent: a completed node is a fixed point);
     - ObjectProperty finds nothing                                -> `vv := *v` is allocated,
       marked, and put in front: sc then stands for a suffix of its target that is one longer.
   Which of the two happens is decided by the typing alone (the keys of a target are pairwise
   different: rtree_ok, the library's "Duplicate keys" check), so the loop fills the block of the
   base from its last property to its first, whatever part of it is already there. *)
From Coq Require Import List NArith Bool String Lia Arith PeanoNat.
From JV.lib Require Import Bytes.
From JV.model Require Import AllOf.
From JV.spec Require Import AllOfSpec.
From JV.proofs Require Import AllOfProofs AllOfHeapTyping.
Import ListNotations.
Open Scope nat_scope.

(* ------------------------------------------------------------------------------------- *)
(* the two outcomes of one turn, syntactically *)

Lemma inherit_step_found u name sc rb st i rbn v vn k scn Cs p :
  get st rb = Some rbn -> nth_error (n_children rbn) i = Some v -> get st v = Some vn -> n_key vn = Some k ->
  get st sc = Some scn -> all_some (map (get st) (n_children scn)) = Some Cs -> Forall keyed Cs ->
  first_with_key k Cs = Some p -> n_inh p <> [] ->
  inherit_step u name sc rb st i = ROk st.
Proof.
  intros Hrb Hv Hgv Hk Hsc HCs HCk Hp Hi. unfold inherit_step. rewrite Hrb, Hv, Hgv, Hk, Hsc.
  rewrite (object_property_spec st _ Cs k HCs HCk), Hp. cbn [rbind].
  destruct (n_inh p); [congruence|reflexivity].
Qed.

Lemma inherit_step_push u name sc rb st i rbn v vn k scn Cs :
  get st rb = Some rbn -> nth_error (n_children rbn) i = Some v -> get st v = Some vn -> n_key vn = Some k ->
  get st sc = Some scn -> all_some (map (get st) (n_children scn)) = Some Cs -> Forall keyed Cs ->
  first_with_key k Cs = None ->
  exists st1, (forall j, get st1 j = get st j) /\ heap st1 = heap st /\ memo st1 = memo st /\
              inherit_step u name sc rb st i = ROk (push_copy st1 sc scn (set_inh name vn)).
Proof.
  intros Hrb Hv Hgv Hk Hsc HCs HCk Hp.
  exists (match n_inh vn with [] => add_log u name st | _ :: _ => st end).
  split; [intros j; destruct (n_inh vn); reflexivity|].
  split; [destruct (n_inh vn); reflexivity|]. split; [destruct (n_inh vn); reflexivity|].
  unfold inherit_step. rewrite Hrb, Hv, Hgv, Hk, Hsc.
  rewrite (object_property_spec st _ Cs k HCs HCk), Hp. cbn [rbind]. reflexivity.
Qed.

(* ------------------------------------------------------------------------------------- *)
(* lists *)

Lemma last_split {A} (l : list A) p a : nth_error l p = Some a -> List.length l = S p -> l = firstn p l ++ [a].
Proof.
  intros Hn Hl. rewrite <- (firstn_S_nth l p a Hn). rewrite <- Hl, firstn_all. reflexivity.
Qed.

Lemma nth_error_app_mid {A} (P B Q : list A) i a :
  nth_error B i = Some a -> nth_error (P ++ B ++ Q) (List.length P + i) = Some a.
Proof.
  intros Hn. rewrite nth_error_app2; [|lia]. replace (List.length P + i - List.length P) with i by lia.
  rewrite nth_error_app1; [exact Hn|]. apply nth_error_Some. congruence.
Qed.

Lemma NoDup_map_Some_inv {A} (l : list A) : NoDup (map Some l) -> NoDup l.
Proof.
  induction l as [|a l IH]; simpl; intros Hn; [constructor|].
  inversion Hn; subst. constructor; auto. intros Hin. apply H1. apply in_map. exact Hin.
Qed.

(* ObjectProperty on nodes that carry the keys and marks of a duplicate-free list of targets *)
Definition carries (cn : node) (y : rtree) : Prop := n_key cn = rkey y /\ n_inh cn = rinh y.

Lemma fwk_at k : forall Cs s q z,
  Forall2 carries Cs s -> NoDup (map rkey s) -> nth_error s q = Some z -> rkey z = Some k ->
  exists cn, first_with_key k Cs = Some cn /\ n_inh cn = rinh z.
Proof.
  induction Cs as [|cn Cs IH]; intros s q z HF Hnd Hq Hk.
  - inversion HF; subst. destruct q; discriminate.
  - inversion HF as [|? y0 ? s0 [Hk0 Hi0] HF']; subst. simpl in Hnd. inversion Hnd as [|? ? Hnot Hnd']; subst.
    destruct q as [|q]; simpl in Hq.
    + injection Hq as ->. exists cn. simpl. rewrite Hk0, Hk, beq_refl. auto.
    + simpl. destruct (n_key cn) as [k'|] eqn:Ek.
      * destruct (beq k' k) eqn:Eb.
        -- apply beq_eq in Eb. subst k'. exfalso. apply Hnot. rewrite <- Hk0, <- Hk.
           apply in_map. eapply nth_error_In; eauto.
        -- eapply IH; eauto.
      * eapply IH; eauto.
Qed.

Lemma fwk_absent k Cs s :
  Forall2 carries Cs s -> ~ In (Some k) (map rkey s) -> first_with_key k Cs = None.
Proof.
  intros HF Hno. apply first_with_key_none. intros cn Hin Hk.
  destruct (Forall2_In_l _ _ _ _ HF Hin) as (y & Hy & [Hky _]). apply Hno. rewrite <- Hk, Hky. apply in_map. exact Hy.
Qed.

Section Loop.
  Variable tys : list (bytes * option tree).
  Variable ts : list (bytes * option id).
  Variable D : nat.

  Notation tg := (tg tys D).
  Notation spd := (spd tys).
  Notation WF := (WF tys ts D).
  Notation node_ok := (node_ok tys D).
  Notation child_ok := (child_ok tys D).
  Notation full := (full tys D).
  Notation fin := (fin tys D).
  Notation fins := (fins tys D).
  Notation keeps := (keeps tys D).
  Notation trans := (trans tys ts D).
  Notation memoinv := (memoinv tys ts D).

  (* the entry of a by-value copy that is marked with the base it was taken from *)
  Definition copy_entry (b : bytes) (ev : entry) : entry :=
    {| en_mark := b; en_key := en_key ev; en_tree := en_tree ev |}.

  Lemma spd_copy b ev d : spd d (copy_entry b ev) = spd d ev.
  Proof. reflexivity. Qed.

  Lemma tg_copy b ev y : tg ev = Some y -> tg (copy_entry b ev) = Some (mark b y).
  Proof.
    intros Hy. destruct (tg_spd _ _ _ _ Hy) as (y0 & Hy0 & ->).
    unfold AllOfHeapTyping.tg. rewrite spd_copy, Hy0. simpl. rewrite mark_mark. reflexivity.
  Qed.

  (* `vv := *v; vv.InheritedFrom = b` stands for the same source subtree as v, in the same state *)
  Lemma node_ok_copy G b ev vn : node_ok G ev vn -> node_ok G (copy_entry b ev) (set_inh b vn).
  Proof.
    intros [Hk Ht Ha Hi Ho Hkids Hl]. split; simpl; auto.
    destruct Hkids as (x & pre & s & Hx & Hok & Hs & Hlen & HF).
    exists (mark b x), pre, s. rewrite rtree_ok_mark, rkids_mark. repeat split; auto. apply tg_copy. exact Hx.
  Qed.

  Lemma children_nodes G st cs s :
    WF G st -> Forall2 (child_ok G) cs s ->
    exists Cs, all_some (map (get st) cs) = Some Cs /\ Forall2 carries Cs s.
  Proof.
    intros Hw. induction 1 as [|c y cs s (ec & Hn & Ht) _ (Cs & HCs & HF)].
    - exists []. split; [reflexivity|constructor].
    - destruct (wf_get _ _ _ _ _ _ _ Hw Hn) as (cn & Hg & Hok).
      exists (cn :: Cs). simpl. rewrite Hg, HCs. split; [reflexivity|]. constructor; auto.
      destruct (tg_shape _ _ _ _ Ht) as (Hk & _ & Hi). split.
      + rewrite (no_key _ _ _ _ _ Hok). auto.
      + rewrite (no_inh _ _ _ _ _ Hok). auto.
  Qed.

  Lemma keys_all_some (X : list rtree) l y : map rkey X = map Some l -> In y X -> exists k, rkey y = Some k.
  Proof.
    intros Hm Hin. assert (Hk : In (rkey y) (map Some l)) by (rewrite <- Hm; apply in_map; exact Hin).
    apply in_map_iff in Hk as (k & Hk & _). eauto.
  Qed.

  Lemma carries_keyed Cs s : Forall2 carries Cs s -> (forall y, In y s -> exists k, rkey y = Some k) -> Forall keyed Cs.
  Proof.
    induction 1 as [|cn y Cs s [Hk _] _ IH]; intros Hall; [constructor|]. constructor.
    - destruct (Hall y (or_introl eq_refl)) as (k & Hy). exists k. congruence.
    - apply IH. intros z Hz. apply Hall. simpl. auto.
  Qed.

  (* ----------------------------------------------------------------------------------- *)

  Variable u : nat.
  Variable b : bytes.
  Variables sc rb : id.
  Variable d : nat.
  Variable esc : entry.
  Variable x r : rtree.
  Variable tb : tree.
  Variables P Q : list rtree.

  Hypothesis Hb_ne : b <> [].
  Hypothesis Hx : tg esc = Some x.
  Hypothesis Hxobj : rtok x = TObject.
  Hypothesis Hxok : rtree_ok x = true.
  Hypothesis Hr : tg (type_entry tb) = Some r.
  Hypothesis Hrobj : rtok r = TObject.
  Hypothesis Hrok : rtree_ok r = true.
  Hypothesis HX : rkids x = P ++ map (mark b) (rkids r) ++ Q.
  Hypothesis Hdef : spd (S d) esc <> None.
  Hypothesis Hlvlb : forall d', spd (S d') esc <> None -> spec_tree d' tys None tb <> None.

  Let B := map (mark b) (rkids r).

  (* sc has at least L children, all of them completed *)
  Definition filled (G : list entry) (st : state) (L : nat) : Prop :=
    exists n, get st sc = Some n /\ L <= List.length (n_children n) /\ Forall (fins G st) (n_children n).

  Lemma copy_loop : forall cnt G st,
    WF G st -> memoinv d G st ->
    nth_error G sc = Some esc -> nth_error G rb = Some (type_entry tb) -> fins G st rb ->
    cnt <= List.length (rkids r) ->
    filled G st (List.length B - cnt + List.length Q) ->
    exists st' G',
      inherit_loop u b sc rb cnt st = ROk st' /\ trans (S d) d G st G' st' /\
      filled G' st' (List.length B + List.length Q) /\ memo st' = memo st.
  Proof.
    induction cnt as [|i IH]; intros G st Hw Hm Hsc Hrb Hfrb Hcnt Hfill.
    { exists st, G. split; [reflexivity|]. split; [apply trans_refl; auto|]. split; [|reflexivity].
      destruct Hfill as (n & Hg & Hl & Hf). exists n. repeat split; auto. lia. }
    (* the base and its property number i *)
    destruct Hfrb as [hr Hfr]. destruct hr as [|hr]; [destruct Hfr|].
    destruct Hfr as (rbn & Hgrb & Hfullrb & Hfinrb).
    destruct (wf_entry _ _ _ _ _ _ _ Hw Hgrb) as (erb & Herb & Hokrb).
    assert (erb = type_entry tb) by congruence. subst erb.
    assert (Hch := full_children _ _ _ _ _ _ _ Hokrb Hrb Hfullrb Hr).
    assert (HlenB : List.length B = List.length (rkids r)) by (unfold B; apply map_length).
    assert (Hlenrb : List.length (n_children rbn) = List.length (rkids r)) by (eapply Forall2_length'; eauto).
    destruct (nth_error (rkids r) i) as [y|] eqn:Ey; [|apply nth_error_None in Ey; lia].
    destruct (Forall2_nth_r _ _ _ _ _ Hch Ey) as (v & Hv & (ev & Hnv & Htv)).
    destruct (wf_get _ _ _ _ _ _ _ Hw Hnv) as (vn & Hgv & Hokv).
    destruct (rtree_ok_object_keys r Hrok Hrobj) as (lr & Hkr & _).
    assert (Hky : exists k, rkey y = Some k).
    { assert (Hm1 : nth_error (map rkey (rkids r)) i = Some (rkey y)) by (apply map_nth_error; exact Ey).
      rewrite Hkr in Hm1. destruct (nth_error lr i) as [k|] eqn:Ek.
      - rewrite (map_nth_error Some i lr Ek) in Hm1. exists k. congruence.
      - apply nth_error_None in Ek. assert (Hn : nth_error (map Some lr) i = None) by (apply nth_error_None; rewrite map_length; exact Ek).
        congruence. }
    destruct Hky as (k & Hky).
    assert (Hkv : n_key vn = Some k).
    { rewrite (no_key _ _ _ _ _ Hokv). destruct (tg_shape _ _ _ _ Htv) as (Hk' & _). congruence. }
    (* the object that is being filled *)
    destruct Hfill as (scn & Hgsc & Hlfill & Hfsc).
    destruct (wf_entry _ _ _ _ _ _ _ Hw Hgsc) as (esc' & Hesc' & Hoksc).
    assert (esc' = esc) by congruence. subst esc'.
    destruct (no_kids _ _ _ _ _ Hoksc) as (x' & pre & s & Hx' & _ & Hs & Hlenk & HFsc).
    assert (x' = x) by congruence. subst x'.
    destruct (children_nodes G st _ _ Hw HFsc) as (Cs & HCs & Hcar).
    destruct (rtree_ok_object_keys x Hxok Hxobj) as (lx & Hkx & Hndx).
    assert (Hnd : NoDup (map rkey (pre ++ s))).
    { rewrite <- Hs, Hkx. apply NoDup_map_Some. exact Hndx. }
    rewrite map_app in Hnd. destruct (NoDup_app_disj _ _ Hnd) as (_ & Hnds & Hdisj).
    assert (Hkeyed : Forall keyed Cs).
    { apply (carries_keyed Cs s Hcar). intros y0 Hy0. apply (keys_all_some (rkids x) lx); auto.
      rewrite Hs. apply in_or_app. right. exact Hy0. }
    assert (Hz : nth_error (rkids x) (List.length P + i) = Some (mark b y)).
    { rewrite HX. apply nth_error_app_mid. apply map_nth_error. exact Ey. }
    assert (Hkz : rkey (mark b y) = Some k) by (rewrite rkey_mark; exact Hky).
    assert (HlenX : List.length pre + List.length s = List.length P + List.length B + List.length Q).
    { rewrite <- app_length, <- Hs, HX. unfold B. rewrite !app_length. lia. }
    assert (Hls : List.length (n_children scn) = List.length s) by (eapply Forall2_length'; eauto).
    cbn [inherit_loop].
    destruct (Nat.le_gt_cases (List.length pre) (List.length P + i)) as [Hin|Hout].
    - (* the property is already there, inherited *)
      rewrite Hs in Hz. rewrite nth_error_app2 in Hz; [|exact Hin].
      destruct (fwk_at k Cs s _ _ Hcar Hnds Hz Hkz) as (cn & Hfw & Hinh).
      rewrite (inherit_step_found u b sc rb st i rbn v vn k scn Cs cn); auto.
      2:{ rewrite Hinh, rinh_mark. exact Hb_ne. }
      cbn [rbind]. apply (IH G st); auto.
      + exists (S hr), rbn. auto.
      + lia.
      + exists scn. repeat split; auto. lia.
    - (* it is not: the copy *)
      rewrite Hs in Hz. rewrite nth_error_app1 in Hz; [|exact Hout].
      assert (Hpre : List.length pre = S (List.length P + i)) by lia.
      assert (Hfw : first_with_key k Cs = None).
      { apply (fwk_absent k Cs s Hcar). intros Hins. apply (Hdisj (Some k)); auto.
        rewrite <- Hkz. apply in_map. eapply nth_error_In; eauto. }
      destruct (inherit_step_push u b sc rb st i rbn v vn k scn Cs Hgrb Hv Hgv Hkv Hgsc HCs Hkeyed Hfw)
        as (st1 & Hg1 & Hh1 & Hm1 & Hstep).
      rewrite Hstep. cbn [rbind].
      set (st2 := push_copy st1 sc scn (set_inh b vn)).
      set (ev2 := copy_entry b ev).
      set (G2 := G ++ [ev2]).
      assert (Hgsc1 : get st1 sc = Some scn) by (rewrite Hg1; exact Hgsc).
      assert (Hnew : List.length (heap st1) = List.length G) by (rewrite Hh1; symmetry; exact (wf_len _ _ _ _ _ Hw)).
      assert (HP2 : prefix G G2) by apply prefix_app.
      assert (Hnew2 : nth_error G2 (List.length G) = Some ev2).
      { unfold G2. rewrite nth_error_app2; [|lia]. rewrite Nat.sub_diag. reflexivity. }
      assert (Hg2sc : get st2 sc = Some (set_children scn (List.length G :: n_children scn))).
      { unfold st2. rewrite <- Hnew. apply push_copy_get_sc. exact Hgsc1. }
      assert (Hg2new : get st2 (List.length G) = Some (set_inh b vn)).
      { unfold st2. rewrite <- Hnew. apply push_copy_get_new. exact Hgsc1. }
      assert (Hg2other : forall j n, j <> sc -> get st j = Some n -> get st2 j = Some n).
      { intros j n Hne Hg. unfold st2. apply push_copy_get_other; auto. rewrite Hg1. exact Hg. }
      assert (Hnotfull : ~ full G sc scn).
      { intros (e' & x' & He' & Hx'' & Hlen'). assert (e' = esc) by congruence. subst e'.
        assert (x' = x) by congruence. subst x'. rewrite Hs, app_length in Hlen'. lia. }
      assert (Hkeeps : keeps G st st2).
      { intros j n Hg Hf. apply Hg2other; auto. intros ->. rewrite Hgsc in Hg. injection Hg as <-. contradiction. }
      assert (Htz : tg ev2 = Some (mark b y)) by (apply tg_copy; exact Htv).
      (* the typing of the new heap *)
      assert (Hoknew : node_ok G2 ev2 (set_inh b vn)).
      { eapply node_ok_ext; [exact HP2|]. apply node_ok_copy. exact Hokv. }
      assert (Hoksc2 : node_ok G2 esc (set_children scn (List.length G :: n_children scn))).
      { destruct Hoksc as [Hk0 Ht0 Ha0 Hi0 Ho0 _ Hl0]. split; simpl; auto.
        - exists x, (firstn (List.length P + i) pre), (mark b y :: s).
          split; [exact Hx|]. split; [exact Hxok|]. split; [|split].
          + rewrite Hs. rewrite (last_split pre _ _ Hz Hpre) at 1. rewrite <- app_assoc. reflexivity.
          + simpl. lia.
          + constructor.
            * exists ev2. split; assumption.
            * eapply Forall2_impl'; [|exact HFsc]. intros c y0. apply child_ok_ext. exact HP2.
        - intros d' c ec Hd' [<-|Hc] Hnc.
          + assert (ec = ev2) by congruence. subst ec. unfold ev2. rewrite spd_copy.
            specialize (Hlvlb d' Hd'). destruct d' as [|d'']; [exfalso; apply Hlvlb; reflexivity|].
            apply (spd_le tys d'' (S d'')); [lia|].
            apply (no_lvl _ _ _ _ _ Hokrb d'' v ev); auto. eapply nth_error_In; eauto.
          + destruct (In_nth_error _ _ Hc) as (q & Hq).
            destruct (Forall2_nth_l _ _ _ _ _ HFsc Hq) as (y0 & _ & (ec0 & Hn0 & _)).
            assert (nth_error G2 c = Some ec0) by (eapply prefix_nth; eauto).
            assert (ec0 = ec) by congruence. subst ec0. eapply Hl0; eauto. }
      assert (Hw2 : WF G2 st2).
      { split.
        - unfold G2, st2. rewrite app_length, push_copy_length, Hh1, (wf_len _ _ _ _ _ Hw). simpl. lia.
        - intros j n Hg. destruct (Nat.eq_dec j sc) as [->|Hne].
          + rewrite Hg2sc in Hg. injection Hg as <-. exists esc. split; [eapply prefix_nth; eauto|exact Hoksc2].
          + destruct (Nat.lt_ge_cases j (List.length G)) as [Hlt|Hge].
            * destruct (get st j) as [n0|] eqn:E0.
              2:{ apply nth_error_None in E0. rewrite <- (wf_len _ _ _ _ _ Hw) in E0. lia. }
              rewrite (Hg2other j n0 Hne E0) in Hg. injection Hg as <-.
              destruct (wf_entry _ _ _ _ _ _ _ Hw E0) as (e0 & Hn0 & Hok0).
              exists e0. split; [eapply prefix_nth; eauto|eapply node_ok_ext; eauto].
            * assert (j = List.length G).
              { apply get_lt in Hg. unfold st2 in Hg. rewrite push_copy_length, Hnew in Hg. lia. }
              subst j. rewrite Hg2new in Hg. injection Hg as <-. exists ev2. split; assumption.
        - intros b0 rb0 Hl0. destruct (wf_types _ _ _ _ _ Hw b0 rb0 Hl0) as (tb0 & Hl1 & Hn0).
          exists tb0. split; auto. eapply prefix_nth; eauto. }
      assert (Htr : trans (S d) d G st G2 st2).
      { split; auto.
        - intros j e n Hn Hd Hg. apply Hg2other; auto. intros ->. assert (e = esc) by congruence. subst e. contradiction.
        - intros b0 tb0 rb0 Hin Hl0 Hl1 Hd0. eapply fins_step; [exact HP2|exact Hkeeps|].
          apply (Hm b0 tb0 rb0); auto. unfold st2 in Hin. rewrite push_copy_memo, Hm1 in Hin. exact Hin.
        - intros b0 Hin. left. unfold st2 in Hin. rewrite push_copy_memo, Hm1 in Hin. exact Hin. }
      (* the copy is completed, because v was *)
      assert (Hfinnew : fins G2 st2 (List.length G)).
      { rewrite Forall_forall in Hfinrb. assert (Hfv := Hfinrb v (nth_error_In _ _ Hv)).
        destruct hr as [|hv]; [destruct Hfv|]. destruct Hfv as (vn' & Hgv' & Hfullv & Hfcv).
        assert (vn' = vn) by congruence. subst vn'.
        exists (S hv), (set_inh b vn). split; [exact Hg2new|]. split.
        - destruct Hfullv as (e' & y' & He' & Hy' & Hlen'). assert (e' = ev) by congruence. subst e'.
          assert (y' = y) by congruence. subst y'.
          exists ev2, (mark b y). repeat split; auto. rewrite rkids_mark. exact Hlen'.
        - simpl. eapply Forall_impl; [|exact Hfcv]. intros c. apply fin_step; auto. }
      destruct (IH G2 st2) as (st' & G' & Hrun & Htr' & Hfill' & Hmemo'); auto.
      + exact (tr_minv _ _ _ _ _ _ _ _ _ Htr).
      + eapply prefix_nth; eauto.
      + eapply prefix_nth; eauto.
      + eapply fins_step; [exact HP2|exact Hkeeps|]. exists (S hr), rbn. auto.
      + lia.
      + exists (set_children scn (List.length G :: n_children scn)). split; [exact Hg2sc|]. split.
        * simpl. lia.
        * simpl. constructor; [exact Hfinnew|].
          eapply Forall_impl; [|exact Hfsc]. intros c. apply fins_step; auto.
      + exists st', G'. split; [exact Hrun|]. split; [eapply trans_trans; eauto|]. split; [exact Hfill'|].
        rewrite Hmemo'. unfold st2. rewrite push_copy_memo. exact Hm1.
  Qed.
End Loop.
