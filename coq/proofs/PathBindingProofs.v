(* C13 — binding of path parameters to the properties of Path directives: proofs about
   model/Catalog.v collect_paths / collect_paths_all, bind_one / bind_all, path_vars_of,
   set_pathvars and build.

   [pnodes_all post] lists the nodes collectPaths visits (pre-order, MACRO subtrees skipped), each
   with its ancestors and the flag "an earlier sibling is a Path directive"; collect_paths_all is
   the fold of [cp_node] over that list (collect_paths_all_run).  [path_decl] says what one Path
   node contributes; [declares] is the declarative reading of the property: some Path directive
   of the project has the prefix among its path's parameters with a property of that name. *)
From Coq Require Import List NArith Bool String Lia.
From JV.lib Require Import Bytes.
From JV.gen Require Import DirectiveTables TagName.
From JV.model Require Import ScannerSem Core Description PathParams TagTitle Catalog.
From JV.proofs Require Import PathParamsProofs StaticChecksProofs.
Import ListNotations.
Open Scope N_scope.

Definition pnode : Set := (dtree * list dtree * bool)%type.
Definition pn_tree (x : pnode) : dtree := fst (fst x).
Definition pn_anc (x : pnode) : list dtree := snd (fst x).
Definition pn_dup (x : pnode) : bool := snd x.
Definition pn_dir (x : pnode) : directive := tree_dir (pn_tree x).
Definition is_path_node (x : pnode) : bool := kind_eqb (d_kind (pn_dir x)) KPath.
Definition is_path_tree (t : dtree) : bool := kind_eqb (d_kind (tree_dir t)) KPath.

Fixpoint pnodes (t : dtree) (anc : list dtree) (dup : bool) {struct t} : list pnode :=
  if kind_eqb (d_kind (tree_dir t)) KMacro then []
  else (t, anc, dup) ::
       (fix go (ks : list dtree) (seen : bool) : list pnode :=
          match ks with [] => [] | k :: r => pnodes k (t :: anc) seen ++ go r (seen || is_path_tree k) end)
         (tree_kids t) false.

Fixpoint pkids (T : dtree) (anc : list dtree) (ks : list dtree) (seen : bool) : list pnode :=
  match ks with [] => [] | k :: r => pnodes k (T :: anc) seen ++ pkids T anc r (seen || is_path_tree k) end.

Lemma pnodes_eq t anc dup :
  pnodes t anc dup = if kind_eqb (d_kind (tree_dir t)) KMacro then [] else (t, anc, dup) :: pkids t anc (tree_kids t) false.
Proof.
  destruct t as [d kids]. cbn [pnodes tree_dir tree_kids]. destruct (kind_eqb (d_kind d) KMacro); [reflexivity|].
  f_equal. generalize (DNode d kids) as T. intros T. generalize false.
  induction kids as [|k r IH]; intros s; [reflexivity|]. cbn [pkids]. now rewrite <- IH.
Qed.

Definition pnodes_all (ts : list dtree) : list pnode := flat_map (fun t => pnodes t [] false) ts.

Section Collect.
  Variable pp : coords -> option (list bytes).

  (* the body of collect_paths for one node *)
  Definition cp_node (x : pnode) (acc : list rawpv) : cres (list rawpv) :=
    let d := pn_dir x in
    if kind_eqb (d_kind d) KPath then
      if negb (beq (d_annot d) []) then kerr d "annotation is forbidden"
      else match d_body d with
      | None => kerr d "there is no body for the Path directive"
      | Some bc =>
        match path_of d (pn_anc x) with
        | PathNotFound => kerr d "path not found"
        | PathIncorrect => kerr d "incorrect path"
        | PathOk p =>
          match path_parameters_checked p with
          | GPanic w => CPanic w
          | GOk PEmptyParam => kerr d "incorrect empty PATH parameter"
          | GOk (PDup _) => kerr d "parameter is duplicated in the path"
          | GOk (POk ps) =>
            match parent_dir (pn_anc x) with
            | None => kerr d "parent directive not found"
            | Some par =>
              if pn_dup x then kerr d "not a unique directive"
              else match pp bc with
                   | None => kerr d "library"
                   | Some props => COk (acc ++ [{| pv_dir := d; pv_parent := d_kw par; pv_params := ps; pv_props := props |}])
                   end
            end
          end
        end
      end
    else COk acc.

  Fixpoint cp_run (l : list pnode) (acc : list rawpv) : cres (list rawpv) :=
    match l with [] => COk acc | x :: r => cp_node x acc >>=c cp_run r end.

  Lemma cp_run_app l1 l2 acc : cp_run (l1 ++ l2) acc = cp_run l1 acc >>=c cp_run l2.
  Proof.
    revert acc. induction l1 as [|x l1 IH]; intros acc; [reflexivity|].
    cbn [app cp_run]. rewrite cbind_assoc. destruct (cp_node x acc); simpl; auto.
  Qed.

  Lemma collect_paths_run t : forall anc dup acc, collect_paths pp t anc dup acc = cp_run (pnodes t anc dup) acc.
  Proof.
    apply (dtree_ind' (fun t => forall anc dup acc, collect_paths pp t anc dup acc = cp_run (pnodes t anc dup) acc)).
    intros d kids IH anc dup acc. rewrite pnodes_eq. cbn [collect_paths tree_dir tree_kids].
    destruct (kind_eqb (d_kind d) KMacro); [reflexivity|].
    cbn [cp_run]. unfold cp_node at 1. unfold pn_dir, pn_tree, pn_anc, pn_dup. cbn [fst snd tree_dir].
    match goal with |- ?a >>=c _ = ?b >>=c _ => replace b with a by reflexivity; destruct a as [acc1| | |]; simpl; try reflexivity end.
    generalize (DNode d kids) as T. intros T. generalize false as seen. revert acc1.
    induction IH as [|k r Hk _ IHr]; intros acc1 seen; [reflexivity|].
    cbn [pkids]. rewrite cp_run_app, Hk. destruct (cp_run (pnodes k (T :: anc) seen) acc1); simpl; auto.
  Qed.

  Lemma collect_paths_all_run ts acc : collect_paths_all pp ts acc = cp_run (pnodes_all ts) acc.
  Proof.
    revert acc. induction ts as [|t r IH]; intros acc; [reflexivity|].
    cbn [collect_paths_all pnodes_all flat_map]. rewrite cp_run_app, collect_paths_run.
    destruct (cp_run (pnodes t [] false) acc); simpl; auto.
  Qed.

  (* what an accepted Path node contributes *)
  Definition path_decl (x : pnode) (v : rawpv) : Prop :=
    exists p bc par props,
      d_annot (pn_dir x) = [] /\ d_body (pn_dir x) = Some bc /\ path_of (pn_dir x) (pn_anc x) = PathOk p /\
      path_parameters_checked p = GOk (POk (params_of p)) /\ parent_dir (pn_anc x) = Some par /\
      pn_dup x = false /\ pp bc = Some props /\
      v = {| pv_dir := pn_dir x; pv_parent := d_kw par; pv_params := params_of p; pv_props := props |}.

  Lemma cp_node_ok x acc acc' :
    cp_node x acc = COk acc' ->
    (is_path_node x = false /\ acc' = acc) \/ (is_path_node x = true /\ exists v, acc' = acc ++ [v] /\ path_decl x v).
  Proof.
    unfold cp_node, is_path_node. destruct (kind_eqb (d_kind (pn_dir x)) KPath); [|intros H; injection H as <-; auto].
    destruct (negb (beq (d_annot (pn_dir x)) [])) eqn:Ea; [discriminate|].
    destruct (d_body (pn_dir x)) as [bc|] eqn:Eb; [|discriminate].
    destruct (path_of (pn_dir x) (pn_anc x)) as [p| |] eqn:Ep; try discriminate.
    destruct (path_parameters_checked p) as [[ps| |n]|w] eqn:Ec; try discriminate.
    destruct (parent_dir (pn_anc x)) as [par|] eqn:Epar; [|discriminate].
    destruct (pn_dup x) eqn:Ed; [discriminate|].
    destruct (pp bc) as [props|] eqn:Epp; [|discriminate].
    intros H. injection H as <-. right. split; [reflexivity|]. eexists. split; [reflexivity|].
    pose proof (proj1 (checked_ok_lemma p ps) Ec) as [-> _].
    exists p, bc, par, props. apply negb_false_iff, beq_eq in Ea. repeat split; auto.
  Qed.

  Lemma cp_run_spec l : forall acc acc',
    cp_run l acc = COk acc' -> exists new, acc' = acc ++ new /\ Forall2 path_decl (filter is_path_node l) new.
  Proof.
    induction l as [|x l IH]; intros acc acc' H.
    - injection H as <-. exists []. split; [now rewrite app_nil_r | constructor].
    - cbn [cp_run] in H. apply cbind_ok in H as (a1 & H1 & H2). destruct (IH _ _ H2) as (new & -> & HF).
      destruct (cp_node_ok _ _ _ H1) as [[Hp ->] | (Hp & v & -> & Hd)]; cbn [filter]; rewrite Hp.
      + exists new. auto.
      + exists (v :: new). split; [now rewrite <- app_assoc | constructor; assumption].
  Qed.

  Lemma collect_paths_all_spec post pvs :
    collect_paths_all pp post [] = COk pvs -> Forall2 path_decl (filter is_path_node (pnodes_all post)) pvs.
  Proof. rewrite collect_paths_all_run. intros H. apply cp_run_spec in H as (new & -> & HF). exact HF. Qed.
End Collect.

(* ---- shape of pnodes ---- *)
Lemma pkids_in T anc ks : forall seen x, In x (pkids T anc ks seen) ->
  exists k s, In k ks /\ In x (pnodes k (T :: anc) s) /\ incl (pnodes k (T :: anc) s) (pkids T anc ks seen).
Proof.
  induction ks as [|k r IH]; intros seen x Hin; [destruct Hin|]. cbn [pkids] in *.
  apply in_app_or in Hin as [Hin|Hin].
  - exists k, seen. split; [left; reflexivity|]. split; [exact Hin|]. intros y Hy. apply in_or_app. now left.
  - destruct (IH _ _ Hin) as (k' & s & Hk & Hx & Hi). exists k', s. split; [right; exact Hk|]. split; [exact Hx|].
    intros y Hy. apply in_or_app. right. exact (Hi y Hy).
Qed.

(* the children of a visited node are visited *)
Lemma pnodes_sub t0 : forall a0 d0 x, In x (pnodes t0 a0 d0) ->
  incl (pkids (pn_tree x) (pn_anc x) (tree_kids (pn_tree x)) false) (pnodes t0 a0 d0).
Proof.
  apply (dtree_ind' (fun t0 => forall a0 d0 x, In x (pnodes t0 a0 d0) ->
     incl (pkids (pn_tree x) (pn_anc x) (tree_kids (pn_tree x)) false) (pnodes t0 a0 d0))).
  intros d kids IH a0 d0 x Hin. rewrite pnodes_eq in *. cbn [tree_dir tree_kids] in *.
  destruct (kind_eqb (d_kind d) KMacro); [destruct Hin|]. destruct Hin as [<-|Hin].
  - unfold pn_tree, pn_anc. cbn [fst snd tree_kids]. intros y Hy. right. exact Hy.
  - destruct (pkids_in _ _ _ _ _ Hin) as (k & s & Hk & Hx & Hi).
    rewrite Forall_forall in IH. specialize (IH k Hk _ _ _ Hx).
    intros y Hy. right. apply Hi. apply IH. exact Hy.
Qed.

Lemma pnodes_all_sub post x : In x (pnodes_all post) ->
  incl (pkids (pn_tree x) (pn_anc x) (tree_kids (pn_tree x)) false) (pnodes_all post).
Proof.
  unfold pnodes_all. intros Hin. apply in_flat_map in Hin as (t & Ht & Hx).
  intros y Hy. apply in_flat_map. exists t. split; [exact Ht | exact (pnodes_sub _ _ _ _ Hx y Hy)].
Qed.

(* a second Path among the children of one node carries the flag *)
Lemma pkids_second_path T anc k1 P1 k2 P2 k3 : forall seen,
  is_path_tree P1 = true -> is_path_tree P2 = true ->
  In (P2, T :: anc, true) (pkids T anc (k1 ++ P1 :: k2 ++ P2 :: k3) seen).
Proof.
  intros seen H1 H2. revert seen.
  assert (Hb : forall k2, In (P2, T :: anc, true) (pkids T anc (k2 ++ P2 :: k3) true)).
  { clear k2. intros k2. induction k2 as [|k r IH]; cbn [app pkids].
    - apply in_or_app. left. rewrite pnodes_eq.
      unfold is_path_tree in H2. apply sc_kind_eqb_eq in H2. rewrite H2. cbn [kind_eqb kind_idx N.eqb Pos.eqb]. left. reflexivity.
    - apply in_or_app. right. cbn [orb]. exact IH. }
  induction k1 as [|k r IH]; intros seen; cbn [app pkids].
  - apply in_or_app. right. rewrite H1, orb_true_r. apply Hb.
  - apply in_or_app. right. apply IH.
Qed.

(* every visited node is a node of the forest *)
Lemma pnodes_preorder t0 : forall a0 d0 x, In x (pnodes t0 a0 d0) -> In (pn_tree x, pn_anc x) (preorder t0 a0).
Proof.
  apply (dtree_ind' (fun t0 => forall a0 d0 x, In x (pnodes t0 a0 d0) -> In (pn_tree x, pn_anc x) (preorder t0 a0))).
  intros d kids IH a0 d0 x Hin. rewrite pnodes_eq in Hin. rewrite preorder_eq. cbn [tree_dir tree_kids] in *.
  destruct (kind_eqb (d_kind d) KMacro); [destruct Hin|]. destruct Hin as [<-|Hin]; [left; reflexivity|].
  right. destruct (pkids_in _ _ _ _ _ Hin) as (k & s & Hk & Hx & _).
  rewrite Forall_forall in IH. unfold preorder_kids. apply in_flat_map. exists k. split; [exact Hk | exact (IH k Hk _ _ _ Hx)].
Qed.

Lemma pnodes_all_preorder post x : In x (pnodes_all post) -> In (pn_tree x, pn_anc x) (preorder_all post).
Proof.
  unfold pnodes_all, preorder_all. intros Hin. apply in_flat_map in Hin as (t & Ht & Hx).
  apply in_flat_map. exists t. split; [exact Ht | exact (pnodes_preorder _ _ _ _ Hx)].
Qed.

(* ------------------------------------------------------------------------------------------ *)
(* bind_one / bind_all                                                                          *)
(* ------------------------------------------------------------------------------------------ *)
Lemma mem_iff n l : existsb (beq n) l = true <-> In n l.
Proof.
  rewrite existsb_exists. split.
  - intros (x & Hin & E). apply beq_eq in E. now subst.
  - intros H. exists n. split; [exact H | apply beq_refl].
Qed.

Lemma in_filter_ne n m l : n <> m -> (In n (filter (fun x => negb (beq x m)) l) <-> In n l).
Proof.
  intros Hne. rewrite filter_In. split; [tauto|]. intros H. split; [exact H|].
  apply negb_true_iff. now apply sc_beq_false.
Qed.

Lemma bind_one_has params : forall props all d r,
  NoDup (map snd params) -> bind_one params props all d = COk r ->
  forall prefix, om_has beq (snd r) prefix = true <->
                 (om_has beq all prefix = true \/ exists name, In (prefix, name) params /\ In name props).
Proof.
  induction params as [|[pf nm] rest IH]; intros props all d r Hnd H prefix; cbn [bind_one] in H.
  - injection H as <-. cbn [snd]. split; [auto | intros [H|(n & [] & _)]; exact H].
  - cbn [map snd] in Hnd. inversion Hnd as [|? ? Hnin Hnd']; subst.
    destruct (existsb (beq nm) props) eqn:Em.
    + destruct (om_has beq all pf) eqn:Eh; [discriminate|].
      rewrite (IH _ _ _ _ Hnd' H prefix). rewrite om_has_app. split.
      * intros [Hh | (name & Hin & Hp)].
        -- apply orb_true_iff in Hh as [Hh|Hh]; [left; exact Hh|]. right.
           unfold om_has in Hh. cbn [existsb fst] in Hh. rewrite orb_false_r in Hh. apply beq_eq in Hh. subst prefix.
           exists nm. split; [left; reflexivity | now apply mem_iff].
        -- right. exists name. split; [right; exact Hin|]. apply filter_In in Hp. tauto.
      * intros [Hh | (name & [E|Hin] & Hp)].
        -- left. now rewrite Hh.
        -- injection E as <- <-. left. unfold om_has at 2. cbn [existsb fst]. rewrite beq_refl. apply orb_true_r.
        -- right. exists name. split; [exact Hin|]. apply in_filter_ne; [|exact Hp].
           intros ->. apply Hnin. apply in_map_iff. exists (prefix, nm). auto.
    + rewrite (IH _ _ _ _ Hnd' H prefix). split.
      * intros [Hh | (name & Hin & Hp)]; [left; exact Hh | right; exists name; split; [right; exact Hin | exact Hp]].
      * intros [Hh | (name & [E|Hin] & Hp)]; [left; exact Hh | | right; exists name; auto].
        injection E as <- <-. apply mem_iff in Hp. congruence.
Qed.

Lemma bind_one_left params : forall props all d r n,
  bind_one params props all d = COk r -> In n props -> ~ In n (map snd params) -> In n (fst r).
Proof.
  induction params as [|[pf nm] rest IH]; intros props all d r n H Hin Hnot; cbn [bind_one] in H.
  - injection H as <-. exact Hin.
  - cbn [map snd] in Hnot. destruct (existsb (beq nm) props).
    + destruct (om_has beq all pf); [discriminate|]. apply (IH _ _ _ _ _ H); [|intros X; apply Hnot; right; exact X].
      apply in_filter_ne; [|exact Hin]. intros ->. apply Hnot. now left.
    + apply (IH _ _ _ _ _ H Hin). intros X; apply Hnot; right; exact X.
Qed.

Lemma bind_one_dup params : forall props all d pf nm,
  NoDup (map snd params) -> In (pf, nm) params -> In nm props -> om_has beq all pf = true ->
  not_ok (bind_one params props all d).
Proof.
  induction params as [|[pf0 nm0] rest IH]; intros props all d pf nm Hnd Hin Hp Hh r; [destruct Hin|].
  cbn [map snd] in Hnd. inversion Hnd as [|? ? Hnin Hnd']; subst. cbn [bind_one].
  destruct Hin as [E|Hin].
  - injection E as -> ->. rewrite (proj2 (mem_iff nm props) Hp), Hh. discriminate.
  - assert (Hne : nm <> nm0).
    { intros ->. apply Hnin. apply in_map_iff. exists (pf, nm0). auto. }
    destruct (existsb (beq nm0) props).
    + destruct (om_has beq all pf0); [discriminate|].
      apply (IH _ _ _ pf nm Hnd' Hin); [now apply in_filter_ne | now apply om_has_mono_app].
    + exact (IH _ _ _ pf nm Hnd' Hin Hp Hh r).
Qed.

Definition pv_wf (v : rawpv) : Prop := NoDup (map snd (pv_params v)).
Definition pv_declares (v : rawpv) (prefix name : bytes) : Prop := In (prefix, name) (pv_params v) /\ In name (pv_props v).

Lemma bind_all_has pvs : forall all r,
  Forall pv_wf pvs -> bind_all pvs all = COk r ->
  forall prefix, om_has beq r prefix = true <->
                 (om_has beq all prefix = true \/ exists v name, In v pvs /\ pv_declares v prefix name).
Proof.
  induction pvs as [|v pvs IH]; intros all r Hwf H prefix; cbn [bind_all] in H.
  - injection H as <-. split; [auto | intros [H|(v & n & [] & _)]; exact H].
  - inversion Hwf as [|? ? Hv Hwf']; subst. apply cbind_ok in H as (x & Hx & H).
    destruct (fst x) eqn:Ef; [|discriminate].
    rewrite (IH _ _ Hwf' H prefix), (bind_one_has _ _ _ _ _ Hv Hx prefix). split.
    + intros [[Hh | (name & Hin & Hp)] | (v' & name & Hin & Hd)].
      * left. exact Hh.
      * right. exists v, name. split; [left; reflexivity | split; assumption].
      * right. exists v', name. split; [right; exact Hin | exact Hd].
    + intros [Hh | (v' & name & [<-|Hin] & Hd)].
      * left. left. exact Hh.
      * left. right. exists name. exact Hd.
      * right. exists v', name. auto.
Qed.

Lemma bind_all_unused pvs : forall all v n,
  In v pvs -> In n (pv_props v) -> ~ In n (map snd (pv_params v)) -> not_ok (bind_all pvs all).
Proof.
  induction pvs as [|v0 pvs IH]; intros all v n Hin Hp Hnot r; [destruct Hin|]. cbn [bind_all].
  intros H. apply cbind_ok in H as (x & Hx & H). destruct Hin as [->|Hin].
  - pose proof (bind_one_left _ _ _ _ _ n Hx Hp Hnot) as Hl. destruct (fst x); [destruct Hl | discriminate].
  - destruct (fst x); [|discriminate]. exact (IH _ _ _ Hin Hp Hnot _ H).
Qed.

Lemma bind_all_dup l1 v1 l2 v2 l3 all pf n1 n2 :
  Forall pv_wf (l1 ++ v1 :: l2 ++ v2 :: l3) -> pv_declares v1 pf n1 -> pv_declares v2 pf n2 ->
  not_ok (bind_all (l1 ++ v1 :: l2 ++ v2 :: l3) all).
Proof.
  intros Hwf D1 [I2 P2]. revert all.
  assert (Hb : forall l all, Forall pv_wf (l ++ v2 :: l3) -> om_has beq all pf = true -> not_ok (bind_all (l ++ v2 :: l3) all)).
  { induction l as [|v l IH]; intros all Hw Hh r; cbn [app bind_all]; intros H; apply cbind_ok in H as (x & Hx & H);
      inversion Hw as [|? ? Hv Hw']; subst.
    - exact (bind_one_dup _ _ _ _ _ _ Hv I2 P2 Hh _ Hx).
    - destruct (fst x); [|discriminate]. refine (IH _ Hw' _ _ H).
      apply (bind_one_has _ _ _ _ _ Hv Hx pf). now left. }
  induction l1 as [|v l1 IH]; intros all r; cbn [app bind_all]; intros H; apply cbind_ok in H as (x & Hx & H);
    cbn [app] in Hwf; inversion Hwf as [|? ? Hv Hwf']; subst.
  - destruct (fst x); [|discriminate]. refine (Hb _ _ Hwf' _ _ H).
    apply (bind_one_has _ _ _ _ _ Hv Hx pf). right. exists n1. exact D1.
  - destruct (fst x); [|discriminate]. exact (IH Hwf' _ _ H).
Qed.

(* ------------------------------------------------------------------------------------------ *)
(* C13: the theorems                                                                            *)
(* ------------------------------------------------------------------------------------------ *)
Section C13.
  Variable pp : coords -> option (list bytes).
  Variable bt : coords -> bytes.

  (* some Path directive of the project has [prefix] among the parameters of its path, named
     [name], and its body has a property of that name *)
  Definition declares (post : list dtree) (prefix name : bytes) : Prop :=
    exists x p bc props,
      In x (pnodes_all post) /\ d_kind (pn_dir x) = KPath /\ d_body (pn_dir x) = Some bc /\ pp bc = Some props /\
      path_of (pn_dir x) (pn_anc x) = PathOk p /\ In (prefix, name) (params_of p) /\ In name props.

  Lemma path_decl_wf x v : path_decl pp x v -> pv_wf v.
  Proof.
    intros (p & bc & par & props & _ & _ & _ & Hc & _ & _ & _ & ->). unfold pv_wf. cbn [pv_params].
    apply checked_ok_lemma in Hc as (_ & _ & Hnd). exact Hnd.
  Qed.

  Lemma Forall2_in_l {A B} (P : A -> B -> Prop) l l' x : Forall2 P l l' -> In x l -> exists y, In y l' /\ P x y.
  Proof.
    induction 1 as [|a b l l' Hab _ IH]; intros Hin; [destruct Hin|]. destruct Hin as [->|Hin].
    - exists b. split; [left; reflexivity | exact Hab].
    - destruct (IH Hin) as (y & Hy & Hp). exists y. split; [right; exact Hy | exact Hp].
  Qed.
  Lemma Forall2_in_r {A B} (P : A -> B -> Prop) l l' y : Forall2 P l l' -> In y l' -> exists x, In x l /\ P x y.
  Proof.
    induction 1 as [|a b l l' Hab _ IH]; intros Hin; [destruct Hin|]. destruct Hin as [->|Hin].
    - exists a. split; [left; reflexivity | exact Hab].
    - destruct (IH Hin) as (x & Hx & Hp). exists x. split; [right; exact Hx | exact Hp].
  Qed.

  Lemma pvs_wf post pvs : collect_paths_all pp post [] = COk pvs -> Forall pv_wf pvs.
  Proof.
    intros H. apply collect_paths_all_spec in H. apply Forall_forall. intros v Hv.
    destruct (Forall2_in_r _ _ _ _ H Hv) as (x & _ & Hd). exact (path_decl_wf _ _ Hd).
  Qed.

  Lemma declares_iff post pvs prefix name :
    collect_paths_all pp post [] = COk pvs ->
    ((exists v, In v pvs /\ pv_declares v prefix name) <-> declares post prefix name).
  Proof.
    intros H. apply collect_paths_all_spec in H. split.
    - intros (v & Hv & Hin & Hp). destruct (Forall2_in_r _ _ _ _ H Hv) as (x & Hx & Hd).
      apply filter_In in Hx as [Hx Hk]. destruct Hd as (p & bc & par & props & _ & Hb & Hpath & _ & _ & _ & Hpp & ->).
      cbn [pv_params pv_props] in *. exists x, p, bc, props. repeat split; auto. now apply sc_kind_eqb_eq.
    - intros (x & p & bc & props & Hx & Hk & Hb & Hpp & Hpath & Hin & Hp).
      assert (Hf : In x (filter is_path_node (pnodes_all post))) by (apply filter_In; split; [exact Hx | now apply sc_kind_eqb_eq]).
      destruct (Forall2_in_l _ _ _ _ H Hf) as (v & Hv & Hd). exists v. split; [exact Hv|].
      destruct Hd as (p' & bc' & par & props' & _ & Hb' & Hpath' & _ & _ & _ & Hpp' & ->).
      rewrite Hb in Hb'. injection Hb' as <-. rewrite Hpath in Hpath'. injection Hpath' as <-.
      rewrite Hpp in Hpp'. injection Hpp' as <-. split; assumption.
  Qed.

  Lemma validate_ok c c' : validate c = COk c' -> c' = c.
  Proof.
    unfold validate. intros H. apply cbind_ok in H as (c1 & H1 & H).
    assert (c1 = c).
    { destruct (c_info c) as [i|]; [|now injection H1].
      destruct (beq (in_title i) [] && beq (in_version i) [] && match in_desc i with Some _ => false | None => true end); [discriminate | now injection H1]. }
    subst c1. destruct (first_bad_request (c_inters c)); [discriminate|].
    destruct (first_bad_response (c_inters c)); [discriminate|]. now injection H.
  Qed.

  Lemma path_vars_of_eq all p :
    path_vars_of all p = map snd (filter (fun x => om_has beq all (fst x)) (params_of p)).
  Proof.
    unfold path_vars_of. rewrite path_parameters_spec_lemma. fold (params_of p).
    induction (params_of p) as [|x l IH]; [reflexivity|]. cbn [flat_map filter].
    destruct (om_has beq all (fst x)); cbn [map app]; now rewrite IH.
  Qed.

  Lemma set_pathvars_in c all i h :
    In (i, IHttp h) (c_inters (set_pathvars c all)) -> hi_pathvars h = path_vars_of all (i_path i).
  Proof.
    unfold set_pathvars, upd_inters. cbn [c_inters]. intros H. apply in_map_iff in H as ([k [h0|r0]] & E & _); cbn [fst snd] in E.
    - injection E as <- <-. reflexivity.
    - discriminate.
  Qed.

  (* binding_correct *)
  Lemma binding_correct_lemma post c :
    build pp bt [] post = COk c ->
    exists bound : bytes -> bool,
      (forall prefix, bound prefix = true <-> exists name, declares post prefix name) /\
      forall i h, In (i, IHttp h) (c_inters c) ->
                  hi_pathvars h = map snd (filter (fun x => bound (fst x)) (params_of (i_path i))).
  Proof.
    intros H. apply build_ok_inv in H as (en & tg & pvs & all & _ & _ & _ & Hp & Ha & Hrest).
    exists (om_has beq all). split.
    - intros prefix. rewrite (bind_all_has _ _ _ (pvs_wf _ _ Hp) Ha prefix). split.
      + intros [X | (v & name & Hv & Hd)]; [discriminate|]. exists name. apply (declares_iff _ _ _ _ Hp). eauto.
      + intros (name & Hd). right. apply (declares_iff _ _ _ _ Hp) in Hd as (v & Hv & Hd). eauto.
    - intros i h Hin. destruct Hrest as [[-> Hv] | (f & r & b & _ & _ & _ & Hv)]; apply validate_ok in Hv; subst c.
      + destruct Hin.
      + rewrite (set_pathvars_in _ _ _ _ Hin). apply path_vars_of_eq.
  Qed.

  (* the prefix determines the name: the last segment of the prefix is {name} *)
  Lemma prefix_determines_name p q prefix n m :
    In (prefix, n) (params_of p) -> In (prefix, m) (params_of q) -> n = m.
  Proof.
    intros Hp Hq.
    pose proof (proj1 (path_parameters_in_lemma p _ prefix n (path_parameters_spec_lemma p)) Hp) as (i & Hi & Ei).
    pose proof (proj1 (path_parameters_in_lemma q _ prefix m (path_parameters_spec_lemma q)) Hq) as (j & Hj & Ej).
    rewrite Ei in Ej. apply join_inj in Ej; try (apply good_firstn; apply segments_good).
    rewrite (firstn_S_nth _ _ _ Hi), (firstn_S_nth _ _ _ Hj) in Ej.
    apply (f_equal (@rev bytes)) in Ej. rewrite !rev_app_distr in Ej. cbn [rev app] in Ej.
    injection Ej as Ej _. apply app_inj_tail in Ej as [Ej _]. exact Ej.
  Qed.

  Lemma filter_all_false {A} (f : A -> bool) l : (forall x, f x = false) -> filter f l = [].
  Proof. intros H. induction l as [|x l IH]; [reflexivity|]. cbn [filter]. now rewrite H. Qed.

  Lemma no_declaration_lemma post c :
    (forall x, In x (preorder_all post) -> d_kind (ndir x) <> KPath) ->
    build pp bt [] post = COk c ->
    forall i h, In (i, IHttp h) (c_inters c) -> hi_pathvars h = [].
  Proof.
    intros Hno H i h Hin. destruct (binding_correct_lemma _ _ H) as (bound & Hb & Hv).
    rewrite (Hv i h Hin). rewrite filter_all_false; [reflexivity|].
    intros x. destruct (bound (fst x)) eqn:E; [|reflexivity]. exfalso.
    apply Hb in E as (name & y & p & bc & props & Hy & Hk & _).
    apply pnodes_all_preorder in Hy. exact (Hno _ Hy Hk).
  Qed.

  (* ---- rejections ---- *)
  Lemma build_paths_ok post c :
    build pp bt [] post = COk c ->
    exists pvs all, collect_paths_all pp post [] = COk pvs /\ bind_all pvs [] = COk all.
  Proof. intros H. apply build_ok_inv in H as (en & tg & pvs & all & _ & _ & _ & Hp & Ha & _). eauto. Qed.

  Lemma path_node_decl post pvs x :
    collect_paths_all pp post [] = COk pvs -> In x (pnodes_all post) -> d_kind (pn_dir x) = KPath ->
    exists v, In v pvs /\ path_decl pp x v.
  Proof.
    intros H Hx Hk. apply collect_paths_all_spec in H.
    apply (Forall2_in_l _ _ _ x H). apply filter_In. split; [exact Hx | now apply sc_kind_eqb_eq].
  Qed.

  (* "Has unused parameters": a property of a Path body that names no parameter of the path *)
  Lemma unmatched_property_lemma post x p bc props n :
    In x (pnodes_all post) -> d_kind (pn_dir x) = KPath -> d_body (pn_dir x) = Some bc -> pp bc = Some props ->
    path_of (pn_dir x) (pn_anc x) = PathOk p -> In n props -> ~ In n (names (params_of p)) ->
    not_ok (build pp bt [] post).
  Proof.
    intros Hx Hk Hb Hpp Hpath Hn Hnot c H. apply build_paths_ok in H as (pvs & all & Hp & Ha).
    destruct (path_node_decl _ _ _ Hp Hx Hk) as (v & Hv & (p' & bc' & par & props' & _ & Hb' & Hpath' & _ & _ & _ & Hpp' & ->)).
    rewrite Hb in Hb'. injection Hb' as <-. rewrite Hpath in Hpath'. injection Hpath' as <-.
    rewrite Hpp in Hpp'. injection Hpp' as <-.
    refine (bind_all_unused pvs [] _ n Hv _ _ _ Ha); cbn [pv_props pv_params]; assumption.
  Qed.

  (* "has already been defined earlier": two Path directives declare a parameter for one prefix *)
  Definition node_declares (x : pnode) (prefix name : bytes) : Prop :=
    exists p bc props, d_kind (pn_dir x) = KPath /\ d_body (pn_dir x) = Some bc /\ pp bc = Some props /\
                       path_of (pn_dir x) (pn_anc x) = PathOk p /\ In (prefix, name) (params_of p) /\ In name props.

  Lemma Forall2_split2 {A B} (P : A -> B -> Prop) l1 x l2 y l3 l' :
    Forall2 P (l1 ++ x :: l2 ++ y :: l3) l' ->
    exists m1 v m2 w m3, l' = m1 ++ v :: m2 ++ w :: m3 /\ P x v /\ P y w.
  Proof.
    intros H. apply Forall2_app_inv_l in H as (m1 & r1 & _ & H & ->).
    inversion H as [|? v ? r2 Hxv H2]; subst. apply Forall2_app_inv_l in H2 as (m2 & r3 & _ & H2 & ->).
    inversion H2 as [|? w ? m3 Hyw _]; subst. exists m1, v, m2, w, m3. auto.
  Qed.

  Lemma filter_occurs_before {A} (f : A -> bool) x y l :
    occurs_before x y l -> f x = true -> f y = true -> occurs_before x y (filter f l).
  Proof.
    intros (l1 & l2 & l3 & ->) Hx Hy. exists (filter f l1), (filter f l2), (filter f l3).
    rewrite filter_app. cbn [filter]. rewrite Hx, filter_app. cbn [filter]. now rewrite Hy.
  Qed.

  Lemma duplicate_prefix_lemma post x y prefix n1 n2 :
    occurs_before x y (pnodes_all post) -> node_declares x prefix n1 -> node_declares y prefix n2 ->
    not_ok (build pp bt [] post).
  Proof.
    intros Ho (p1 & bc1 & props1 & K1 & B1 & PP1 & Pa1 & I1 & N1) (p2 & bc2 & props2 & K2 & B2 & PP2 & Pa2 & I2 & N2) c H.
    apply build_paths_ok in H as (pvs & all & Hp & Ha). pose proof (pvs_wf _ _ Hp) as Hwf.
    apply collect_paths_all_spec in Hp.
    apply (filter_occurs_before is_path_node) in Ho; [|now apply sc_kind_eqb_eq|now apply sc_kind_eqb_eq].
    destruct Ho as (l1 & l2 & l3 & El). rewrite El in Hp.
    apply Forall2_split2 in Hp as (m1 & v & m2 & w & m3 & -> & Dv & Dw).
    refine (bind_all_dup m1 v m2 w m3 [] prefix n1 n2 Hwf _ _ _ Ha).
    - destruct Dv as (p' & bc' & par & props' & _ & Hb' & Hpath' & _ & _ & _ & Hpp' & ->).
      rewrite B1 in Hb'. injection Hb' as <-. rewrite Pa1 in Hpath'. injection Hpath' as <-.
      rewrite PP1 in Hpp'. injection Hpp' as <-. split; assumption.
    - destruct Dw as (p' & bc' & par & props' & _ & Hb' & Hpath' & _ & _ & _ & Hpp' & ->).
      rewrite B2 in Hb'. injection Hb' as <-. rewrite Pa2 in Hpath'. injection Hpath' as <-.
      rewrite PP2 in Hpp'. injection Hpp' as <-. split; assumption.
  Qed.

  (* an empty or repeated {name}: at every place the model calls PathParameters *)
  Definition bad_path (p : bytes) : Prop := In [] (names (params_of p)) \/ ~ NoDup (names (params_of p)).

  Lemma bad_path_not_ok p : bad_path p -> forall l, path_parameters_checked p <> GOk (POk l).
  Proof.
    intros Hb l H. apply checked_ok_lemma in H as (-> & Hne & Hnd). destruct Hb; contradiction.
  Qed.

  Lemma bad_path_url_or_method_lemma post x p :
    In x (preorder_all post) -> registers_path x p -> bad_path p -> not_ok (build pp bt [] post).
  Proof.
    intros Hin R Hb. apply (one_lemma pp bt _ _ Hin). intros b b'.
    destruct x as [t anc]. unfold registers_path, ndir, nanc in R. cbn [fst snd] in R. destruct R as [[Hk|Hm] Hp]; unfold not.
    - step_kind Hk. rewrite Hp. crack Hk. intros H. apply cbind_ok in H as (b1 & H1 & _).
      apply check_path_inv in H1 as (Hc & _). exact (bad_path_not_ok _ Hb _ Hc).
    - destruct (d_kind (tree_dir t)) eqn:Hk; try discriminate Hm.
      all: step_kind Hk; rewrite Hp; intros H; apply cbind_ok in H as (b1 & H1 & _).
      all: apply check_path_inv in H1 as (Hc & _); exact (bad_path_not_ok _ Hb _ Hc).
  Qed.

  Lemma bad_path_path_directive_lemma post x p :
    In x (pnodes_all post) -> d_kind (pn_dir x) = KPath -> path_of (pn_dir x) (pn_anc x) = PathOk p -> bad_path p ->
    not_ok (build pp bt [] post).
  Proof.
    intros Hx Hk Hpath Hb c H. apply build_paths_ok in H as (pvs & all & Hp & _).
    destruct (path_node_decl _ _ _ Hp Hx Hk) as (v & _ & (p' & bc' & par & props' & _ & _ & Hpath' & Hc & _)).
    rewrite Hpath in Hpath'. injection Hpath' as <-. exact (bad_path_not_ok _ Hb _ Hc).
  Qed.

  (* a Path body that the schema library rejects or that is not a flat object: the oracle says None *)
  Lemma path_body_not_flat_lemma post x bc :
    In x (pnodes_all post) -> d_kind (pn_dir x) = KPath -> d_body (pn_dir x) = Some bc -> pp bc = None ->
    not_ok (build pp bt [] post).
  Proof.
    intros Hx Hk Hb Hn c H. apply build_paths_ok in H as (pvs & all & Hp & _).
    destruct (path_node_decl _ _ _ Hp Hx Hk) as (v & _ & (p' & bc' & par & props' & _ & Hb' & _ & _ & _ & _ & Hpp' & _)).
    rewrite Hb in Hb'. injection Hb' as <-. congruence.
  Qed.

  Lemma path_without_body_lemma post x :
    In x (pnodes_all post) -> d_kind (pn_dir x) = KPath -> d_body (pn_dir x) = None ->
    not_ok (build pp bt [] post).
  Proof.
    intros Hx Hk Hb c H. apply build_paths_ok in H as (pvs & all & Hp & _).
    destruct (path_node_decl _ _ _ Hp Hx Hk) as (v & _ & (p' & bc' & par & props' & _ & Hb' & _)). congruence.
  Qed.

  (* C11: a second Path among the children of one directive *)
  Lemma second_path_lemma post x k1 P1 k2 P2 k3 :
    In x (pnodes_all post) -> tree_kids (pn_tree x) = k1 ++ P1 :: k2 ++ P2 :: k3 ->
    d_kind (tree_dir P1) = KPath -> d_kind (tree_dir P2) = KPath ->
    not_ok (build pp bt [] post).
  Proof.
    intros Hx Hkids K1 K2 c H. apply build_paths_ok in H as (pvs & all & Hp & _).
    pose proof (pnodes_all_sub _ _ Hx) as Hsub. rewrite Hkids in Hsub.
    assert (Hin : In (P2, pn_tree x :: pn_anc x, true) (pnodes_all post)).
    { apply Hsub. apply pkids_second_path; unfold is_path_tree; now apply sc_kind_eqb_eq. }
    destruct (path_node_decl _ _ _ Hp Hin K2) as (v & _ & (p' & bc' & par & props' & _ & _ & _ & _ & _ & Hd & _)).
    discriminate.
  Qed.
End C13.

(* ------------------------------------------------------------------------------------------ *)
(* examples (vm_compute)                                                                        *)
(* ------------------------------------------------------------------------------------------ *)
Module C13Examples.
  Import C11Examples.
  (* body at offset 1000 + k declares the properties listed for k *)
  Definition props13 (c : coords) : option (list bytes) :=
    if c_beg c =? 1001 then Some [bs "id"]
    else if c_beg c =? 1002 then Some [bs "sub"]
    else if c_beg c =? 1003 then Some [bs "id"; bs "zz"]
    else if c_beg c =? 1004 then Some [bs "id"; bs "sub"]
    else None.
  Definition go13 (f : list dtree) : cres catalog := build props13 text [] f.
  Definition J := D KJsight 0 [p "Version" "0.3"] [] None [].
  Definition ok200 (i : N) := R "200" i any [].
  Definition pathvars (r : cres catalog) : list (bytes * list bytes) :=
    match r with
    | COk c => flat_map (fun e => match snd e with IHttp h => [(iid_string (fst e), hi_pathvars h)] | _ => [] end) (c_inters c)
    | _ => []
    end.

  (* URL /a/{id}: Path {id}; GET; GET /a/{id}/b/{sub}: Path {sub}; GET /a/{id}/c ; GET /x/{q} (nothing declared) *)
  Definition f1 :=
    [J;
     D KURL 10 [p "Path" "/a/{id}"] [] None [D KPath 11 [] [] (B 1001) []; D KGet 12 [] [] None [ok200 13]];
     D KGet 20 [p "Path" "/a/{id}/b/{sub}"] [] None [D KPath 21 [] [] (B 1002) []; ok200 22];
     D KPost 30 [p "Path" "/a/{id}/c"] [] None [ok200 31];
     D KGet 40 [p "Path" "/x/{q}"] [] None [ok200 41]].
  Example ex_binding :
    pathvars (go13 f1) =
    [(bs "http GET /a/{id}", [bs "id"]); (bs "http GET /a/{id}/b/{sub}", [bs "id"; bs "sub"]);
     (bs "http POST /a/{id}/c", [bs "id"]); (bs "http GET /x/{q}", [])].
  Proof. vm_compute. reflexivity. Qed.

  (* one Path directive may declare several prefixes of its own path *)
  Example ex_binding_two_in_one :
    pathvars (go13 [J; D KGet 20 [p "Path" "/a/{id}/b/{sub}"] [] None [D KPath 21 [] [] (B 1004) []; ok200 22];
                    D KGet 30 [p "Path" "/a/{id}"] [] None [ok200 31]]) =
    [(bs "http GET /a/{id}/b/{sub}", [bs "id"; bs "sub"]); (bs "http GET /a/{id}", [bs "id"])].
  Proof. vm_compute. reflexivity. Qed.

  Example ex_unmatched_property :
    see (go13 [J; D KURL 10 [p "Path" "/a/{id}"] [] None [D KPath 100 [] [] (B 1003) []; D KGet 12 [] [] None [ok200 13]]])
    = RejectedAt 100 (msg "Has unused parameters").
  Proof. vm_compute. reflexivity. Qed.
  Example ex_duplicate_prefix :
    see (go13 [J; D KURL 10 [p "Path" "/a/{id}"] [] None [D KPath 11 [] [] (B 1001) []; D KGet 12 [] [] None [ok200 13]];
               D KGet 20 [p "Path" "/a/{id}/b/{sub}"] [] None [D KPath 100 [] [] (B 1004) []; ok200 22]])
    = RejectedAt 100 (msg "has already been defined earlier").
  Proof. vm_compute. reflexivity. Qed.
  Example ex_empty_parameter :
    see (go13 [J; D KGet 100 [p "Path" "/a/{}"] [] None [ok200 13]]) = RejectedAt 100 (msg "incorrect empty PATH parameter").
  Proof. vm_compute. reflexivity. Qed.
  Example ex_repeated_parameter :
    see (go13 [J; D KURL 100 [p "Path" "/a/{id}/{id}"] [] None []]) = RejectedAt 100 (msg "parameter is duplicated in the path").
  Proof. vm_compute. reflexivity. Qed.
  Example ex_body_not_flat :
    see (go13 [J; D KGet 10 [p "Path" "/a/{id}"] [] None [D KPath 100 [] [] (B 1999) []; ok200 13]]) = RejectedAt 100 (msg "library").
  Proof. vm_compute. reflexivity. Qed.
End C13Examples.

Lemma bad_path_iff_lemma p :
  bad_path p <-> (path_parameters_checked p = GOk PEmptyParam \/ exists n, path_parameters_checked p = GOk (PDup n)).
Proof.
  unfold bad_path. destruct (checked_trichotomy_lemma p) as [[He Hc] | [(Hne & Hnd & n & Hc) | (Hne & Hnd & Hc)]].
  - split; [intros _; left; exact Hc | intros _; left; exact He].
  - split; [intros _; right; exists n; exact Hc | intros _; right; exact Hnd].
  - split; [intros [H|H]; contradiction | intros [H|[n H]]; congruence].
Qed.
