(* C03 — proofs about the loops that range over a map (model/RangeSites.v) and the discharge, by
   computation, of the audit of the regenerated inventory (model/InventorySpec.v). *)
From Coq Require Import List NArith Bool Lia Permutation String.
From JV.lib Require Import Bytes.
From JV.gen Require Import Inventory.
From JV.model Require Import RangeSites InventorySpec.
Import ListNotations.
Open Scope N_scope.

(* ======================================================================================== *)
(* insertion sort does not depend on the order of its input *)
Section SortingFacts.
  Variable K : Type.
  Variable leb : K -> K -> bool.
  Hypothesis leb_total : forall a b, leb a b = true \/ leb b a = true.
  Hypothesis leb_trans : forall a b c, leb a b = true -> leb b c = true -> leb a c = true.

  (* antisymmetry is only needed for the two elements being inserted *)
  Lemma insert_comm_gen : forall a b l,
    (leb a b = true -> leb b a = true -> a = b) ->
    insert leb a (insert leb b l) = insert leb b (insert leb a l).
  Proof.
    intros a b l Hanti.
    induction l as [|y r IH].
    - simpl. destruct (leb a b) eqn:Eab; destruct (leb b a) eqn:Eba.
      + rewrite (Hanti eq_refl eq_refl). reflexivity.
      + reflexivity.
      + reflexivity.
      + destruct (leb_total a b) as [H|H]; congruence.
    - cbn [insert].
      destruct (leb b y) eqn:Eby; destruct (leb a y) eqn:Eay; cbn [insert]; rewrite ?Eby, ?Eay.
      + (* both go in front of y *)
        destruct (leb a b) eqn:Eab; destruct (leb b a) eqn:Eba.
        * rewrite (Hanti eq_refl eq_refl). reflexivity.
        * reflexivity.
        * reflexivity.
        * destruct (leb_total a b) as [H|H]; congruence.
      + (* b <= y, not a <= y: so not a <= b *)
        destruct (leb a b) eqn:Eab.
        * rewrite (leb_trans a b y Eab Eby) in Eay. discriminate.
        * reflexivity.
      + (* a <= y, not b <= y: so not b <= a *)
        destruct (leb b a) eqn:Eba.
        * rewrite (leb_trans b a y Eba Eay) in Eby. discriminate.
        * reflexivity.
      + f_equal. exact IH.
  Qed.

  Hypothesis leb_antisym : forall a b, leb a b = true -> leb b a = true -> a = b.

  Lemma insert_comm : forall a b l, insert leb a (insert leb b l) = insert leb b (insert leb a l).
  Proof. intros a b l. apply insert_comm_gen. apply leb_antisym. Qed.

  Lemma isort_perm : forall l1 l2, Permutation l1 l2 -> isort leb l1 = isort leb l2.
  Proof.
    intros l1 l2 HP. induction HP as [|x l l' _ IH|x y l|l l' l'' _ IH1 _ IH2].
    - reflexivity.
    - simpl. rewrite IH. reflexivity.
    - simpl. apply insert_comm.
    - rewrite IH1. exact IH2.
  Qed.
End SortingFacts.

(* Go's string order is total, transitive, antisymmetric *)
Lemma bytes_leb_total : forall a b, bytes_leb a b = true \/ bytes_leb b a = true.
Proof.
  induction a as [|x a IH]; intros b.
  - left. reflexivity.
  - destruct b as [|y b].
    + right. reflexivity.
    + simpl.
      destruct (N.ltb_spec x y) as [Hxy|Hxy]; [left; reflexivity|].
      destruct (N.ltb_spec y x) as [Hyx|Hyx]; [right; reflexivity|].
      assert (Heq : x = y) by lia. subst y.
      rewrite N.eqb_refl. apply IH.
Qed.

Lemma bytes_leb_trans : forall a b c, bytes_leb a b = true -> bytes_leb b c = true -> bytes_leb a c = true.
Proof.
  induction a as [|x a IH]; intros b c Hab Hbc.
  - reflexivity.
  - destruct b as [|y b]; [simpl in Hab; discriminate|].
    destruct c as [|z c]; [simpl in Hbc; discriminate|].
    simpl in *.
    destruct (N.ltb_spec x y) as [Hxy|Hxy].
    + destruct (N.ltb_spec y z) as [Hyz|Hyz].
      * destruct (N.ltb_spec x z) as [_|Hxz]; [reflexivity|lia].
      * destruct (N.eqb_spec y z) as [Heq|Hne]; [|discriminate].
        subst z. destruct (N.ltb_spec x y) as [_|Hc]; [reflexivity|lia].
    + destruct (N.eqb_spec x y) as [Heq|Hne]; [|discriminate].
      subst y.
      destruct (N.ltb_spec x z) as [_|Hxz]; [reflexivity|].
      destruct (N.eqb_spec x z) as [Heq2|Hne2]; [|discriminate].
      eapply IH; eassumption.
Qed.

Lemma bytes_leb_antisym : forall a b, bytes_leb a b = true -> bytes_leb b a = true -> a = b.
Proof.
  induction a as [|x a IH]; intros b Hab Hba.
  - destruct b; [reflexivity|simpl in Hba; discriminate].
  - destruct b as [|y b]; [simpl in Hab; discriminate|].
    simpl in *.
    destruct (N.ltb_spec x y) as [Hxy|Hxy].
    + destruct (N.ltb_spec y x) as [Hyx|Hyx]; [lia|].
      destruct (N.eqb_spec y x) as [Heq|Hne]; [lia|discriminate].
    + destruct (N.eqb_spec x y) as [Heq|Hne]; [|discriminate].
      subst y. rewrite N.ltb_irrefl in Hba. rewrite N.eqb_refl in Hba.
      f_equal. apply IH; assumption.
Qed.

Lemma flat_map_perm : forall (A B : Type) (f : A -> list B) l1 l2,
  Permutation l1 l2 -> Permutation (flat_map f l1) (flat_map f l2).
Proof.
  intros A B f l1 l2 HP. induction HP as [|x l l' _ IH|x y l|l l' l'' _ IH1 _ IH2].
  - apply perm_nil.
  - simpl. apply Permutation_app_head. exact IH.
  - simpl. rewrite !app_assoc. apply Permutation_app_tail. apply Permutation_app_comm.
  - eapply perm_trans; eassumption.
Qed.

(* ======================================================================================== *)
(* CLASS RB_appends *)

(* collect-then-sort: whatever is appended per key, whatever was in the slice before, whatever
   the rest of the function does with the sorted slice *)
Theorem appends_sorted_order_irrelevant_lemma :
  forall (K V R : Type) (leb : V -> V -> bool),
    (forall a b, leb a b = true \/ leb b a = true) ->
    (forall a b c, leb a b = true -> leb b c = true -> leb a c = true) ->
    (forall a b, leb a b = true -> leb b a = true -> a = b) ->
  forall (per_key : K -> list V) (cont : list V -> R) (prefix : list V) (order1 order2 : list K),
    Permutation order1 order2 ->
    appends_sorted leb per_key cont prefix order1 = appends_sorted leb per_key cont prefix order2.
Proof.
  intros K V R leb Htot Htr Hanti per_key cont prefix o1 o2 HP.
  unfold appends_sorted, collected. f_equal.
  apply isort_perm; try assumption.
  apply Permutation_app_head. apply flat_map_perm. exact HP.
Qed.

(* without the sort the slice IS the iteration order *)
Lemma appends_unsorted_order_relevant_lemma :
  exists (o1 o2 : list N), Permutation o1 o2 /\ NoDup o1 /\
    appends_unsorted (fun k => [k]) (fun l => l) [] o1 <> appends_unsorted (fun k => [k]) (fun l => l) [] o2.
Proof.
  exists [1; 2], [2; 1]. split; [apply perm_swap|]. split.
  - repeat constructor; simpl; intuition discriminate.
  - vm_compute. discriminate.
Qed.

(* CLASS RB_lookup_only *)
Theorem lookup_only_order_irrelevant_lemma :
  forall (K R : Type) (reaches_return : K -> bool) (hit miss : R) (order1 order2 : list K),
    Permutation order1 order2 ->
    lookup_only reaches_return hit miss order1 = lookup_only reaches_return hit miss order2.
Proof.
  intros K R p hit miss o1 o2 HP. unfold lookup_only.
  assert (He : existsb p o1 = existsb p o2).
  { destruct (existsb p o1) eqn:E1; destruct (existsb p o2) eqn:E2; try reflexivity.
    - apply existsb_exists in E1. destruct E1 as [x [Hin Hx]].
      assert (Hex : existsb p o2 = true).
      { apply existsb_exists. exists x. split; [eapply Permutation_in; eassumption|exact Hx]. }
      congruence.
    - apply existsb_exists in E2. destruct E2 as [x [Hin Hx]].
      assert (Hex : existsb p o1 = true).
      { apply existsb_exists. exists x. split; [eapply Permutation_in; [apply Permutation_sym; eassumption|exact Hin]|exact Hx]. }
      congruence. }
  rewrite He. reflexivity.
Qed.

(* ======================================================================================== *)
(* CLASS RB_calls_per_element *)
Section CallsFacts.
  Variables (K S E : Type).
  Variable step : S -> K -> S + E.
  Variable upd : S -> K -> S.
  Variable Inv : S -> Prop.

  (* if, on the states the loop can reach, no call fails and calls on distinct keys commute,
     the final state is the same for every order *)
  Lemma run_no_failure_perm : forall o1 o2,
    Permutation o1 o2 -> NoDup o1 ->
    (forall s k, Inv s -> In k o1 -> step s k = inl (upd s k) /\ Inv (upd s k)) ->
    (forall s k1 k2, Inv s -> k1 <> k2 -> upd (upd s k1) k2 = upd (upd s k2) k1) ->
    forall s, Inv s -> run_until_error step s o1 = run_until_error step s o2.
  Proof.
    intros o1 o2 HP. induction HP as [|x l l' HP IH|x y l|l l' l'' HP1 IH1 HP2 IH2]; intros Hnd Hok Hcomm s Hs.
    - reflexivity.
    - simpl. destruct (Hok s x Hs (or_introl eq_refl)) as [Hst Hinv]. rewrite Hst.
      apply IH.
      + inversion Hnd; assumption.
      + intros s' k Hs' Hk. apply Hok; [assumption|right; assumption].
      + assumption.
      + assumption.
    - simpl.
      destruct (Hok s y Hs (or_introl eq_refl)) as [Hsy Hiy].
      destruct (Hok s x Hs (or_intror (or_introl eq_refl))) as [Hsx Hix].
      rewrite Hsy, Hsx.
      destruct (Hok (upd s y) x Hiy (or_intror (or_introl eq_refl))) as [Hsyx _].
      destruct (Hok (upd s x) y Hix (or_introl eq_refl)) as [Hsxy _].
      rewrite Hsyx, Hsxy.
      assert (Hne : y <> x).
      { inversion Hnd as [|? ? Hni _]. intros Heq. apply Hni. left. symmetry. exact Heq. }
      rewrite (Hcomm s y x Hs Hne). reflexivity.
    - rewrite (IH1 Hnd Hok Hcomm s Hs).
      apply IH2.
      + eapply Permutation_NoDup; eassumption.
      + intros s' k Hs' Hk. apply Hok; [assumption|]. eapply Permutation_in; [apply Permutation_sym; eassumption|assumption].
      + assumption.
      + assumption.
  Qed.
End CallsFacts.

(* in general a loop of this class reports whichever failing element comes first *)
Lemma run_until_error_order_relevant_lemma :
  exists (step : unit -> N -> unit + N) (o1 o2 : list N),
    Permutation o1 o2 /\ NoDup o1 /\ run_until_error step tt o1 <> run_until_error step tt o2.
Proof.
  exists (fun _ k => inr k), [1; 2], [2; 1]. split; [apply perm_swap|]. split.
  - repeat constructor; simpl; intuition discriminate.
  - vm_compute. discriminate.
Qed.

(* ======================================================================================== *)
(* SITE catalog.prepareJSightSchema *)
Theorem prepare_schema_order_irrelevant_lemma :
  forall (K Rule M E : Type) (mset : M -> K -> Rule -> M) (check : Rule -> option E)
         (empty : M) (lookup : K -> option Rule),
    (* the schema library's rule table: stores under distinct names commute *)
    (forall m k1 r1 k2 r2, k1 <> k2 -> mset (mset m k1 r1) k2 r2 = mset (mset m k2 r2) k1 r1) ->
  forall order1 order2 : list K,
    Permutation order1 order2 -> NoDup order1 ->
    (* every value of the map is a non-nil rule whose Check() returns nil *)
    (forall k, In k order1 -> exists r, lookup k = Some r /\ check r = None) ->
    prepare_schema mset check empty lookup order1 = prepare_schema mset check empty lookup order2.
Proof.
  intros K Rule M E mset check empty lookup Hcomm o1 o2 HP Hnd Hgood.
  unfold prepare_schema.
  set (upd := fun (s : schema M) (k : K) =>
                match lookup k with
                | Some r => {| compiled := compiled s; srules := mset (srules s) k r |}
                | None => s
                end).
  apply (run_no_failure_perm K (schema M) (add_rule_err E) (add_rule mset check lookup) upd
           (fun s => compiled s = false /\ True)); try assumption.
  - intros s k [Hc _] Hk. destruct (Hgood k Hk) as [r [Hl Hch]].
    unfold add_rule, upd. rewrite Hc, Hl, Hch. split; [reflexivity|]. simpl. split; [reflexivity|exact I].
  - intros s k1 k2 _ Hne. unfold upd.
    destruct (lookup k1) as [r1|]; destruct (lookup k2) as [r2|]; simpl; try reflexivity.
    rewrite (Hcomm (srules s) k1 r1 k2 r2 Hne). reflexivity.
  - split; [reflexivity|exact I].
Qed.

(* the premise on the values is NEEDED: two rules whose Check() fails *)
Definition bad_check (r : bytes) : option bytes := if has_prefix (bs "bad") r then Some r else None.
Definition two_bad_rules (k : bytes) : option bytes :=
  if beq k (bs "@a") then Some (bs "bad A") else if beq k (bs "@b") then Some (bs "bad B") else None.

Lemma prepare_schema_needs_premise_lemma :
  exists (lookup : bytes -> option bytes) (o1 o2 : list bytes),
    Permutation o1 o2 /\ NoDup o1 /\
    prepare_schema table_set bad_check [] lookup o1 <> prepare_schema table_set bad_check [] lookup o2.
Proof.
  exists two_bad_rules, [bs "@a"; bs "@b"], [bs "@b"; bs "@a"].
  split; [apply perm_swap|]. split.
  - constructor.
    + simpl. intros [H|[]]. vm_compute in H. discriminate.
    + constructor; [simpl; tauto|constructor].
  - vm_compute. discriminate.
Qed.

(* the premise on the rule table is satisfiable: sorted association lists *)
Lemma pair_leb_total : forall a b, pair_leb a b = true \/ pair_leb b a = true.
Proof. intros a b. apply bytes_leb_total. Qed.

Lemma pair_leb_trans : forall a b c, pair_leb a b = true -> pair_leb b c = true -> pair_leb a c = true.
Proof. intros a b c. apply bytes_leb_trans. Qed.

Lemma table_set_comm : forall (m : table) k1 r1 k2 r2,
  k1 <> k2 -> table_set (table_set m k1 r1) k2 r2 = table_set (table_set m k2 r2) k1 r1.
Proof.
  intros m k1 r1 k2 r2 Hne. unfold table_set.
  apply insert_comm_gen.
  - exact pair_leb_total.
  - exact pair_leb_trans.
  - intros H1 H2. exfalso. apply Hne. symmetry. apply bytes_leb_antisym; assumption.
Qed.

Theorem prepare_schema_order_irrelevant_table_lemma :
  forall (check : bytes -> option bytes) (lookup : bytes -> option bytes) (order1 order2 : list bytes),
    Permutation order1 order2 -> NoDup order1 ->
    (forall k, In k order1 -> exists r, lookup k = Some r /\ check r = None) ->
    prepare_schema table_set check [] lookup order1 = prepare_schema table_set check [] lookup order2.
Proof.
  intros check lookup o1 o2 HP Hnd Hgood.
  apply prepare_schema_order_irrelevant_lemma; try assumption.
  exact table_set_comm.
Qed.

(* ======================================================================================== *)
(* SITE core.JApiCore.addRulesToUserTypes *)
Theorem add_rules_to_user_types_order_irrelevant_lemma :
  forall (E : Type) (add_rule_error : bytes -> bytes -> option E) (types order1 order2 : list bytes),
    Permutation order1 order2 ->
    add_rules_to_user_types add_rule_error types order1 = add_rules_to_user_types add_rule_error types order2.
Proof.
  intros E f types o1 o2 HP. unfold add_rules_to_user_types.
  apply appends_sorted_order_irrelevant_lemma.
  - exact bytes_leb_total.
  - exact bytes_leb_trans.
  - exact bytes_leb_antisym.
  - exact HP.
Qed.

(* SITE core.JApiCore.getPropertiesNames *)
Theorem get_properties_names_order_irrelevant_lemma :
  forall order1 order2 : list bytes,
    Permutation order1 order2 -> get_properties_names order1 = get_properties_names order2.
Proof.
  intros o1 o2 HP. unfold get_properties_names.
  apply appends_sorted_order_irrelevant_lemma.
  - exact bytes_leb_total.
  - exact bytes_leb_trans.
  - exact bytes_leb_antisym.
  - exact HP.
Qed.

Example get_properties_names_example :
  get_properties_names [bs "d"; bs "b"; bs "a"; bs "c"] = bs "a, b, c, d".
Proof. vm_compute. reflexivity. Qed.

(* ======================================================================================== *)
(* HISTORICAL sites (fixed in /repo; the witnesses were reproduced on the real code) *)

Lemma nodup2 : forall a b : bytes, beq a b = false -> NoDup [a; b].
Proof.
  intros a b Hne. constructor.
  - simpl. intros [H|[]]. subst b. clear -Hne.
    induction a as [|x a IH]; simpl in Hne; [discriminate|].
    rewrite N.eqb_refl in Hne. simpl in Hne. apply IH. exact Hne.
  - constructor; [simpl; tauto|constructor].
Qed.

(* before a938349: four unused Path properties, the message lists them in iteration order *)
Lemma get_properties_names_unsorted_order_relevant_lemma :
  exists o1 o2 : list bytes, Permutation o1 o2 /\ NoDup o1 /\
    get_properties_names_unsorted o1 <> get_properties_names_unsorted o2.
Proof.
  exists [bs "a"; bs "b"], [bs "b"; bs "a"]. split; [apply perm_swap|]. split.
  - apply nodup2. vm_compute. reflexivity.
  - vm_compute. discriminate.
Qed.

(* before 78504eb: the user type is already loaded, every AddRule fails, and the error is located
   by whichever rule name comes first *)
Lemma add_rules_loop_pre_78504eb_order_relevant_lemma :
  exists (lookup : bytes -> option bytes) (o1 o2 : list bytes),
    Permutation o1 o2 /\ NoDup o1 /\
    add_rules_loop_pre_78504eb table_set bad_check {| compiled := true; srules := [] |} lookup o1
    <> add_rules_loop_pre_78504eb table_set bad_check {| compiled := true; srules := [] |} lookup o2.
Proof.
  exists (fun k => Some (bs "[1,2]")), [bs "@e1"; bs "@e2"], [bs "@e2"; bs "@e1"].
  split; [apply perm_swap|]. split.
  - apply nodup2. vm_compute. reflexivity.
  - vm_compute. discriminate.
Qed.

(* before b71ee7a: three self-recursive macros, the PASTE that is reported depends on the order *)
Definition three_recursive_macros (name : bytes) : option bytes :=
  if beq name (bs "@m1") || beq name (bs "@m2") || beq name (bs "@m3")
  then Some (bs "recursion is prohibited, at the PASTE inside " ++ name) else None.

Lemma check_macro_for_recursion_pre_b71ee7a_order_relevant_lemma :
  exists (paste_error : bytes -> option bytes) (o1 o2 : list bytes),
    Permutation o1 o2 /\
    check_macro_for_recursion_pre_b71ee7a paste_error o1 <> check_macro_for_recursion_pre_b71ee7a paste_error o2.
Proof.
  exists three_recursive_macros, [bs "@m1"; bs "@m2"; bs "@m3"], [bs "@m3"; bs "@m1"; bs "@m2"].
  split.
  - apply Permutation_sym. apply (Permutation_cons_append [bs "@m1"; bs "@m2"] (bs "@m3")).
  - vm_compute. discriminate.
Qed.

(* ======================================================================================== *)
(* the audit of the REGENERATED inventory, by computation *)

Lemma inventory_matches_audit_lemma : inventory_check = true.
Proof. vm_compute. reflexivity. Qed.

Lemma no_nondeterminism_sources_lemma : nondeterminism_sources = [].
Proof. vm_compute. reflexivity. Qed.

Lemma rules_premise_lemma : rules_premise_check = true.
Proof. vm_compute. reflexivity. Qed.

Lemma globals_audited_lemma : globals_check = true.
Proof. vm_compute. reflexivity. Qed.

Lemma recovers_audited_lemma : recovers_check = true.
Proof. vm_compute. reflexivity. Qed.

(* the checker does reject what it is there for *)
Open Scope string_scope.
Definition demo_range (f : string) (c : range_body) (body : string) : map_range :=
  {| mr_pkg := "core"; mr_func := f; mr_operand := "core.rules"; mr_operand_kind := "field:JApiCore.rules";
     mr_map_type := "map[string]jschema.Rule"; mr_addr_key := false; mr_class := c; mr_pos := "x.go:1"; mr_body := body |}.
Example audit_rejects_new_error_loop :
  range_audited (demo_range "JApiCore.validateCatalog" (RB_calls_per_element "check") "{ if err := check(k); err != nil { return err } }") = false.
Proof. vm_compute. reflexivity. Qed.
Example audit_rejects_unsorted_collect :
  range_audited (demo_range "JApiCore.getPropertiesNames" (RB_appends false) "{ names = append(names, k) }") = false.
Proof. vm_compute. reflexivity. Qed.
Example audit_rejects_changed_body :
  range_audited {| mr_pkg := "catalog"; mr_func := "prepareJSightSchema"; mr_operand := "enumRules"; mr_operand_kind := "param:enumRules";
     mr_map_type := "map[string]jschema.Rule"; mr_addr_key := false; mr_class := RB_calls_per_element "s.AddRule"; mr_pos := "x.go:1";
     mr_body := "{ if err := s.AddRule(n, v); err != nil { return nil, fmt.Errorf(""%s: %w"", n, err) } }" |} = false.
Proof. vm_compute. reflexivity. Qed.
Example audit_accepts_sorted_collect_anywhere :
  range_audited (demo_range "JApiCore.somethingNew" (RB_appends true) "{ xs = append(xs, k) }") = true.
Proof. vm_compute. reflexivity. Qed.
Close Scope string_scope.
