(* Table metatheory, part 4: one dispatch (a step function call and its re-dispatches)
   preserves the invariant, for ANY table and typing that pass table_ok. *)
From Coq Require Import List NArith ZArith Bool String Lia.
From JV.lib Require Import Bytes.
From JV.gen Require Import ScannerTable.
From JV.model Require Import ScannerSem TableCheck.
From JV.proofs Require Import TM_Basics TM_Stack TM_Events.
Import ListNotations.
Open Scope N_scope.

Arguments evt_in : simpl never.
Arguments pair_ok : simpl never.

Section Dispatch.
  Variable ty : typing.
  Hypothesis Hok : table_ok ty = true.
  Variable jsc_len enum_len : bytes -> len_result.
  Hypothesis jsc_sane : len_sane jsc_len.
  Hypothesis enum_sane : len_sane enum_len.
  Variable data : bytes.
  Variable size : N.

  (* ---- what table_ok gives ---- *)
  Lemma ok_parts :
    typing_sane ty = true /\ init_ok ty = true /\ events_decl_ok = true /\
    forallb (fun st => forallb (state_ok ty st) all_byte_values) all_states = true.
  Proof.
    unfold table_ok in Hok.
    apply andb_true_iff in Hok as [H H4]. apply andb_true_iff in H as [H H3].
    apply andb_true_iff in H as [H1 H2]. repeat split; assumption.
  Qed.

  Lemma ok_sane st :
    (0 <= rho ty st)%Z /\ (rho ty st <= RHO_MAX)%Z /\ (0 <= minpos ty st)%Z.
  Proof.
    destruct ok_parts as (H & _). unfold typing_sane in H.
    rewrite forallb_forall in H. specialize (H st (all_states_complete st)).
    apply andb_true_iff in H as [H H3]. apply andb_true_iff in H as [H1 H2].
    apply Z.leb_le in H1, H2, H3. repeat split; assumption.
  Qed.

  Lemma ok_init :
    needs ty initial_state = false /\ lexopen ty initial_state = None /\
    (gap ty initial_state <= 0)%Z /\ (minpos ty initial_state <= 0)%Z.
  Proof.
    destruct ok_parts as (_ & H & _). unfold init_ok in H.
    apply andb_true_iff in H as [H H4]. apply andb_true_iff in H as [H H3]. apply andb_true_iff in H as [H1 H2].
    apply Z.leb_le in H3, H4. apply opt_evt_eqb_eq in H2.
    repeat split; try assumption. destruct (needs ty initial_state); [discriminate | reflexivity].
  Qed.

  Lemma ok_events e :
    evt_in e evt_ending = true \/ evt_in e evt_single = true -> exists k, evt_lexkind e = Some k.
  Proof.
    intros He. destruct ok_parts as (_ & _ & H & _). unfold events_decl_ok in H.
    rewrite forallb_forall in H.
    assert (Hin : In e all_evts) by (destruct e; vm_compute; tauto).
    specialize (H e Hin). destruct (evt_lexkind e) as [k|]; [eexists; reflexivity|].
    rewrite orb_false_r in H.
    destruct He as [He|He]; rewrite He in H; simpl in H; try rewrite orb_true_r in H; discriminate.
  Qed.

  Lemma ok_state st c : c < 256 -> state_ok ty st c = true.
  Proof.
    intros Hc. destruct ok_parts as (_ & _ & _ & H).
    rewrite forallb_forall in H. specialize (H st (all_states_complete st)).
    rewrite forallb_forall in H. apply H. apply all_byte_values_complete. exact Hc.
  Qed.

  Lemma ok_leaf st c lf : c < 256 -> In lf (leaves_for (step_tree st) c) -> leaf_ok ty st c lf = true.
  Proof.
    intros Hc Hin. pose proof (ok_state st c Hc) as H. unfold state_ok in H.
    apply andb_true_iff in H as [_ H]. rewrite forallb_forall in H. apply H. exact Hin.
  Qed.

  Lemma ok_prev st : tree_uses_prev (step_tree st) = true -> (1 <= minpos ty st)%Z.
  Proof.
    intros Hp. assert (Hc : 0 < 256) by lia. pose proof (ok_state st 0 Hc) as H. unfold state_ok in H.
    apply andb_true_iff in H as [H _]. rewrite Hp in H. simpl in H. apply Z.leb_le in H. exact H.
  Qed.

  (* ---- invariants ---- *)
  Definition lex_inb (l : lexeme) : Prop := lb l <= le l + 1 /\ le l + 1 <= size.

  Lemma values_ok ls : Forall lex_inb ls -> exists vs, values data size ls = Ok vs.
  Proof.
    induction 1 as [|l ls [H1 H2] _ [vs IH]]; simpl; [eexists; reflexivity|].
    unfold lex_value.
    replace (lb l <=? le l + 1) with true by (symmetry; apply N.leb_le; exact H1).
    replace (le l + 1 <=? size) with true by (symmetry; apply N.leb_le; exact H2).
    simpl. rewrite IH. simpl. eexists; reflexivity.
  Qed.

  (* the invariant at the start of a dispatch *)
  Definition InvTy (s00 : ostate * N) (g : cfg) : Prop :=
    valid ty (reg g) (sstk g) /\ RE size (pos g) s00 (ast0 ty (reg g)) g /\ Zip size g /\ Forall lex_inb (lastp g).

  (* what survives the end of the file: the pending events are well-formed *)
  Definition InvEv (s00 : ostate * N) (g : cfg) : Prop :=
    exists s1, ev_run size s00 (finds g) = Some s1.

  Definition PhiR (g : cfg) : Z := (KPOT * (Z.of_N size + 1 - Z.of_N (pos g)) + rho ty (reg g))%Z.

  (* ---- actions ---- *)
  Lemma exec_act_lastp x g g' : exec_act jsc_len enum_len x g = Ok g' -> lastp g' = lastp g.
  Proof.
    destruct x; simpl.
    - destruct (pos g <? back); [discriminate|]. intros H; injection H as <-. reflexivity.
    - intros H; injection H as <-. reflexivity.
    - intros H; injection H as <-. reflexivity.
    - intros H; injection H as <-. reflexivity.
    - destruct (sstk g); [discriminate|]. intros H; injection H as <-. reflexivity.
    - destruct (pos g <? n); [discriminate|]. intros H; injection H as <-. reflexivity.
    - unfold read_body. destruct (jsc_len (rest g)); [|discriminate]. intros H; injection H as <-.
      destruct (0 <? n); reflexivity.
    - unfold read_body. destruct (enum_len (rest g)); [|discriminate]. intros H; injection H as <-.
      destruct (0 <? n); reflexivity.
  Qed.

  Lemma exec_act_pos_lb x g g' :
    exec_act jsc_len enum_len x g = Ok g' ->
    (Z.of_N (pos g') >= Z.of_N (pos g) - rewind_total [x])%Z /\
    (List.length (finds g') <= List.length (finds g) + 1)%nat.
  Proof.
    destruct x; simpl.
    - destruct (pos g <? back); [discriminate|]. intros H; injection H as <-. simpl.
      rewrite app_length. simpl. lia.
    - intros H; injection H as <-. simpl. lia.
    - intros H; injection H as <-. simpl. lia.
    - intros H; injection H as <-. simpl. lia.
    - destruct (sstk g); [discriminate|]. intros H; injection H as <-. simpl. lia.
    - destruct (pos g <? n) eqn:E; [discriminate|]. apply N.ltb_ge in E.
      intros H; injection H as <-. unfold retreat. simpl. lia.
    - unfold read_body. destruct (jsc_len (rest g)); [|discriminate]. intros H; injection H as <-.
      destruct (0 <? n); unfold advance; simpl; lia.
    - unfold read_body. destruct (enum_len (rest g)); [|discriminate]. intros H; injection H as <-.
      destruct (0 <? n); unfold advance; simpl; lia.
  Qed.

  Lemma rewind_total_cons x l : rewind_total (x :: l) = (rewind_total [x] + rewind_total l)%Z.
  Proof. destruct x; simpl; lia. Qed.

  Lemma rewind_total_nonneg l : (0 <= rewind_total l)%Z.
  Proof. induction l as [|x l IH]; simpl; [lia|]. destruct x; lia. Qed.

  (* folding the three passes over an action list *)
  Lemma fold_sound c p0 s00 st0 s0 :
    (c = 0 -> p0 = size) -> (c <> 0 -> p0 < size) -> valid ty st0 s0 ->
    forall acts sa ea g sa' ea',
      RS ty st0 s0 sa g -> RE size p0 s00 ea g -> Zip size g ->
      sfold ty st0 sa acts = Some sa' -> efold c ea acts = Some ea' ->
      match exec_acts jsc_len enum_len acts g with
      | Ok g' => RS ty st0 s0 sa' g' /\ RE size p0 s00 ea' g' /\ Zip size g' /\ lastp g' = lastp g /\
                 (Z.of_N (pos g') >= Z.of_N (pos g) - rewind_total acts)%Z /\
                 (List.length (finds g') <= List.length (finds g) + List.length acts)%nat
      | Err p _ => p <= size
      | _ => False
      end.
  Proof.
    intros Hc0 Hc1 Hv.
    induction acts as [|x acts IH]; intros sa ea g sa' ea' HS HE HZ Hsf Hef;
      cbn [sfold efold exec_acts obind List.length] in *.
    - injection Hsf as <-. injection Hef as <-.
      split; [exact HS|]. split; [exact HE|]. split; [exact HZ|]. split; [reflexivity|]. simpl. split; lia.
    - destruct (sstep ty st0 sa x) as [sa1|] eqn:Es; [|discriminate].
      destruct (estep c ea x) as [ea1|] eqn:Ee; [|discriminate].
      assert (Hpop : x = APop -> sstk g <> []).
      { intros ->. eapply sstep_pop_ok; eassumption. }
      pose proof (estep_sound size jsc_len enum_len jsc_sane enum_sane c p0 s00 ea ea1 x g Hc0 Hc1 HE HZ Ee Hpop) as Hx.
      destruct (exec_act jsc_len enum_len x g) as [g1|p e| |] eqn:Ex; cbn [obind]; try exact Hx; try contradiction.
      destruct Hx as [HE1 HZ1].
      pose proof (sstep_sound ty jsc_len enum_len st0 s0 sa sa1 x g g1 HS Hv Es Ex) as HS1.
      specialize (IH sa1 ea1 g1 sa' ea' HS1 HE1 HZ1 Hsf Hef).
      destruct (exec_acts jsc_len enum_len acts g1) as [g'|p e| |]; try exact IH.
      destruct IH as (A & B & C & D & E & F).
      destruct (exec_act_pos_lb x g g1 Ex) as [P1 P2].
      rewrite (rewind_total_cons x acts).
      split; [exact A|]. split; [exact B|]. split; [exact C|].
      split; [rewrite D; eapply exec_act_lastp; eassumption|].
      split; lia.
  Qed.

  (* the start state of the abstract passes concretises the invariant *)
  Lemma inv_start s00 g :
    InvTy s00 g -> RS ty (reg g) (sstk g) (reg g, SE_none) g /\ RE size (pos g) s00 (ast0 ty (reg g)) g.
  Proof. intros (_ & HE & _). split; [split; reflexivity | exact HE]. Qed.

  (* ---- one leaf ---- *)
  Lemma leaf_sound c s00 g acts x :
    c < 256 -> (c = 0 -> pos g = size) -> (c <> 0 -> pos g < size) ->
    InvTy s00 g ->
    In (acts, x) (leaves_for (step_tree (reg g)) c) ->
    match exec_acts jsc_len enum_len acts g with
    | Ok g' =>
      Zip size g' /\ InvEv s00 g' /\ pos g' <= size /\ lastp g' = lastp g /\
      (List.length (finds g') <= List.length (finds g) + MAXACTS)%nat /\
      match x with
      | XErr _ => True
      | XRedo => InvTy s00 g' /\ pos g' = pos g /\ (PhiR g' + 1 <= PhiR g)%Z
      | XNil =>
        (exempt c acts x = true /\ pos g' = size) \/
        ((pos g' + 1 <= size -> InvTy s00 (advance g' 1)) /\
         (KPOT * (Z.of_N size + 1 - (Z.of_N (pos g') + 1)) + rho ty (reg g') + 1 <= PhiR g)%Z)
      end
    | Err p _ => p <= size
    | _ => False
    end.
  Proof.
    intros Hc Hc0 Hc1 HI Hin.
    pose proof (ok_leaf (reg g) c (acts, x) Hc Hin) as Hl.
    destruct HI as (Hv & HE & HZ & HL).
    unfold leaf_ok in Hl. cbn [fst snd] in Hl.
    destruct (sfold ty (reg g) (reg g, SE_none) acts) as [sa|] eqn:Esf; [|discriminate].
    destruct (efold c (ast0 ty (reg g)) acts) as [ea|] eqn:Eef; [|discriminate].
    apply andb_true_iff in Hl as [Hlen Hl]. apply Nat.leb_le in Hlen.
    assert (HS0 : RS ty (reg g) (sstk g) (reg g, SE_none) g) by (split; reflexivity).
    pose proof (fold_sound c (pos g) s00 (reg g) (sstk g) Hc0 Hc1 Hv acts _ _ g sa ea HS0 HE HZ Esf Eef) as Hf.
    destruct (exec_acts jsc_len enum_len acts g) as [g'|p e| |]; try exact Hf.
    destruct Hf as (HS' & HE' & HZ' & HLp & Hpos & Hfinds).
    destruct HE' as (o1 & F1 & Hrun & Hop & Hgap & Hposlb & Hsz & Hrd).
    split; [exact HZ'|]. split; [eexists; exact Hrun|]. split; [exact Hsz|]. split; [exact HLp|].
    split; [lia|].
    destruct x as [| |e]; [| |exact I].
    - (* XNil *)
      destruct (exempt c acts XNil) eqn:Eex.
      + left. split; [reflexivity|].
        unfold exempt in Eex. apply andb_true_iff in Eex as [Eex E3]. apply andb_true_iff in Eex as [E1 _].
        apply N.eqb_eq in E1. apply Z.eqb_eq in E3. specialize (Hc0 E1). rewrite E3 in Hpos. lia.
      + right. cbn [orb] in Hl.
        apply andb_true_iff in Hl as [Hl Htg]. apply andb_true_iff in Hl as [Hst _].
        pose proof (stack_final_sound ty (reg g) (sstk g) sa g' HS' Hv Hst) as Hv'.
        pose proof (targets_sound ty (reg g) (sstk g) sa g' HS' Hv) as Htin.
        rewrite forallb_forall in Htg. specialize (Htg _ Htin). unfold target_ok, bump in Htg.
        apply andb_true_iff in Htg as [Htg T4]. apply andb_true_iff in Htg as [Htg T3].
        apply andb_true_iff in Htg as [T1 T2].
        apply opt_evt_eqb_eq in T1. apply Z.leb_le in T2, T3, T4.
        split.
        * intros Hlt.
          destruct (advance_zip size g' 1 HZ') as [Za Zp]; [destruct HZ' as [Z1 Z2]; lia|].
          split; [unfold advance; simpl; exact Hv'|].
          split; [|split; [exact Za|unfold advance; simpl; rewrite HLp; exact HL]].
          exists o1, F1. rewrite Zp.
          split; [unfold advance; simpl; exact Hrun|].
          split; [unfold advance, ast0; simpl; rewrite T1; exact Hop|].
          unfold advance, ast0. simpl.
          split; [lia|]. split; [lia|]. split; [lia|]. intros _. lia.
        * unfold PhiR. pose proof (rewind_total_nonneg acts). unfold KPOT in *. lia.
    - (* XRedo *)
      assert (Eex : exempt c acts XRedo = false) by (unfold exempt; destruct (c =? 0); reflexivity).
      rewrite Eex in Hl. cbn [orb] in Hl.
      apply andb_true_iff in Hl as [Hl Htg]. apply andb_true_iff in Hl as [Hst Hrp].
      unfold redo_ok in Hrp.
      apply andb_true_iff in Hrp as [R1 R2]. apply Z.eqb_eq in R1.
      assert (R2' : e_read ea = false) by (destruct (e_read ea); [discriminate | reflexivity]).
      specialize (Hrd R2'). rewrite R1 in Hpos.
      assert (Hpe : pos g' = pos g) by lia.
      pose proof (stack_final_sound ty (reg g) (sstk g) sa g' HS' Hv Hst) as Hv'.
      pose proof (targets_sound ty (reg g) (sstk g) sa g' HS' Hv) as Htin.
      rewrite forallb_forall in Htg. specialize (Htg _ Htin). unfold target_ok, bump in Htg.
      apply andb_true_iff in Htg as [Htg T4]. apply andb_true_iff in Htg as [Htg T3].
      apply andb_true_iff in Htg as [T1 T2].
      apply opt_evt_eqb_eq in T1. apply Z.leb_le in T2, T3, T4.
      split; [|split; [exact Hpe|]].
      + split; [exact Hv'|]. split; [|split; [exact HZ'|rewrite HLp; exact HL]].
        exists o1, F1.
        split; [exact Hrun|]. split; [unfold ast0; simpl; rewrite T1; exact Hop|].
        unfold ast0. simpl. split; [lia|]. split; [lia|]. split; [lia|]. intros _. lia.
      + unfold PhiR. rewrite Hpe. rewrite R1 in T4. unfold KPOT in *. lia.
  Qed.

  (* ---- a whole dispatch: the step function and its re-dispatches ---- *)
  Definition PhiR' (g : cfg) : Z := if pos g <=? size then PhiR g else 0%Z.
  (* termination measure of the whole scan: pending events + weighted potential *)
  Definition MM (g : cfg) : Z := (Z.of_nat (List.length (finds g)) + 7 * PhiR' g)%Z.

  Lemma PhiR_pos g : pos g <= size -> (6 <= PhiR g)%Z.
  Proof. intros H. unfold PhiR, KPOT. destruct (ok_sane (reg g)) as (H0 & _). lia. Qed.

  Lemma PhiR'_nonneg g : (0 <= PhiR' g)%Z.
  Proof.
    unfold PhiR'. destruct (pos g <=? size) eqn:E; [|lia]. apply N.leb_le in E.
    pose proof (PhiR_pos g E). lia.
  Qed.

  Lemma PhiR'_adv g :
    PhiR' (advance g 1) =
    if pos g + 1 <=? size then (KPOT * (Z.of_N size + 1 - (Z.of_N (pos g) + 1)) + rho ty (reg g))%Z else 0%Z.
  Proof.
    unfold PhiR', PhiR, advance. cbn [pos reg set_zip].
    destruct (pos g + 1 <=? size); [|reflexivity]. f_equal. f_equal. lia.
  Qed.

  Lemma dispatch_sound c s00 :
    c < 256 ->
    forall fuel g,
      (c = 0 -> pos g = size) -> (c <> 0 -> pos g < size) ->
      InvTy s00 g ->
      (rho ty (reg g) < Z.of_nat fuel)%Z ->
      match dispatch jsc_len enum_len data size fuel c g with
      | Ok g' =>
        Zip size g' /\ InvEv s00 g' /\ pos g' <= size /\ lastp g' = lastp g /\
        (pos g' + 1 <= size -> InvTy s00 (advance g' 1)) /\
        (MM (advance g' 1) + 1 <= MM g)%Z
      | Err p _ => p <= size
      | Panic _ => False
      | OutOfFuel => False
      end.
  Proof.
    intros Hc. induction fuel as [|fuel IH]; intros g Hc0 Hc1 HI Hfuel.
    - destruct (ok_sane (reg g)) as (H0 & _). simpl in Hfuel. lia.
    - cbn [dispatch].
      destruct HI as (Hv & HE & HZ & HL).
      assert (HI : InvTy s00 g) by exact (conj Hv (conj HE (conj HZ HL))).
      assert (Hposle : pos g <= size) by (destruct HE as (_ & _ & _ & _ & _ & _ & H & _); exact H).
      destruct (values_ok (lastp g) HL) as [vs Hvs].
      assert (Hprev : tree_uses_prev (step_tree (reg g)) = true -> pre g <> [] /\ pos g <= size).
      { intros Hp. pose proof (ok_prev _ Hp) as H1.
        destruct HE as (_ & _ & _ & _ & _ & Hposlb & Hsz & _). simpl in Hposlb.
        destruct HZ as [Z1 _]. split; [|exact Hsz].
        intros Epre. rewrite Epre in Z1. simpl in Z1. lia. }
      destruct (eval_tree_no_panic data size (step_tree (reg g)) c g (fun _ _ => I) (ex_intro _ vs Hvs) Hprev) as [ax Hax].
      rewrite Hax. cbn [obind].
      pose proof (eval_tree_leaf data size _ _ _ _ Hax) as Hin.
      destruct ax as [acts x]. cbn [fst snd].
      pose proof (leaf_sound c s00 g acts x Hc Hc0 Hc1 HI Hin) as Hl.
      destruct (exec_acts jsc_len enum_len acts g) as [g'|p e| |]; cbn [obind]; try exact Hl.
      destruct Hl as (HZ' & HEv & Hsz' & HLp & Hfn & Hx).
      assert (HMg : MM g = (Z.of_nat (List.length (finds g)) + 7 * PhiR g)%Z).
      { unfold MM, PhiR'. replace (pos g <=? size) with true by (symmetry; apply N.leb_le; exact Hposle). reflexivity. }
      pose proof (PhiR_pos g Hposle) as HP6.
      destruct x as [| |e].
      + (* XNil *)
        split; [exact HZ'|]. split; [exact HEv|]. split; [exact Hsz'|]. split; [exact HLp|].
        destruct Hx as [[_ Hp]|[Ha Hb]].
        * split; [intros; lia|].
          rewrite HMg. unfold MM. rewrite PhiR'_adv.
          replace (pos g' + 1 <=? size) with false by (symmetry; apply N.leb_gt; lia).
          unfold advance. cbn [finds set_zip]. unfold MAXACTS in Hfn. lia.
        * split; [exact Ha|].
          rewrite HMg. unfold MM. rewrite PhiR'_adv.
          unfold advance. cbn [finds set_zip]. unfold MAXACTS in Hfn.
          destruct (pos g' + 1 <=? size); lia.
      + (* XRedo *)
        destruct Hx as (HI' & Hpe & Hphi).
        assert (Hfuel' : (rho ty (reg g') < Z.of_nat fuel)%Z).
        { unfold PhiR in Hphi. rewrite Hpe in Hphi. lia. }
        assert (Hc0' : c = 0 -> pos g' = size) by (rewrite Hpe; exact Hc0).
        assert (Hc1' : c <> 0 -> pos g' < size) by (rewrite Hpe; exact Hc1).
        specialize (IH g' Hc0' Hc1' HI' Hfuel').
        destruct (dispatch jsc_len enum_len data size fuel c g') as [g2|p e| |]; try exact IH.
        destruct IH as (A & B & C & D & E & F).
        split; [exact A|]. split; [exact B|]. split; [exact C|]. split; [rewrite D; exact HLp|].
        split; [exact E|].
        assert (HMg' : MM g' = (Z.of_nat (List.length (finds g')) + 7 * PhiR g')%Z).
        { unfold MM, PhiR'. replace (pos g' <=? size) with true by (symmetry; apply N.leb_le; lia). reflexivity. }
        rewrite HMg' in F. rewrite HMg. unfold MAXACTS in Hfn. lia.
      + (* XErr *) exact Hsz'.
  Qed.
End Dispatch.
