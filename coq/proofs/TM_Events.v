(* Table metatheory, part 3: lexeme events and positions (pass E of TableCheck). *)
From Coq Require Import List NArith ZArith Bool String Lia.
From JV.lib Require Import Bytes.
From JV.gen Require Import ScannerTable.
From JV.model Require Import ScannerSem TableCheck.
From JV.proofs Require Import TM_Basics.
Import ListNotations.
Open Scope N_scope.

Arguments evt_in : simpl never.
Arguments pair_ok : simpl never.

(* the schema library reports body lengths / error positions inside the text it was given *)
Definition len_sane (f : bytes -> len_result) : Prop :=
  forall s, match f s with
            | LenOk n => n <= N.of_nat (List.length s)
            | LenErr p _ => p <= N.of_nat (List.length s)
            end.

Lemma fwd_len n : forall a b,
  (n <= List.length b)%nat ->
  List.length (fst (fwd n a b)) = (List.length a + n)%nat /\
  List.length (snd (fwd n a b)) = (List.length b - n)%nat.
Proof.
  induction n as [|n IH]; intros a b H; simpl.
  - destruct b; simpl; lia.
  - destruct b as [|c b]; simpl in *; [lia|].
    destruct (IH (c :: a) b) as [H1 H2]; [lia|]. rewrite H1, H2. simpl. lia.
Qed.

Lemma fwd_rev n : forall a b, rev (fst (fwd n a b)) ++ snd (fwd n a b) = rev a ++ b.
Proof.
  induction n as [|n IH]; intros a b; simpl.
  - destruct b; reflexivity.
  - destruct b as [|c b]; [reflexivity|]. rewrite IH. simpl. rewrite <- app_assoc. reflexivity.
Qed.

Section Events.
  Variable size : N.

  (* the frontier automaton over the emitted events: open lexeme (begin event, position)
     and frontier F = first position a new lexeme may start at *)
  Definition ostate : Set := option (evt * N).

  Definition ev_step (s : ostate * N) (ev : evt * N) : option (ostate * N) :=
    let (o, F) := s in
    let (e, q) := ev in
    if evt_in e evt_beginning then
      match o with
      | None => if (F <=? q) && (q <=? size) then Some (Some (e, q), q) else None
      | Some _ => None
      end
    else if evt_in e evt_ending then
      match o with
      | Some (b, qb) => if pair_ok b e && (F <=? q + 1) && (q + 1 <=? size) then Some (None, q + 1) else None
      | None => None
      end
    else if evt_in e evt_single then
      match o with
      | None => if (F <=? q) && (q + 1 <=? size) then Some (None, q + 1) else None
      | Some _ => None
      end
    else None.

  Fixpoint ev_run (s : ostate * N) (evs : list (evt * N)) : option (ostate * N) :=
    match evs with
    | [] => Some s
    | ev :: r => match ev_step s ev with Some s' => ev_run s' r | None => None end
    end.

  Lemma ev_run_app s a b :
    ev_run s (a ++ b) = match ev_run s a with Some s' => ev_run s' b | None => None end.
  Proof.
    revert s; induction a as [|x a IH]; intros s; simpl; [reflexivity|].
    destruct (ev_step s x); [apply IH | reflexivity].
  Qed.

  (* the read position as a zipper: lengths only *)
  Definition Zip (g : cfg) : Prop :=
    N.of_nat (List.length (pre g)) = pos g /\ N.of_nat (List.length (rest g)) + pos g = size.

  Lemma advance_zip g n :
    Zip g -> n <= N.of_nat (List.length (rest g)) -> Zip (advance g n) /\ pos (advance g n) = pos g + n.
  Proof.
    intros [H1 H2] Hn. unfold advance, Zip. simpl.
    destruct (fwd_len (N.to_nat n) (pre g) (rest g)) as [L1 L2]; [lia|].
    rewrite L1, L2. repeat split; lia.
  Qed.

  Lemma retreat_zip g n :
    Zip g -> n <= pos g -> Zip (retreat g n) /\ pos (retreat g n) = pos g - n.
  Proof.
    intros [H1 H2] Hn. unfold retreat, Zip. simpl.
    destruct (fwd_len (N.to_nat n) (rest g) (pre g)) as [L1 L2]; [lia|].
    rewrite L1, L2. repeat split; lia.
  Qed.

  (* concretisation of the abstract event state: c = current byte, p0 = curIndex when the
     transition started, s00 = automaton state before the pending events *)
  Definition RE (p0 : N) (s00 : ostate * N) (a : est) (g : cfg) : Prop :=
    exists o1 F1,
      ev_run s00 (finds g) = Some (o1, F1) /\
      option_map fst o1 = e_open a /\
      (Z.of_N F1 + e_gap a <= Z.of_N (pos g))%Z /\
      (e_pos a <= Z.of_N (pos g))%Z /\
      pos g <= size /\
      (e_read a = false -> pos g <= p0).

  Variable jsc_len enum_len : bytes -> len_result.
  Hypothesis jsc_sane : len_sane jsc_len.
  Hypothesis enum_sane : len_sane enum_len.

  Lemma read_body_sound f p0 s00 a g :
    len_sane f -> RE p0 s00 a g -> Zip g ->
    match read_body f g with
    | Ok g' => RE p0 s00 {| e_open := e_open a; e_gap := e_gap a; e_pos := e_pos a; e_read := true |} g' /\ Zip g'
    | Err p _ => p <= size
    | _ => False
    end.
  Proof.
    intros Hf (o1 & F1 & Hrun & Hop & Hgap & Hpos & Hsz & _) Hz.
    unfold read_body. specialize (Hf (rest g)).
    destruct (f (rest g)) as [n|p msg].
    - destruct (0 <? n) eqn:En.
      + apply N.ltb_lt in En.
        destruct (advance_zip g (n - 1) Hz) as [Hz' Hp']; [lia|].
        split; [|exact Hz'].
        exists o1, F1. destruct Hz as [_ Hz2].
        split; [unfold advance; simpl; exact Hrun|].
        split; [exact Hop|].
        split; [simpl; lia|].
        split; [simpl; lia|].
        split; [lia|].
        simpl. intros; discriminate.
      + split; [|exact Hz]. exists o1, F1.
        split; [exact Hrun|]. split; [exact Hop|]. split; [exact Hgap|]. split; [exact Hpos|].
        split; [exact Hsz|]. simpl. intros; discriminate.
    - destruct Hz as [_ Hz2]. lia.
  Qed.

  Lemma estep_sound c p0 s00 a a' x g :
    (c = 0 -> p0 = size) -> (c <> 0 -> p0 < size) ->
    RE p0 s00 a g -> Zip g ->
    estep c a x = Some a' ->
    (x = APop -> sstk g <> []) ->
    match exec_act jsc_len enum_len x g with
    | Ok g' => RE p0 s00 a' g' /\ Zip g'
    | Err p _ => p <= size
    | _ => False
    end.
  Proof.
    intros Hc0 Hc1 HR Hz Hs Hpop.
    destruct x; simpl in Hs; simpl.
    - (* AFound *)
      destruct HR as (o1 & F1 & Hrun & Hop & Hgap & Hpos & Hsz & Hrd).
      destruct (e_read a) eqn:Erd; [discriminate|].
      destruct (Z.of_N back <=? e_pos a)%Z eqn:Eb; simpl in Hs; [|discriminate].
      apply Z.leb_le in Eb.
      assert (Hback : back <= pos g) by lia.
      replace (pos g <? back) with false by (symmetry; apply N.ltb_ge; exact Hback).
      specialize (Hrd eq_refl).
      assert (Hup : pos g - back + 1 <= size \/ (c = 0 /\ back = 0)).
      { destruct (N.eq_dec c 0) as [E|E]; [|left; specialize (Hc1 E); lia].
        destruct (N.eq_dec back 0) as [E2|E2]; [right; split; assumption | left; lia]. }
      split; [|exact Hz].
      unfold RE. simpl. rewrite ev_run_app, Hrun. simpl.
      destruct (evt_in e evt_beginning) eqn:K1; rewrite ?K1 in Hs.
      { destruct (e_open a) eqn:Eo; [discriminate|].
        destruct (Z.of_N back <=? e_gap a)%Z eqn:Eg; [|discriminate]. apply Z.leb_le in Eg.
        injection Hs as <-. simpl.
        destruct o1 as [[ob oq]|]; simpl in Hop; [discriminate|].
        replace (F1 <=? pos g - back) with true by (symmetry; apply N.leb_le; lia).
        replace (pos g - back <=? size) with true by (symmetry; apply N.leb_le; lia).
        simpl. eexists _, _. split; [reflexivity|]. simpl.
        repeat split; first [lia | intros _; exact Hrd]. }
      destruct (evt_in e evt_ending) eqn:K2; rewrite ?K2 in Hs.
      { destruct (e_open a) as [bg|] eqn:Eo; [|discriminate].
        destruct (pair_ok bg e && (Z.of_N back <=? e_gap a + 1)%Z && (negb (c =? 0) || (1 <=? Z.of_N back)%Z)) eqn:Ec; [|discriminate].
        apply andb_true_iff in Ec as [Ec Ec3]. apply andb_true_iff in Ec as [Ec1 Ec2].
        apply Z.leb_le in Ec2.
        injection Hs as <-. simpl.
        destruct o1 as [[ob oq]|]; simpl in Hop; [|discriminate]. injection Hop as ->.
        rewrite Ec1.
        assert (Hq : pos g - back + 1 <= size).
        { destruct Hup as [H|[H1 H2]]; [exact H|]. subst c back. simpl in Ec3. discriminate. }
        replace (F1 <=? pos g - back + 1) with true by (symmetry; apply N.leb_le; lia).
        replace (pos g - back + 1 <=? size) with true by (symmetry; apply N.leb_le; lia).
        simpl. eexists _, _. split; [reflexivity|]. simpl.
        repeat split; first [lia | intros _; exact Hrd]. }
      destruct (evt_in e evt_single) eqn:K3; rewrite ?K3 in Hs; [|discriminate].
      { destruct (e_open a) eqn:Eo; [discriminate|].
        destruct ((Z.of_N back <=? e_gap a)%Z && (negb (c =? 0) || (1 <=? Z.of_N back)%Z)) eqn:Ec; [|discriminate].
        apply andb_true_iff in Ec as [Ec2 Ec3]. apply Z.leb_le in Ec2.
        injection Hs as <-. simpl.
        destruct o1 as [[ob oq]|]; simpl in Hop; [discriminate|].
        assert (Hq : pos g - back + 1 <= size).
        { destruct Hup as [H|[H1 H2]]; [exact H|]. subst c back. simpl in Ec3. discriminate. }
        replace (F1 <=? pos g - back) with true by (symmetry; apply N.leb_le; lia).
        replace (pos g - back + 1 <=? size) with true by (symmetry; apply N.leb_le; lia).
        simpl. eexists _, _. split; [reflexivity|]. simpl.
        repeat split; first [lia | intros _; exact Hrd]. }
    - (* ASetStep *) injection Hs as <-. split; [exact HR | exact Hz].
    - (* APush *) injection Hs as <-. split; [exact HR | exact Hz].
    - (* APushCur *) injection Hs as <-. split; [exact HR | exact Hz].
    - (* APop *)
      injection Hs as <-. specialize (Hpop eq_refl).
      destruct (sstk g) as [|t r]; [congruence|]. split; [exact HR | exact Hz].
    - (* ARewind *)
      destruct HR as (o1 & F1 & Hrun & Hop & Hgap & Hpos & Hsz & Hrd).
      destruct (Z.of_N n <=? e_pos a)%Z eqn:En; [|discriminate]. apply Z.leb_le in En.
      injection Hs as <-.
      assert (Hn : n <= pos g) by lia.
      replace (pos g <? n) with false by (symmetry; apply N.ltb_ge; exact Hn).
      destruct (retreat_zip g n Hz Hn) as [Hz' Hp'].
      split; [|exact Hz'].
      exists o1, F1.
      split; [unfold retreat; simpl; exact Hrun|].
      split; [exact Hop|].
      rewrite Hp'. simpl.
      split; [lia|]. split; [lia|]. split; [lia|].
      intros H. specialize (Hrd H). lia.
    - (* AReadSchema *)
      injection Hs as <-. apply read_body_sound; assumption.
    - (* AReadEnum *)
      injection Hs as <-. apply read_body_sound; assumption.
  Qed.
End Events.
