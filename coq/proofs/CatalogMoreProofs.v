(* More theorems about Catalog.build (model/Catalog.v), for props/C19.v and props/C04.v:
     - which tags the interaction of a GIVEN method directive carries (the position-wise form of
       CatalogProofs.explicit_tags_win_lemma), and its readings: the URL's Tags wherever it stands among
       the URL's children; a method's own Tags; a root-level method takes the automatic tag of its path;
     - JSON-RPC Params and Result are independent slots: the two adders commute.
   Builds on CatalogProofs.v, FaithfulProofs.v, ContentProofs.v. *)
From Coq Require Import List NArith Bool String Lia.
From JV.lib Require Import Bytes.
From JV.gen Require Import DirectiveTables TagName.
From JV.model Require Import ScannerSem Core Description PathParams TagTitle Catalog.
From JV.proofs Require Import BytesLemmas TagNameProofs CatalogProofs FaithfulProofs ContentProofs FaithfulExamples.
Import ListNotations.
Open Scope N_scope.

(* ------------------------------------------------------------------------------------- *)
(* every node that occurs in the forest is one of its positions                             *)

Lemma positions_self t anc : In (t, anc) (positions t anc).
Proof. rewrite positions_eq. left; reflexivity. Qed.

Lemma positions_kids_intro t anc ks k q :
  In k ks -> In q (positions k (t :: anc)) -> In q (positions_kids t anc ks).
Proof.
  induction ks as [|k0 r IH]; simpl; intros Hk Hq; [destruct Hk|].
  apply in_or_app. destruct Hk as [->|Hk]; [left; exact Hq | right; exact (IH Hk Hq)].
Qed.

Lemma positions_down r : forall ra p a k,
  In (p, a) (positions r ra) -> In k (tree_kids p) -> In (k, p :: a) (positions r ra).
Proof.
  induction r as [d ks IH] using dtree_ind2. intros ra p a k Hin Hk.
  rewrite positions_eq in Hin. rewrite positions_eq. right. destruct Hin as [Hin|Hin].
  - inversion Hin; subst p a. eapply positions_kids_intro; [exact Hk | apply positions_self].
  - apply positions_kids_in in Hin as [k0 [Hk0 Hin]].
    eapply positions_kids_intro; [exact Hk0|]. rewrite Forall_forall in IH. simpl in Hk0.
    apply (IH k0 Hk0); assumption.
Qed.

Lemma positions_all_root ts t : In t ts -> In (t, []) (positions_all ts).
Proof.
  induction ts as [|t0 r IH]; simpl; intro H; [destruct H|].
  apply in_or_app. destruct H as [->|H]; [left; apply positions_self | right; exact (IH H)].
Qed.

Lemma positions_all_down ts p a k :
  In (p, a) (positions_all ts) -> In k (tree_kids p) -> In (k, p :: a) (positions_all ts).
Proof.
  induction ts as [|t0 r IH]; simpl; intros H Hk; [destruct H|].
  apply in_or_app. apply in_app_or in H as [H|H]; [left; apply positions_down; assumption | right; exact (IH H Hk)].
Qed.

Lemma occurs_positions ts t anc : occurs ts t anc -> In (t, anc) (positions_all ts).
Proof.
  induction 1 as [t Ht|p anc t _ IH Hk]; [apply positions_all_root; exact Ht | apply positions_all_down; assumption].
Qed.

Lemma flat_map_nodup_same {A B} (f : A -> list B) (l : list A) : NoDup (flat_map f l) ->
  forall a b y, In a l -> In b l -> In y (f a) -> In y (f b) -> a = b.
Proof.
  induction l as [|x r IH]; simpl; intros Hnd a b y Ha Hb Hya Hyb; [destruct Ha|].
  destruct Ha as [<-|Ha]; destruct Hb as [<-|Hb].
  - reflexivity.
  - exfalso. apply (NoDup_app_disjoint _ _ y Hnd); [|exact Hya]. apply in_flat_map. exists b. split; assumption.
  - exfalso. apply (NoDup_app_disjoint _ _ y Hnd); [|exact Hyb]. apply in_flat_map. exists a. split; assumption.
  - apply NoDup_app_r in Hnd. exact (IH Hnd a b y Ha Hb Hya Hyb).
Qed.

Lemma made_by_inter_delta t anc i : made_by t anc i -> inter_delta t anc = [i].
Proof.
  unfold made_by, inter_delta, dk. destruct i as [p m pa]. cbv zeta. simpl i_proto. simpl i_method. simpl i_path.
  destruct p.
  - intros [A [B C]]. rewrite A, B. subst m. reflexivity.
  - intros [A B]. rewrite A. change (is_http_method KMethod) with false. change (kind_eqb KMethod KMethod) with true.
    cbv iota. rewrite B. reflexivity.
Qed.

(* the first child of a kind *)
Lemma child_of_kind_first k l1 x l2 :
  (forall y, In y l1 -> dk y <> k) -> dk x = k -> child_of_kind k (l1 ++ x :: l2) = Some (tree_dir x).
Proof.
  unfold child_of_kind, dk. induction l1 as [|y r IH]; simpl; intros H Hx.
  - rewrite (proj2 (kind_eqb_eq _ _) Hx). reflexivity.
  - destruct (kind_eqb (d_kind (tree_dir y)) k) eqn:E.
    + apply kind_eqb_eq in E. exfalso. exact (H y (or_introl eq_refl) E).
    + apply IH; [intros z Hz; apply H; right; exact Hz | exact Hx].
Qed.

Lemma child_of_kind_none k l : (forall y, In y l -> dk y <> k) -> child_of_kind k l = None.
Proof.
  unfold child_of_kind, dk. induction l as [|y r IH]; simpl; intro H; [reflexivity|].
  destruct (kind_eqb (d_kind (tree_dir y)) k) eqn:E.
  - apply kind_eqb_eq in E. exfalso. exact (H y (or_introl eq_refl) E).
  - apply IH. intros z Hz; apply H; right; exact Hz.
Qed.

Lemma http_method_not_url k : is_http_method k = true -> kind_eqb k KURL = false.
Proof. destruct k; intro H; vm_compute in H; try discriminate H; reflexivity. Qed.

(* ------------------------------------------------------------------------------------- *)
(* the tags of the interaction of a given method directive                                  *)

Section TagsAt.
  Variable path_props : coords -> option (list bytes).
  Variable body_text : coords -> bytes.
  Variable banned : list kind.
  Variable post : list dtree.
  Variable c : catalog.
  Hypothesis Hbuild : build path_props body_text banned post = COk c.

  (* position-wise: the method directive at (t, anc) makes one id, that id is a key of the catalog, and the
     entry under it carries exactly tag_spec t anc *)
  Lemma tags_at_position_lemma : forall t anc,
    occurs post t anc -> method_kind t = true ->
    exists i x, inter_delta t anc = [i] /\ made_by t anc i /\ In (i, x) (c_inters c) /\
                itags x = tag_spec t anc i.
  Proof.
    intros t anc Hocc Hm. pose proof (occurs_positions _ _ _ Hocc) as Hpos.
    destruct (every_method_makes_an_interaction_lemma _ _ _ _ _ Hbuild t anc Hpos Hm) as [i [Hi [Hmade Hkey]]].
    apply in_map_fst_exists in Hkey as [x Hx].
    exists i, x. split; [exact Hi|]. split; [exact Hmade|]. split; [exact Hx|].
    destruct (build_inv _ _ _ _ _ Hbuild) as [Inv _].
    destruct (ci_src _ _ Inv i x Hx) as [_ [t' [anc' [Hocc' [Hmade' [Hspec _]]]]]].
    assert (E : (t', anc') = (t, anc)).
    { destruct (catalog_keys_lemma _ _ _ _ _ Hbuild) as [_ [_ [_ [_ [K _]]]]].
      destruct (keys_unique_lemma _ _ _ _ _ Hbuild) as [_ [_ [_ [_ Hnd]]]]. rewrite K in Hnd.
      unfold method_ids in Hnd.
      apply (flat_map_nodup_same _ _ Hnd (t', anc') (t, anc) i).
      - apply occurs_positions; exact Hocc'.
      - exact Hpos.
      - simpl. rewrite (made_by_inter_delta _ _ _ Hmade'). left; reflexivity.
      - simpl. rewrite Hi. left; reflexivity. }
    inversion E; subst t' anc'. exact Hspec.
  Qed.

  (* a method's own Tags (its first Tags child) decides, whatever the ancestors *)
  Lemma own_tags_win_lemma : forall m anc l1 td l2,
    occurs post m anc -> method_kind m = true ->
    tree_kids m = l1 ++ td :: l2 -> (forall y, In y l1 -> dk y <> KTags) -> dk td = KTags ->
    exists i x, inter_delta m anc = [i] /\ In (i, x) (c_inters c) /\ itags x = d_unnamed (tree_dir td).
  Proof.
    intros m anc l1 td l2 Hocc Hm Hk Hl1 Htd.
    destruct (tags_at_position_lemma m anc Hocc Hm) as [i [x [Hi [_ [Hx Ht]]]]].
    exists i, x. split; [exact Hi|]. split; [exact Hx|]. rewrite Ht.
    destruct (tag_spec_cases m anc i) as [A _]. apply A. rewrite Hk. apply child_of_kind_first; assumption.
  Qed.

  (* the URL's Tags (its first Tags child) applies to every method child without own Tags, wherever
     the method stands among the URL's children: before or after the Tags child *)
  Lemma url_tags_any_position_lemma : forall u anc l1 td l2 m,
    occurs post u anc -> dk u = KURL ->
    tree_kids u = l1 ++ td :: l2 -> (forall y, In y l1 -> dk y <> KTags) -> dk td = KTags ->
    In m (l1 ++ l2) -> method_kind m = true -> (forall y, In y (tree_kids m) -> dk y <> KTags) ->
    exists i x, inter_delta m (u :: anc) = [i] /\ In (i, x) (c_inters c) /\ itags x = d_unnamed (tree_dir td).
  Proof.
    intros u anc l1 td l2 m Hocc Hu Hk Hl1 Htd Hin Hm Hnone.
    assert (Hkid : In m (tree_kids u)).
    { rewrite Hk. apply in_or_app. apply in_app_or in Hin as [H|H]; [left; exact H | right; right; exact H]. }
    destruct (tags_at_position_lemma m (u :: anc) (occ_kid _ _ _ _ Hocc Hkid) Hm) as [i [x [Hi [_ [Hx Ht]]]]].
    exists i, x. split; [exact Hi|]. split; [exact Hx|]. rewrite Ht.
    destruct (tag_spec_cases m (u :: anc) i) as [_ [B _]].
    apply (B u anc (tree_dir td)); [apply child_of_kind_none; exact Hnone | reflexivity | exact Hu |].
    rewrite Hk. apply child_of_kind_first; assumption.
  Qed.

  (* a path-bearing HTTP method at the root of the forest (also one hoisted out of a URL block) has no URL
     to take tags from: without own Tags it carries the single automatic tag of its own path *)
  Lemma root_method_auto_tag_lemma : forall m,
    In m post -> is_http_method (dk m) = true -> (forall y, In y (tree_kids m) -> dk y <> KTags) ->
    exists x, In ({| i_proto := PHttp; i_method := method_name (dk m); i_path := named (tree_dir m) (bs "Path") |}, x)
                 (c_inters c) /\
              itags x = [auto_tag_name (named (tree_dir m) (bs "Path"))] /\
              tagName (pathTagTitle (named (tree_dir m) (bs "Path"))) = GOk (auto_tag_name (named (tree_dir m) (bs "Path"))).
  Proof.
    intros m Hin Hm Hnone.
    assert (Hmk : method_kind m = true) by (unfold method_kind; rewrite Hm; reflexivity).
    destruct (tags_at_position_lemma m [] (occ_root _ _ Hin) Hmk) as [i [x [Hi [_ [Hx Ht]]]]].
    assert (Ei : i = {| i_proto := PHttp; i_method := method_name (dk m); i_path := named (tree_dir m) (bs "Path") |}).
    { unfold inter_delta in Hi. rewrite Hm in Hi. unfold path_of, path_raw, dk in *.
      rewrite (http_method_not_url _ Hm), Hm in Hi. cbv beta iota in Hi. rewrite andb_true_l in Hi.
      destruct (negb (beq (named (tree_dir m) (bs "Path")) [])); [|discriminate Hi].
      destruct (has_slash_prefix (named (tree_dir m) (bs "Path"))); [|discriminate Hi].
      inversion Hi. reflexivity. }
    subst i. exists x. split; [exact Hx|]. split; [|apply auto_tag_name_spec].
    rewrite Ht. destruct (tag_spec_cases m [] {| i_proto := PHttp; i_method := method_name (dk m); i_path := named (tree_dir m) (bs "Path") |}) as [_ [_ C]].
    apply C; [apply child_of_kind_none; exact Hnone | left; reflexivity].
  Qed.
End TagsAt.

(* ------------------------------------------------------------------------------------- *)
(* example: the hypotheses are satisfiable.
   JSIGHT 0.3 / TAG @a / TAG @b / URL /u { GET {200 any}, Tags @a, POST {Tags @b, 200 any} } / GET /v/w {200 any} /
   URL /r { Protocol json-rpc-2.0, Method foo, Tags @a, Method bar {Tags @b} } *)
Section TagsExample.
  Local Open Scope string_scope.
  Definition ex_any200 (pos : N) : dtree := L KHTTPResponseCode "200" pos [("SchemaNotation", "any")] [] "" None [].
  Definition ex_u_get : dtree := L KGet "GET" 40 [] [] "" None [ex_any200 46].
  Definition ex_u_tags : dtree := L KTags "Tags" 56 [] ["@a"] "" None [].
  Definition ex_u_post : dtree := L KPost "POST" 64 [] [] "" None [L KTags "Tags" 71 [] ["@b"] "" None []; ex_any200 79].
  Definition ex_u : dtree := L KURL "URL" 31 [("Path", "/u")] [] "" None [ex_u_get; ex_u_tags; ex_u_post].
  Definition ex_root_get : dtree := L KGet "GET" 90 [("Path", "/v/w")] [] "" None [ex_any200 101].
  Definition ex_r_foo : dtree := L KMethod "Method" 150 [("MethodName", "foo")] [] "" None [].
  Definition ex_r_tags : dtree := L KTags "Tags" 163 [] ["@a"] "" None [].
  Definition ex_r_bar : dtree := L KMethod "Method" 171 [("MethodName", "bar")] [] "" None [L KTags "Tags" 184 [] ["@b"] "" None []].
  Definition ex_r : dtree :=
    L KURL "URL" 111 [("Path", "/r")] [] "" None
      [L KProtocol "Protocol" 120 [("ProtocolName", "json-rpc-2.0")] [] "" None []; ex_r_foo; ex_r_tags; ex_r_bar].
  Definition ex_tags_forest : list dtree :=
    [ L KJsight "JSIGHT" 0 [("Version", "0.3")] [] "" None [];
      L KTAG "TAG" 11 [("TagName", "@a")] [] "" None []; L KTAG "TAG" 21 [("TagName", "@b")] [] "" None [];
      ex_u; ex_root_get; ex_r ].
End TagsExample.

Lemma tags_positions_example :
  exists c, ex_build ex_tags_forest = COk c /\
    map (fun e => (iid_string (fst e), itags (snd e))) (c_inters c) =
      [ (bs "http GET /u", [bs "@a"]); (bs "http POST /u", [bs "@b"]); (bs "http GET /v/w", [bs "@v"]);
        (bs "json-rpc-2.0 foo /r", [bs "@a"]); (bs "json-rpc-2.0 bar /r", [bs "@b"]) ] /\
    (* the hypotheses of url_tags_any_position: the method before and the method after the Tags child *)
    occurs ex_tags_forest ex_u [] /\ dk ex_u = KURL /\
    tree_kids ex_u = [ex_u_get] ++ ex_u_tags :: [ex_u_post] /\ dk ex_u_tags = KTags /\
    method_kind ex_u_get = true /\ forallb (fun y => negb (kind_eqb (dk y) KTags)) (tree_kids ex_u_get) = true /\
    occurs ex_tags_forest ex_r [] /\ dk ex_r = KURL /\
    tree_kids ex_r = firstn 2 (tree_kids ex_r) ++ ex_r_tags :: [ex_r_bar] /\ In ex_r_foo (firstn 2 (tree_kids ex_r)) /\
    method_kind ex_r_foo = true /\ tree_kids ex_r_foo = [] /\
    (* own_tags_win: POST under /u, Method bar under /r *)
    method_kind ex_u_post = true /\ (exists td l2, tree_kids ex_u_post = [] ++ td :: l2 /\ dk td = KTags) /\
    method_kind ex_r_bar = true /\ (exists td l2, tree_kids ex_r_bar = [] ++ td :: l2 /\ dk td = KTags) /\
    (* root_method_auto_tag *)
    In ex_root_get ex_tags_forest /\ is_http_method (dk ex_root_get) = true /\
    forallb (fun y => negb (kind_eqb (dk y) KTags)) (tree_kids ex_root_get) = true.
Proof.
  eexists. split; [vm_compute; reflexivity|]. split; [vm_compute; reflexivity|].
  split; [apply occ_root; simpl; tauto|]. split; [reflexivity|]. split; [reflexivity|]. split; [reflexivity|].
  split; [reflexivity|]. split; [reflexivity|].
  split; [apply occ_root; simpl; tauto|]. split; [reflexivity|]. split; [reflexivity|].
  split; [simpl; tauto|]. split; [reflexivity|]. split; [reflexivity|].
  split; [reflexivity|]. split; [eexists; eexists; split; reflexivity|].
  split; [reflexivity|]. split; [eexists; eexists; split; reflexivity|].
  split; [simpl; tauto|]. split; reflexivity.
Qed.

(* ------------------------------------------------------------------------------------- *)
(* JSON-RPC Params and Result are independent slots: the two adders commute                 *)

Definition set_params (s : sdesc) (h : rpc_i) : rpc_i :=
  {| ri_annot := ri_annot h; ri_desc := ri_desc h; ri_tags := ri_tags h; ri_params := Some s; ri_result := ri_result h |}.
Definition set_result (s : sdesc) (h : rpc_i) : rpc_i :=
  {| ri_annot := ri_annot h; ri_desc := ri_desc h; ri_tags := ri_tags h; ri_params := ri_params h; ri_result := Some s |}.
Definition setf (q : bool) : sdesc -> rpc_i -> rpc_i := if q then set_params else set_result.
Definition getf (q : bool) (h : rpc_i) : option sdesc := if q then ri_params h else ri_result h.

Lemma getf_setf_other q s h : getf q (setf (negb q) s h) = getf q h.
Proof. destruct q; reflexivity. Qed.

Section ParamsResult.
  Variable body_text : coords -> bytes.
  Variable banned : list kind.

  (* the adder of a Params (q = true) / Result (q = false) directive, written out *)
  Definition slot_step (q : bool) (t : dtree) (anc : list dtree) (b : bstate) : cres bstate :=
    let d := tree_dir t in
    if kind_in (d_kind d) banned then CErr (kw_err d (CENotAllowed (d_kind d)))
    else if negb (beq (d_annot d) []) then kerr d "annotation is forbidden"
    else match d_body d with
    | None => kerr d "empty body"
    | Some _ =>
      match rpc_id d anc with
      | IdErr cls => kerr d cls
      | IdOk i =>
        match get_rpc (b_cat b) i with
        | None => kerr d "resource not found"
        | Some h =>
          match getf q h with
          | Some _ => kerr d "not a unique directive"
          | None => COk (with_cat b (upd_rpc (b_cat b) i (setf q (schema_of d))))
          end
        end
      end
    end.

  Lemma add_directive_params t anc b : dk t = KParams -> add_directive body_text banned t anc b = slot_step true t anc b.
  Proof. unfold dk. intro Hk. unfold add_directive, slot_step. cbv zeta. rewrite Hk. reflexivity. Qed.

  Lemma add_directive_result t anc b : dk t = KResult -> add_directive body_text banned t anc b = slot_step false t anc b.
  Proof. unfold dk. intro Hk. unfold add_directive, slot_step. cbv zeta. rewrite Hk. reflexivity. Qed.

  Lemma get_rpc_upd c i f j :
    get_rpc (upd_rpc c i f) j = match get_rpc c j with Some h => Some (if iid_eqb j i then f h else h) | None => None end.
  Proof.
    unfold get_rpc, upd_rpc. simpl. rewrite om_get_update.
    destruct (om_get iid_eqb (c_inters c) j) as [[h|r]|]; try reflexivity; destruct (iid_eqb j i); reflexivity.
  Qed.

  Lemma upd_rpc_commute q c i1 s1 i2 s2 :
    upd_rpc (upd_rpc c i1 (setf q s1)) i2 (setf (negb q) s2) = upd_rpc (upd_rpc c i2 (setf (negb q) s2)) i1 (setf q s1).
  Proof.
    unfold upd_rpc, upd_inters. simpl. f_equal. unfold om_update. rewrite !map_map. apply map_ext.
    intros [k [h|r]]; simpl; destruct (iid_eqb k i1) eqn:E1; destruct (iid_eqb k i2) eqn:E2; simpl;
      rewrite ?E1, ?E2; try reflexivity; destruct q; reflexivity.
  Qed.

  (* when slot_step succeeds *)
  Lemma slot_step_ok q t anc b b1 : slot_step q t anc b = COk b1 ->
    exists i h, kind_in (d_kind (tree_dir t)) banned = false /\ negb (beq (d_annot (tree_dir t)) []) = false /\
                d_body (tree_dir t) <> None /\ rpc_id (tree_dir t) anc = IdOk i /\
                get_rpc (b_cat b) i = Some h /\ getf q h = None /\
                b1 = with_cat b (upd_rpc (b_cat b) i (setf q (schema_of (tree_dir t)))).
  Proof.
    unfold slot_step, kerr. cbv zeta. intro H. walk H. inversion H; subst b1.
    eexists; eexists. repeat split; try eassumption; try reflexivity. intro E; discriminate E.
  Qed.

  Lemma slot_step_intro q t anc b i h :
    kind_in (d_kind (tree_dir t)) banned = false -> negb (beq (d_annot (tree_dir t)) []) = false ->
    d_body (tree_dir t) <> None -> rpc_id (tree_dir t) anc = IdOk i ->
    get_rpc (b_cat b) i = Some h -> getf q h = None ->
    slot_step q t anc b = COk (with_cat b (upd_rpc (b_cat b) i (setf q (schema_of (tree_dir t))))).
  Proof.
    intros A B C D E F. unfold slot_step. cbv zeta. rewrite A, B, D, E, F.
    destruct (d_body (tree_dir t)); [reflexivity | contradiction].
  Qed.

  (* slot q then the other slot succeeds => the other slot then slot q succeeds, with the same state *)
  Lemma slots_commute q x ax y ay b b1 b' :
    slot_step q x ax b = COk b1 -> slot_step (negb q) y ay b1 = COk b' ->
    exists b2, slot_step (negb q) y ay b = COk b2 /\ slot_step q x ax b2 = COk b'.
  Proof.
    intros H1 H2.
    apply slot_step_ok in H1 as [i1 [h1 [A1 [B1 [C1 [D1 [E1 [F1 ->]]]]]]]].
    apply slot_step_ok in H2 as [i2 [h2' [A2 [B2 [C2 [D2 [E2 [F2 ->]]]]]]]].
    rewrite b_cat_with_cat in *. rewrite get_rpc_upd in E2.
    destruct (get_rpc (b_cat b) i2) as [h2|] eqn:G2; [|discriminate E2]. inversion E2; subst h2'; clear E2.
    assert (F2' : getf (negb q) h2 = None).
    { destruct (iid_eqb i2 i1); [|exact F2]. destruct q; exact F2. }
    eexists. split; [apply (slot_step_intro (negb q) y ay b i2 h2); assumption|].
    rewrite (slot_step_intro q x ax _ i1 (if iid_eqb i1 i2 then setf (negb q) (schema_of (tree_dir y)) h1 else h1)); try assumption.
    - rewrite b_cat_with_cat. rewrite <- upd_rpc_commute. reflexivity.
    - rewrite b_cat_with_cat, get_rpc_upd, E1. reflexivity.
    - destruct (iid_eqb i1 i2); [|exact F1]. rewrite getf_setf_other. exact F1.
  Qed.

  Lemma run_two x ax y ay b b' :
    run body_text banned [(x, ax); (y, ay)] b = COk b' <->
    exists b1, add_directive body_text banned x ax b = COk b1 /\ add_directive body_text banned y ay b1 = COk b'.
  Proof.
    simpl. unfold cbind. split.
    - intro H. destruct (add_directive body_text banned x ax b) as [b1| | |]; try discriminate H.
      exists b1. split; [reflexivity|]. destruct (add_directive body_text banned y ay b1); try discriminate H. exact H.
    - intros [b1 [H1 H2]]. rewrite H1, H2. reflexivity.
  Qed.

  (* Params then Result is accepted  <->  Result then Params is accepted; the resulting state is the same *)
  Lemma params_result_commute_lemma p ancp r ancr b b' :
    dk p = KParams -> dk r = KResult ->
    (run body_text banned [(p, ancp); (r, ancr)] b = COk b' <-> run body_text banned [(r, ancr); (p, ancp)] b = COk b').
  Proof.
    intros Hp Hr. rewrite !run_two. split; intros [b1 [H1 H2]].
    - rewrite add_directive_params in H1 by exact Hp. rewrite add_directive_result in H2 by exact Hr.
      destruct (slots_commute true p ancp r ancr b b1 b' H1 H2) as [b2 [G1 G2]].
      exists b2. rewrite add_directive_result by exact Hr. rewrite add_directive_params by exact Hp. split; assumption.
    - rewrite add_directive_result in H1 by exact Hr. rewrite add_directive_params in H2 by exact Hp.
      destruct (slots_commute false r ancr p ancp b b1 b' H1 H2) as [b2 [G1 G2]].
      exists b2. rewrite add_directive_params by exact Hp. rewrite add_directive_result by exact Hr. split; assumption.
  Qed.
End ParamsResult.

(* example: JSIGHT 0.3 / URL /r { Protocol json-rpc-2.0, Method foo { Params {..}, Result {..} } } and the same with
   Result before Params: both accepted, one and the same catalog, both slots filled *)
Section SlotsExample.
  Local Open Scope string_scope.
  Definition ex_params : dtree := L KParams "Params" 60 [] [] "" (Some (67, 68)) [].
  Definition ex_result : dtree := L KResult "Result" 72 [] [] "" (Some (79, 80)) [].
  Definition ex_slots_forest (kids : list dtree) : list dtree :=
    [ L KJsight "JSIGHT" 0 [("Version", "0.3")] [] "" None [];
      L KURL "URL" 11 [("Path", "/r")] [] "" None
        [ L KProtocol "Protocol" 20 [("ProtocolName", "json-rpc-2.0")] [] "" None [];
          L KMethod "Method" 44 [("MethodName", "foo")] [] "" None kids ] ].
End SlotsExample.

Lemma params_result_order_example :
  dk ex_params = KParams /\ dk ex_result = KResult /\
  exists c, ex_build (ex_slots_forest [ex_params; ex_result]) = COk c /\
            ex_build (ex_slots_forest [ex_result; ex_params]) = COk c /\
    map (fun e => (iid_string (fst e), cview (snd e))) (c_inters c) =
      [(bs "json-rpc-2.0 foo /r", cvx None None false [] true true)].
Proof.
  split; [reflexivity|]. split; [reflexivity|].
  eexists. split; [vm_compute; reflexivity|]. split; vm_compute; reflexivity.
Qed.

(* ------------------------------------------------------------------------------------- *)
(* validate exempts nothing: a catalog with a response (of whatever code) or a request that has no
   body descriptor does not pass                                                            *)

Lemma bodiless_response_not_validated c0 i h r :
  In (i, IHttp h) (c_inters c0) -> In r (hi_responses h) -> r_body r = None ->
  forall c, validate c0 <> COk c.
Proof.
  intros Hin Hr Hnone c V. apply validate_ok in V as [_ [_ V]].
  destruct (first_bad_response_none _ V i h r Hin Hr) as [b Hb]. rewrite Hnone in Hb. discriminate Hb.
Qed.

Lemma bodiless_request_not_validated c0 i h rq :
  In (i, IHttp h) (c_inters c0) -> hi_request h = Some rq -> q_body rq = None ->
  forall c, validate c0 <> COk c.
Proof.
  intros Hin Hr Hnone c V. apply validate_ok in V as [_ [V _]].
  destruct (first_bad_request_none _ V i h rq Hin Hr) as [b Hb]. rewrite Hnone in Hb. discriminate Hb.
Qed.

(* example: JSIGHT 0.3 / GET /x { 204 } (a no-content code, nothing said about the body) is rejected with
   "undefined response body" at the 204 directive (offset 22); with "204 empty" it is accepted *)
Section NoContentExample.
  Local Open Scope string_scope.
  Definition ex_204_forest (np : list (string * string)) : list dtree :=
    [ L KJsight "JSIGHT" 0 [("Version", "0.3")] [] "" None [];
      L KGet "GET" 11 [("Path", "/x")] [] "" None [ L KHTTPResponseCode "204" 22 np [] "" None [] ] ].
End NoContentExample.

Lemma no_content_code_example :
  (exists e, ex_build (ex_204_forest []) = CErr e /\ ce_kind e = CEMsg "undefined response body"%string /\ ce_idx e = 22) /\
  (exists c, ex_build (ex_204_forest [("SchemaNotation", "empty")%string]) = COk c /\
     map (fun e => (iid_string (fst e), cview (snd e))) (c_inters c) =
       [(bs "http GET /x", cvx None None false [(bs "204", [])] false false)]).
Proof.
  split; [eexists; split; [vm_compute; reflexivity | split; reflexivity]|].
  eexists. split; vm_compute; reflexivity.
Qed.
