(* Lemmas about the byte-string models of lib/Bytes.v *)
From Coq Require Import List NArith Bool Lia.
From JV.lib Require Import Bytes.
Import ListNotations.
Open Scope N_scope.

Lemma has_prefix_app p s : has_prefix p (p ++ s) = true.
Proof. induction p as [|x p IH]; simpl; [reflexivity|]. rewrite N.eqb_refl. exact IH. Qed.

Lemma has_prefix_spec p s : has_prefix p s = true <-> exists r, s = p ++ r.
Proof.
  revert s; induction p as [|x p IH]; intros s; simpl.
  - split; [intros _; exists s; reflexivity | reflexivity].
  - destruct s as [|y s]; [split; [discriminate | intros [r Hr]; discriminate]|].
    rewrite andb_true_iff, N.eqb_eq, IH. split.
    + intros [-> [r ->]]. exists r. reflexivity.
    + intros [r Hr]. injection Hr as -> ->. split; [reflexivity | exists r; reflexivity].
Qed.

Lemma contains_app sub pre post : contains sub (pre ++ sub ++ post) = true.
Proof.
  induction pre as [|x pre IH]; simpl.
  - destruct (sub ++ post) eqn:E; simpl.
    + destruct sub; simpl in *; [reflexivity | discriminate].
    + rewrite <- E, has_prefix_app. reflexivity.
  - rewrite IH. apply orb_true_r.
Qed.

Lemma contains_spec sub s : contains sub s = true <-> exists pre post, s = pre ++ sub ++ post.
Proof.
  split.
  - induction s as [|x s IH]; simpl; intro H.
    + rewrite orb_false_r in H. apply has_prefix_spec in H as [r Hr]. exists [], r. exact Hr.
    + apply orb_true_iff in H as [H|H].
      * apply has_prefix_spec in H as [r Hr]. exists [], r. exact Hr.
      * destruct (IH H) as (pre & post & ->). exists (x :: pre), post. reflexivity.
  - intros (pre & post & ->). apply contains_app.
Qed.

Lemma contains_byte_spec c s : contains_byte c s = true <-> In c s.
Proof.
  unfold contains_byte. rewrite existsb_exists. split.
  - intros (x & Hin & Hx). apply N.eqb_eq in Hx. subst. exact Hin.
  - intros H. exists c. split; [exact H | apply N.eqb_refl].
Qed.

(* split_byte *)
Lemma split_byte_nonempty sep s : split_byte sep s <> [].
Proof.
  destruct s as [|c s]; simpl; [discriminate|].
  destruct (c =? sep); [discriminate|].
  destruct (split_byte sep s); discriminate.
Qed.

Definition post_ok (sep : N) (post : bytes) : Prop := post = [] \/ exists post', post = sep :: post'.

Lemma split_head sep s p ps :
  split_byte sep s = p :: ps -> exists post, s = p ++ post /\ post_ok sep post /\ ~ In sep p.
Proof.
  revert p ps; induction s as [|x s IH]; intros p ps; simpl.
  - intros H. injection H as <- <-. exists []. split; [reflexivity|]. split; [left; reflexivity | intros []].
  - destruct (x =? sep) eqn:E.
    + apply N.eqb_eq in E. subst x. intros H. injection H as <- <-.
      exists (sep :: s). split; [reflexivity|]. split; [right; eexists; reflexivity | intros []].
    + destruct (split_byte sep s) as [|q qs] eqn:Es; intros H; injection H as <- <-.
      * exfalso. eapply split_byte_nonempty. exact Es.
      * destruct (IH q qs eq_refl) as (post & -> & Hp & Hn).
        exists post. split; [reflexivity|]. split; [exact Hp|].
        intros [Hx|Hx]; [subst x; rewrite N.eqb_refl in E; discriminate | exact (Hn Hx)].
Qed.

Lemma split_tail sep s p ps c :
  split_byte sep s = p :: ps -> In c ps ->
  exists pre post, s = pre ++ sep :: c ++ post /\ post_ok sep post.
Proof.
  revert p ps; induction s as [|x s IH]; intros p ps; simpl.
  - intros H. injection H as <- <-. intros [].
  - destruct (x =? sep) eqn:E.
    + apply N.eqb_eq in E. subst x. intros H. injection H as <- <-.
      destruct (split_byte sep s) as [|q qs] eqn:Es; [intros []|].
      intros [<-|Hin].
      * destruct (split_head sep s q qs Es) as (post & -> & Hp & _).
        exists [], post. split; [reflexivity | exact Hp].
      * destruct (IH q qs eq_refl Hin) as (pre & post & -> & Hp).
        exists (sep :: pre), post. split; [reflexivity | exact Hp].
    + destruct (split_byte sep s) as [|q qs] eqn:Es; intros H; injection H as <- <-.
      * intros [].
      * intros Hin. destruct (IH q qs eq_refl Hin) as (pre & post & -> & Hp).
        exists (x :: pre), post. split; [reflexivity | exact Hp].
Qed.

Lemma split_byte_app sep a b :
  split_byte sep (a ++ sep :: b) = split_byte sep a ++ split_byte sep b.
Proof.
  induction a as [|x a IH]; simpl.
  - rewrite N.eqb_refl. reflexivity.
  - destruct (x =? sep); [rewrite IH; reflexivity|].
    rewrite IH. destruct (split_byte sep a) eqn:E; [exfalso; eapply split_byte_nonempty; exact E|].
    reflexivity.
Qed.
