(* Table metatheory, part 1: decidable equalities, list predicates, eval_tree vs leaves_for. *)
From Coq Require Import List NArith ZArith Bool String Lia.
From JV.lib Require Import Bytes.
From JV.gen Require Import ScannerTable.
From JV.model Require Import ScannerSem TableCheck.
Import ListNotations.
Open Scope N_scope.

Lemma state_of_idx_idx s : state_of_idx (state_idx s) = s.
Proof. destruct s; reflexivity. Qed.

Lemma state_idx_inj a b : state_idx a = state_idx b -> a = b.
Proof. intros H. rewrite <- (state_of_idx_idx a), <- (state_of_idx_idx b), H. reflexivity. Qed.

Lemma state_eqb_eq a b : state_eqb a b = true <-> a = b.
Proof.
  unfold state_eqb. rewrite N.eqb_eq. split; [apply state_idx_inj | intros ->; reflexivity].
Qed.

Lemma state_eqb_refl a : state_eqb a a = true.
Proof. apply state_eqb_eq. reflexivity. Qed.

Lemma evt_of_idx_idx e : evt_of_idx (evt_idx e) = e.
Proof. destruct e; reflexivity. Qed.

Lemma evt_eqb_eq a b : evt_eqb a b = true <-> a = b.
Proof.
  unfold evt_eqb. rewrite N.eqb_eq. split.
  - intros H. rewrite <- (evt_of_idx_idx a), <- (evt_of_idx_idx b), H. reflexivity.
  - intros ->. reflexivity.
Qed.

Lemma opt_evt_eqb_eq a b : opt_evt_eqb a b = true <-> a = b.
Proof.
  destruct a as [x|], b as [y|]; simpl; try (split; [discriminate | discriminate]).
  - rewrite evt_eqb_eq. split; [intros ->; reflexivity | intros H; injection H; auto].
  - split; reflexivity.
Qed.

Lemma state_in_In s l : state_in s l = true <-> In s l.
Proof.
  unfold state_in. rewrite existsb_exists. split.
  - intros (x & Hin & Hx). apply state_eqb_eq in Hx. subst. exact Hin.
  - intros H. exists s. split; [exact H | apply state_eqb_refl].
Qed.

Lemma subset_In a b : subset a b = true -> forall s, In s a -> In s b.
Proof.
  unfold subset. rewrite forallb_forall. intros H s Hs. apply state_in_In. apply H. exact Hs.
Qed.

Lemma all_states_complete s : In s all_states.
Proof. destruct s; vm_compute; tauto. Qed.

Lemma all_byte_values_complete c : c < 256 -> In c all_byte_values.
Proof.
  intros H. unfold all_byte_values. apply in_map_iff. exists (N.to_nat c). split.
  - apply N2Nat.id.
  - apply in_seq. lia.
Qed.

Section Eval.
  Variable data : bytes.
  Variable size : N.

  (* when no context predicate panics, eval_tree picks one of the leaves of leaves_for *)
  Lemma eval_tree_leaf t c g ax :
    eval_tree data size t c g = Ok ax -> In ax (leaves_for t c).
  Proof.
    induction t as [acts x | k a IHa b IHb]; simpl; intros H.
    - injection H as <-. left. reflexivity.
    - destruct (eval_cond data size k c g) as [v| | |] eqn:Ec; simpl in H; try discriminate.
      destruct k; simpl in Ec;
        try (apply in_or_app; destruct v; [left; apply IHa; exact H | right; apply IHb; exact H]).
      injection Ec as <-. destruct (in_set l c); [apply IHa | apply IHb]; exact H.
  Qed.

  (* the only possible failures of eval_tree are panics of the predicates *)
  Lemma eval_tree_no_panic t c g :
    (forall vs, values data size (lastp g) = Ok vs -> True) ->
    (exists vs, values data size (lastp g) = Ok vs) ->
    (tree_uses_prev t = true -> pre g <> [] /\ pos g <= size) ->
    exists ax, eval_tree data size t c g = Ok ax.
  Proof.
    intros _ [vs Hvs] Hprev.
    induction t as [acts x | k a IHa b IHb]; simpl.
    - eexists. reflexivity.
    - assert (Ha : tree_uses_prev a = true -> pre g <> [] /\ pos g <= size).
      { intros H. apply Hprev. simpl. destruct k; rewrite ?H, ?orb_true_r; reflexivity. }
      assert (Hb : tree_uses_prev b = true -> pre g <> [] /\ pos g <= size).
      { intros H. apply Hprev. simpl. destruct k; rewrite ?H, ?orb_true_r; reflexivity. }
      destruct (IHa Ha) as [xa Hxa]. destruct (IHb Hb) as [xb Hxb].
      destruct k; simpl; rewrite ?Hvs; simpl.
      + destruct (in_set l c); eauto.
      + destruct (is_directive_at size g); eauto.
      + destruct (has_type_or_any_or_empty vs); eauto.
      + destruct (has_any_or_empty vs); eauto.
      + destruct (has_regex vs); eauto.
      + destruct (Hprev eq_refl) as [Hne Hle].
        destruct (pre g) as [|p0 pr]; [congruence|].
        replace (size <? pos g) with false by (symmetry; apply N.ltb_ge; exact Hle).
        simpl. destruct (p0 =? k); eauto.
  Qed.
End Eval.
