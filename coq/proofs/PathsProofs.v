(* C08: joining a validated include name to the directory of the including file
   stays under that directory (component-wise prefix). *)
From Coq Require Import List NArith Bool String Lia.
From JV.lib Require Import Bytes Paths.
From JV.proofs Require Import BytesLemmas.
Import ListNotations.
Open Scope N_scope.

Definition plain (c : bytes) : Prop := c <> p_dot /\ c <> p_dotdot.

Definition nonempty (c : bytes) : bool := negb (beq c []).

Lemma beq_false_ne a b : a <> b -> beq a b = false.
Proof. intros H. destruct (beq a b) eqn:E; [apply beq_eq in E; contradiction | reflexivity]. Qed.

(* plain components are only ever pushed: nothing below them is popped *)
Lemma clean_go_plain rooted cs out :
  (forall c, In c cs -> plain c) ->
  clean_go rooted cs out = rev out ++ filter nonempty cs.
Proof.
  revert out; induction cs as [|c cs IH]; intros out Hp; simpl.
  - rewrite app_nil_r. reflexivity.
  - assert (Hc : plain c) by (apply Hp; left; reflexivity).
    assert (Hcs : forall c', In c' cs -> plain c') by (intros c' H; apply Hp; right; exact H).
    destruct Hc as [Hd Hdd].
    unfold nonempty at 1.
    destruct (beq c []) eqn:E0; simpl.
    + apply IH; exact Hcs.
    + rewrite (beq_false_ne _ _ Hd), (beq_false_ne _ _ Hdd). simpl.
      rewrite IH by exact Hcs. simpl. rewrite <- app_assoc. reflexivity.
Qed.

Lemma clean_go_app rooted a b out :
  clean_go rooted (a ++ b) out = clean_go rooted b (rev (clean_go rooted a out)).
Proof.
  revert out; induction a as [|c a IH]; intros out; simpl.
  - rewrite rev_involutive. reflexivity.
  - destruct (beq c [] || beq c p_dot); [apply IH|].
    destruct (beq c p_dotdot).
    + destruct out as [|o out']; [destruct rooted; apply IH|].
      destruct (beq o p_dotdot); apply IH.
    + apply IH.
Qed.

Theorem join_confined_lemma rooted dircomps namecomps :
  (forall c, In c namecomps -> plain c) ->
  clean_go rooted (dircomps ++ namecomps) [] =
  clean_go rooted dircomps [] ++ filter nonempty namecomps.
Proof.
  intros Hp. rewrite clean_go_app, clean_go_plain by exact Hp.
  rewrite rev_involutive. reflexivity.
Qed.

(* string level: the components of dir ++ "/" ++ name *)
Lemma join_components d name :
  d <> [] ->
  (forall c, In c (split_byte p_slash name) -> plain c) ->
  clean_components (d ++ p_slash :: name) =
  clean_components d ++ filter nonempty (split_byte p_slash name).
Proof.
  intros Hd Hp. unfold clean_components.
  rewrite split_byte_app.
  replace (is_rooted (d ++ p_slash :: name)) with (is_rooted d)
    by (destruct d; [congruence | reflexivity]).
  apply join_confined_lemma. exact Hp.
Qed.
