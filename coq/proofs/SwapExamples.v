(* examples for the exchange of two interaction-making trees (C10) *)
From Coq Require Import List NArith Bool String Lia Permutation.
From JV.lib Require Import Bytes.
From JV.gen Require Import DirectiveTables TagName.
From JV.model Require Import ScannerSem Core Description PathParams TagTitle Catalog.
From JV.proofs Require Import BytesLemmas TagNameProofs CatalogProofs FaithfulProofs FaithfulExamples LocalityProofs SwapListProofs SwapProofs SwapTreeProofs.
Import ListNotations.
Open Scope N_scope.
Local Open Scope string_scope.
Local Open Scope list_scope.

(* URL /cats { GET // list { Description, Query "a=1" {..}, 200 @cat, 404 any }, POST { Request @cat, 201 any // made } } *)
Definition ex_url_cats : dtree :=
  L KURL "URL" 108 [("Path", "/cats")] [] "" None
    [ L KGet "GET" 133 [] [] "list" None
        [ L KQuery "Query" 149 [("QueryExample", "a=1")] [] "" (Some (165, 172)) [];
          L KHTTPResponseCode "200" 178 [("Type", "@cat")] [] "" None [];
          L KHTTPResponseCode "404" 191 [("SchemaNotation", "any")] [] "" None [] ];
      L KPost "POST" 201 [] [] "" None
        [ L KRequest "Request" 210 [("Type", "@cat")] [] "" None [];
          L KHTTPResponseCode "201" 227 [("SchemaNotation", "any")] [] "made" None [] ] ].

(* URL /rpc { Protocol json-rpc-2.0, Method foo // f { Params {..}, Result {..} } } *)
Definition ex_url_rpc : dtree :=
  L KURL "URL" 263 [("Path", "/rpc")] [] "" None
    [ L KProtocol "Protocol" 274 [("ProtocolName", "json-rpc-2.0")] [] "" None [];
      L KMethod "Method" 298 [("MethodName", "foo")] [] "f" None
        [ L KParams "Params" 316 [] [] "" (Some (327, 328)) [];
          L KResult "Result" 334 [] [] "" (Some (345, 346)) [] ] ].

Definition ex_get_dogs : dtree :=
  L KGet "GET" 243 [("Path", "/dogs")] [] "" None [ L KHTTPResponseCode "200" 255 [("SchemaNotation", "any")] [] "" None [] ].

Definition ex_head : list dtree :=
  [ L KJsight "JSIGHT" 0 [("Version", "0.3")] [] "" None [];
    L KTAG "TAG" 57 [("TagName", "@pets")] [] "Pets" None [];
    L KType "TYPE" 74 [("Name", "@cat")] [] "" (Some (84, 92)) [];
    ex_get_dogs ].
Definition ex_tail : list dtree :=
  [ L KServer "SERVER" 400 [("Name", "@s")] [] "srv" None [];
    L KGet "GET" 420 [("Path", "/cats/all")] [] "" None [ L KHTTPResponseCode "200" 440 [("SchemaNotation", "any")] [] "" None [] ] ].

(* two URL blocks whose paths start with different segments are swappable; a later GET /cats/all joins the tag @cats *)
Lemma swappable_example :
  swappable ex_url_cats ex_url_rpc = true /\ swappable ex_url_rpc ex_url_cats = true /\
  fresh_tags ex_head ex_url_cats ex_url_rpc ex_tail = true /\
  exists c c',
    ex_build (ex_head ++ ex_url_cats :: ex_url_rpc :: ex_tail) = COk c /\
    ex_build (ex_head ++ ex_url_rpc :: ex_url_cats :: ex_tail) = COk c' /\
    map (fun e => iid_string (fst e)) (c_inters c) =
      [bs "http GET /dogs"; bs "http GET /cats"; bs "http POST /cats"; bs "json-rpc-2.0 foo /rpc"; bs "http GET /cats/all"] /\
    map (fun e => iid_string (fst e)) (c_inters c') =
      [bs "http GET /dogs"; bs "json-rpc-2.0 foo /rpc"; bs "http GET /cats"; bs "http POST /cats"; bs "http GET /cats/all"] /\
    map fst (c_tags c) = [bs "@pets"; bs "@dogs"; bs "@cats"; bs "@rpc"] /\
    map fst (c_tags c') = [bs "@pets"; bs "@dogs"; bs "@rpc"; bs "@cats"] /\
    c_inters c' = swapmid 1 2 1 (c_inters c) /\ c_tags c' = swapmid 2 1 1 (c_tags c).
Proof.
  split; [vm_compute; reflexivity|]. split; [vm_compute; reflexivity|]. split; [vm_compute; reflexivity|].
  do 2 eexists. split; [vm_compute; reflexivity|]. split; [vm_compute; reflexivity|].
  split; [vm_compute; reflexivity|]. split; [vm_compute; reflexivity|]. split; [vm_compute; reflexivity|].
  split; [vm_compute; reflexivity|]. split; vm_compute; reflexivity.
Qed.

(* not swappable: a tree whose interactions go under a declared tag, and two trees that share the first segment *)
Definition ex_url_tagged : dtree :=
  L KURL "URL" 500 [("Path", "/birds")] [] "" None
    [ L KTags "Tags" 510 [] ["@pets"] "" None [];
      L KGet "GET" 520 [] [] "" None [ L KHTTPResponseCode "200" 530 [("SchemaNotation", "any")] [] "" None [] ] ].
Definition ex_get_cats_id : dtree :=
  L KGet "GET" 600 [("Path", "/cats/one")] [] "" None [ L KHTTPResponseCode "200" 620 [("SchemaNotation", "any")] [] "" None [] ].

Lemma not_swappable_example :
  swappable ex_url_tagged ex_url_rpc = false /\ swappable ex_url_cats ex_get_cats_id = false /\
  tree_ok ex_get_cats_id = true.
Proof. repeat split; vm_compute; reflexivity. Qed.

(* three pairwise swappable trees in a row: any arrangement builds, here the reversal *)
Definition ex_get_fish : dtree :=
  L KGet "GET" 700 [("Path", "/fish")] [] "" None [ L KHTTPResponseCode "200" 720 [("SchemaNotation", "any")] [] "" None [] ].
Definition ex_seg : list dtree := [ex_url_cats; ex_url_rpc; ex_get_fish].
Definition ex_tail2 : list dtree := [ L KServer "SERVER" 400 [("Name", "@s")] [] "srv" None [] ].

Lemma permuted_example :
  seg_ok ex_head (declared_tag_names (ex_head ++ ex_tail2)) ex_seg = true /\ Permutation ex_seg (rev ex_seg) /\
  exists c c',
    ex_build (ex_head ++ ex_seg ++ ex_tail2) = COk c /\ ex_build (ex_head ++ rev ex_seg ++ ex_tail2) = COk c' /\
    map fst (c_tags c) = [bs "@pets"; bs "@dogs"; bs "@cats"; bs "@rpc"; bs "@fish"] /\
    map fst (c_tags c') = [bs "@pets"; bs "@dogs"; bs "@fish"; bs "@rpc"; bs "@cats"].
Proof.
  split; [vm_compute; reflexivity|]. split; [apply Permutation_rev|].
  do 2 eexists. split; [vm_compute; reflexivity|]. split; [vm_compute; reflexivity|]. split; vm_compute; reflexivity.
Qed.
