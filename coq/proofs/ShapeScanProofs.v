(* From lexemes to directives: the project scan reads KINDS and VALUES of lexemes, never positions.

   model/Core.v, scan_project: every turn of the loop asks the scanner for the next lexeme and hands it to
   process_lexeme.  What process_lexeme reads of a lexeme to DECIDE: lk (the kind) and lex_value (the bytes between
   lb and le); lb and le themselves go into coords_of (d_kw, d_body) and into scan_err, i.e. into coordinates and error
   positions only.  So two single-file projects without INCLUDE whose lexeme lists agree in kinds and values are
   turned into forests of equal shape (ShapeProofs.tshape), or are both refused with an error of the same kind.

   With proofs/ShiftProofs.v (blanks or a comment line inserted at the start of a line only shift the lexemes) this
   gives: such an insertion does not change the shape of the forest. *)
From Coq Require Import List NArith Bool String Lia Arith.
From JV.lib Require Import Bytes Paths.
From JV.gen Require Import DirectiveTables ScannerTable IncludeName.
From JV.model Require Import ScannerSem Params Description Jerr Core.
From JV.spec Require Import ContextSpec.
From JV.proofs Require Import TM_Basics TM_Events TM_Loop ScanTheorems TriviaProofs ShiftProofs ContextProofs ShapeProofs.
Import ListNotations.
Local Arguments bs : simpl never.

(* ------------------------------------------------------------------------------------------ *)
(* 1. lexeme lists that are the same up to positions                                           *)
(* ------------------------------------------------------------------------------------------ *)

Definition dsize (data : bytes) : N := N.of_nat (List.length data).

Definition lexeme_agrees (data data' : bytes) (l l' : lexeme) : Prop :=
  lk l = lk l' /\ lex_value data (dsize data) l = lex_value data' (dsize data') l'.

(* same length, same kinds, same values pairwise *)
Definition lexeme_values_agree (data data' : bytes) (ls ls' : list lexeme) : Prop :=
  Forall2 (lexeme_agrees data data') ls ls'.

(* no lexeme is the keyword INCLUDE *)
Definition not_include (data : bytes) (l : lexeme) : Prop :=
  lexkind_eqb (lk l) LKeyword = true -> lex_value data (dsize data) l <> Ok (kind_keyword KInclude).
Definition no_include (data : bytes) (ls : list lexeme) : Prop := Forall (not_include data) ls.

(* ------------------------------------------------------------------------------------------ *)
(* 2. one lexeme                                                                               *)
(* ------------------------------------------------------------------------------------------ *)

Definition optrel {A} (RA : A -> A -> Prop) (o1 o2 : option A) : Prop :=
  match o1, o2 with Some a, Some b => RA a b | None, None => True | _, _ => False end.

(* scan states outside any INCLUDE that hold directives of equal shapes; the scanners are not compared *)
Record crel (s s' : cstate) : Prop := {
  cr_stack : cs_stack s = [];
  cr_stack' : cs_stack s' = [];
  cr_cur : optrel same_shape (cs_cur s) (cs_cur s');
  cr_frames : frel same_shape (cs_frames s) (cs_frames s');
  cr_roots : Forall2 (trel same_shape) (cs_roots s) (cs_roots s')
}.

(* ... reached from s, s' without touching their scanners *)
Definition crel_from (s s' s2 s2' : cstate) : Prop :=
  crel s2 s2' /\ cs_sc s2 = cs_sc s /\ cs_sc s2' = cs_sc s'.

Definition ekind (e1 e2 : cerr) : Prop := ce_kind e1 = ce_kind e2.

Lemma shape_has_named a b k : same_shape a b -> has_named a k = has_named b k.
Proof. intro H. unfold has_named. now rewrite (f_equal s_named H : d_named a = d_named b). Qed.

Lemma set_named_shape a b k v : same_shape a b -> same_shape (set_named a k v) (set_named b k v).
Proof. unfold same_shape, dshape. cbn. intro H. congruence. Qed.
Lemma add_unnamed_shape a b v : same_shape a b -> same_shape (add_unnamed a v) (add_unnamed b v).
Proof. unfold same_shape, dshape. cbn. intro H. congruence. Qed.
Lemma set_annot_shape a b v : same_shape a b -> same_shape (set_annot a v) (set_annot b v).
Proof. unfold same_shape, dshape. cbn. intro H. congruence. Qed.
Lemma set_body_shape a b c c' : same_shape a b -> same_shape (set_body a c) (set_body b c').
Proof. unfold same_shape, dshape. cbn. intro H. congruence. Qed.
Lemma set_explicit_shape a b : same_shape a b -> same_shape (set_explicit a) (set_explicit b).
Proof. unfold same_shape, dshape. cbn. intro H. congruence. Qed.

Lemma crel_upd_sc s s' x x' : crel s s' -> crel (upd_sc s x) (upd_sc s' x').
Proof. intros [A B C E F]. split; assumption. Qed.

Lemma crel_upd_cur s s' o o' : crel s s' -> optrel same_shape o o' -> crel (upd_cur s o) (upd_cur s' o').
Proof. intros [A B C E F] H. split; assumption. Qed.

Lemma with_scan_trace_nil {A} s (r : cres A) : cs_stack s = [] -> with_scan_trace s r = r.
Proof.
  intro H. destruct r as [a|e|w|]; try reflexivity. unfold with_scan_trace. rewrite H.
  destruct e as [f i k t]. cbn. destruct t; reflexivity.
Qed.

Section OneLexeme.
  Variables jsc enum : bytes -> len_result.
  Variables files files' : fsys.
  Variable banned : list kind.

  Lemma flush_cur_rel s s' : crel s s' -> cres_rel (crel_from s s') ekind (flush_cur s) (flush_cur s').
  Proof.
    intros H. pose proof H as [H1 H2 H3 H4 H5]. unfold flush_cur.
    destruct (cs_cur s) as [d|], (cs_cur s') as [d'|]; cbn [optrel] in H3; try contradiction.
    - unfold ctx_fuel. rewrite <- (Forall2_len _ _ _ H4).
      eapply cbind_rel.
      + eapply cres_rel_mono; [| |exact (process_context_rel same_shape same_shape_ok _ d d' _ _ _ _ H3 H4 H5)].
        * intros a b Hab. exact Hab.
        * intros e1 e2 (k & -> & ->). reflexivity.
      + intros z z' [Hz1 Hz2]. cbn [cres_rel]. split; [|split; reflexivity].
        split; cbn; try assumption. exact I.
    - cbn [cres_rel]. split; [exact H|split; reflexivity].
  Qed.

  Lemma process_keyword_rel s s' l l' kw : crel s s' ->
    cres_rel (crel_from s s') ekind (process_keyword banned s l kw) (process_keyword banned s' l' kw).
  Proof.
    intros H. unfold process_keyword.
    eapply cbind_rel; [exact (flush_cur_rel s s' H)|].
    intros s1 s1' (Hc & E1 & E2). pose proof Hc as [C1 C2 C3 C4 C5].
    rewrite C1, C2. cbn [negb andb].
    destruct (directive_type kw) as [k|]; [|reflexivity].
    destruct (kind_in k banned); [reflexivity|].
    unfold directive_tracer. rewrite C1, C2. cbn [cres_rel].
    split; [|split; [exact E1|exact E2]].
    split; cbn; try assumption. reflexivity.
  Qed.

  Lemma process_parameter_rel s s' l l' d d' :
    crel s s' -> cs_cur s = Some d -> cs_cur s' = Some d' ->
    value_of (cs_sc s) l = value_of (cs_sc s') l' ->
    cres_rel (crel_from s s') ekind (process_parameter s l) (process_parameter s' l').
  Proof.
    intros H Ed Ed' Hv. unfold process_parameter. rewrite Ed, Ed', <- Hv.
    assert (Hd : same_shape d d') by (pose proof (cr_cur _ _ H) as X; rewrite Ed, Ed' in X; exact X).
    destruct (value_of (cs_sc s) l) as [v|e|w|]; cbn [cbind cres_rel]; try reflexivity; try exact I.
    rewrite <- (shape_kind _ _ Hd).
    destruct (append_parameter (d_kind d) v) as [k x|x|]; [| |reflexivity].
    - rewrite <- (shape_has_named _ _ k Hd). destruct (has_named d k); [reflexivity|].
      cbn [cres_rel]. split; [|split; reflexivity]. apply crel_upd_cur; [exact H|]. now apply set_named_shape.
    - cbn [cres_rel]. split; [|split; reflexivity]. apply crel_upd_cur; [exact H|]. now apply add_unnamed_shape.
  Qed.

  Lemma process_lexeme_rel s s' l l' :
    crel s s' -> lk l = lk l' ->
    lex_value (sc_data (cs_sc s)) (sc_size (cs_sc s)) l = lex_value (sc_data (cs_sc s')) (sc_size (cs_sc s')) l' ->
    (lexkind_eqb (lk l) LKeyword = true ->
     lex_value (sc_data (cs_sc s)) (sc_size (cs_sc s)) l <> Ok (kind_keyword KInclude)) ->
    cres_rel (crel_from s s') ekind
      (process_lexeme jsc enum files banned s l) (process_lexeme jsc enum files' banned s' l').
  Proof.
    intros H Hk Hval Hni.
    assert (Hv : value_of (cs_sc s) l = value_of (cs_sc s') l') by (unfold value_of; now rewrite Hval).
    unfold process_lexeme. rewrite <- Hk. cbv zeta.
    destruct (lexkind_eqb (lk l) LKeyword) eqn:K.
    - rewrite <- Hv. specialize (Hni eq_refl).
      destruct (value_of (cs_sc s) l) as [kw|e|w|] eqn:V; cbn [cbind cres_rel]; try reflexivity; try exact I.
      assert (Hb : beq kw (kind_keyword KInclude) = false).
      { destruct (beq kw (kind_keyword KInclude)) eqn:B; [|reflexivity]. apply beq_eq in B. subst kw.
        exfalso. apply Hni. unfold value_of in V.
        destruct (lex_value (sc_data (cs_sc s)) (sc_size (cs_sc s)) l); try discriminate. now injection V as ->. }
      rewrite Hb. now apply process_keyword_rel.
    - destruct (lexkind_eqb (lk l) LContextExplicitClosing).
      + eapply cbind_rel; [exact (flush_cur_rel s s' H)|].
        intros s1 s1' (Hc & E1 & E2). pose proof Hc as [C1 C2 C3 C4 C5].
        rewrite <- (Forall2_len _ _ _ C4).
        pose proof (close_explicit_rel same_shape same_shape_ok (S (List.length (cs_frames s1))) _ _ _ _ C4 C5) as Hce.
        destruct (close_explicit _ (cs_frames s1) (cs_roots s1)) as [r|],
                 (close_explicit _ (cs_frames s1') (cs_roots s1')) as [r'|];
          cbn [ShapeProofs.orel] in Hce; try contradiction; [|reflexivity].
        destruct Hce as [Hr1 Hr2]. cbn [cres_rel]. split; [|split; [exact E1|exact E2]].
        split; cbn; assumption.
      + pose proof (cr_cur _ _ H) as Hcur.
        destruct (cs_cur s) as [d|] eqn:Ed, (cs_cur s') as [d'|] eqn:Ed'; cbn [optrel] in Hcur; try contradiction;
          [|reflexivity].
        destruct (lexkind_eqb (lk l) LParameter); [now apply (process_parameter_rel s s' l l' d d')|].
        destruct (lexkind_eqb (lk l) LAnnotation).
        { rewrite <- Hv. destruct (value_of (cs_sc s) l) as [v|e|w|]; cbn [cbind cres_rel]; try reflexivity; try exact I.
          split; [|split; reflexivity]. apply crel_upd_cur; [exact H|]. now apply set_annot_shape. }
        destruct (lexkind_eqb (lk l) LSchema || lexkind_eqb (lk l) LText || lexkind_eqb (lk l) LJson || lexkind_eqb (lk l) LEnum).
        { cbn [cres_rel]. split; [|split; reflexivity]. apply crel_upd_cur; [exact H|]. now apply set_body_shape. }
        destruct (lexkind_eqb (lk l) LContextExplicitOpening); [|reflexivity].
        cbn [cres_rel]. split; [|split; reflexivity]. apply crel_upd_cur; [exact H|]. now apply set_explicit_shape.
  Qed.

  (* processEOF *)
  Definition eof_step (s : cstate) : cres cstate :=
    flush_cur s >>=c fun s1 =>
    if has_unclosed_explicit (cs_frames s1)
    then CErr (scan_err s1 (pos (sc_cfg (cs_sc s1)) - 1) CENotAllClosed)
    else COk s1.

  Lemma eof_step_rel s s' : crel s s' -> cres_rel crel ekind (eof_step s) (eof_step s').
  Proof.
    intros H. unfold eof_step. eapply cbind_rel; [exact (flush_cur_rel s s' H)|].
    intros s1 s1' (Hc & _ & _). unfold has_unclosed_explicit.
    rewrite <- (explicit_rel same_shape same_shape_ok _ _ (cr_frames _ _ Hc)).
    destruct (existsb _ (cs_frames s1)); [reflexivity|exact Hc].
  Qed.
End OneLexeme.

(* ------------------------------------------------------------------------------------------ *)
(* 3. the run of the scanner as the list of the calls of Next()                                *)
(* ------------------------------------------------------------------------------------------ *)

Section Steps.
  Variables jsc enum : bytes -> len_result.
  Variable D : bytes.

  (* from g, Next() returns the lexemes ls one by one, then the end of the file in ge; every call succeeds with
     some fuel not above scan_fuel D, hence with scan_fuel D, which is what Core.sc_next gives it *)
  Inductive steps : cfg -> list lexeme -> cfg -> Prop :=
  | steps_eof g f ge : (f <= scan_fuel D)%nat ->
      next jsc enum D (dsize D) f g = Ok (ge, None) -> steps g [] ge
  | steps_lex g f g1 l ls ge : (f <= scan_fuel D)%nat ->
      next jsc enum D (dsize D) f g = Ok (g1, Some l) -> steps g1 ls ge -> steps g (l :: ls) ge.

  Lemma scan_all_steps : forall F g acc L ge, (F <= scan_fuel D)%nat ->
    scan_all jsc enum D (dsize D) F g acc = (L, SEof, ge) ->
    exists ls, L = rev acc ++ ls /\ steps g ls ge.
  Proof.
    induction F as [|F IH]; intros g acc L ge HF H; [discriminate|].
    cbn [scan_all] in H.
    destruct (next jsc enum D (dsize D) (S F) g) as [[g1 [l|]]| | |] eqn:En; try discriminate.
    - destruct (IH g1 (l :: acc) L ge ltac:(lia) H) as (ls & E & Hs).
      exists (l :: ls). split; [rewrite E; cbn [rev]; now rewrite <- app_assoc|].
      eapply steps_lex; [exact HF|exact En|exact Hs].
    - injection H as <- <-. exists []. split; [now rewrite app_nil_r|]. eapply steps_eof; [exact HF|exact En].
  Qed.

  Lemma scan_steps L ge : scan jsc enum D = (L, SEof, ge) -> steps (init_cfg D) L ge.
  Proof.
    unfold scan. intro H. destruct (scan_all_steps _ _ _ _ _ (le_n _) H) as (ls & E & Hs).
    cbn [rev app] in E. now subst.
  Qed.

  (* a scanner of Core.v reading D, standing at g *)
  Definition reads (x : scn) (g : cfg) : Prop := sc_data x = D /\ sc_size x = dsize D /\ sc_cfg x = g.
  Definition at_cfg (x : scn) (g : cfg) : scn :=
    {| sc_file := sc_file x; sc_data := sc_data x; sc_size := sc_size x; sc_cfg := g |}.

  Lemma sc_next_step x g f g1 ol : reads x g -> (f <= scan_fuel D)%nat ->
    next jsc enum D (dsize D) f g = Ok (g1, ol) ->
    sc_next jsc enum x = Ok (at_cfg x g1, ol) /\ reads (at_cfg x g1) g1.
  Proof.
    intros (E1 & E2 & E3) Hf Hn. unfold sc_next, reads, at_cfg. cbn [sc_data sc_size sc_cfg]. rewrite E1, E2, E3.
    rewrite (next_mono jsc enum D (dsize D) f (scan_fuel D) g Hf) by (rewrite Hn; discriminate).
    rewrite Hn. cbn. split; [reflexivity|]. repeat split; assumption.
  Qed.
End Steps.

(* the loop of scan_project driven by a given list of lexemes: process_lexeme for each, then processEOF *)
Section Loop.
  Variables jsc enum : bytes -> len_result.
  Variable files : fsys.
  Variable banned : list kind.

  Fixpoint scan_lexemes_loop (ls : list lexeme) (s : cstate) : cres cstate :=
    match ls with
    | [] => eof_step s
    | l :: r => process_lexeme jsc enum files banned s l >>=c scan_lexemes_loop r
    end.
End Loop.

(* ------------------------------------------------------------------------------------------ *)
(* 4. two runs over lexeme lists that agree                                                    *)
(* ------------------------------------------------------------------------------------------ *)

Section TwoRuns.
  Variables jsc enum : bytes -> len_result.
  Variables files files' : fsys.
  Variable banned : list kind.
  Variables D D' : bytes.

  Definition sreads (data : bytes) (s : cstate) (g : cfg) : Prop := reads data (cs_sc s) g.

  Lemma agree_on s s' g g' l l' : sreads D s g -> sreads D' s' g' -> lexeme_agrees D D' l l' ->
    lex_value (sc_data (cs_sc s)) (sc_size (cs_sc s)) l = lex_value (sc_data (cs_sc s')) (sc_size (cs_sc s')) l'.
  Proof. intros (A1 & A2 & _) (B1 & B2 & _) [_ H]. now rewrite A1, A2, B1, B2. Qed.

  Lemma ninc_on s g l : sreads D s g -> not_include D l ->
    lexkind_eqb (lk l) LKeyword = true -> lex_value (sc_data (cs_sc s)) (sc_size (cs_sc s)) l <> Ok (kind_keyword KInclude).
  Proof. intros (A1 & A2 & _) H. now rewrite A1, A2. Qed.

  (* scan_project on both sides *)
  Lemma scan_project_rel : forall ls ls', lexeme_values_agree D D' ls ls' -> no_include D ls ->
    forall g g' ge ge' fuel fuel' s s',
    steps jsc enum D g ls ge -> steps jsc enum D' g' ls' ge' ->
    crel s s' -> sreads D s g -> sreads D' s' g' ->
    (List.length ls < fuel)%nat -> (List.length ls' < fuel')%nat ->
    cres_rel crel ekind (scan_project jsc enum files banned fuel s) (scan_project jsc enum files' banned fuel' s').
  Proof.
    induction 1 as [|l l' r r' Hl Hr IH]; intros Hni g g' ge ge' fuel fuel' s s' St St' Hc Hs Hs' Hf Hf';
      (destruct fuel as [|fuel]; [cbn in Hf; lia|]); (destruct fuel' as [|fuel']; [cbn in Hf'; lia|]);
      inversion St as [? f ? Hle Hn|? f g1 ? ? ? Hle Hn Hrest]; subst;
      inversion St' as [? f' ? Hle' Hn'|? f' g1' ? ? ? Hle' Hn' Hrest']; subst;
      cbn [scan_project];
      destruct (sc_next_step jsc enum D _ _ _ _ _ Hs Hle Hn) as [-> Hs1];
      destruct (sc_next_step jsc enum D' _ _ _ _ _ Hs' Hle' Hn') as [-> Hs1'].
    - rewrite !with_scan_trace_nil by (cbn; apply Hc).
      pose proof (crel_upd_sc s s' (at_cfg (cs_sc s) ge) (at_cfg (cs_sc s') ge') Hc) as Hc1.
      eapply cbind_rel; [exact (flush_cur_rel _ _ Hc1)|].
      intros s1 s1' (Hc2 & _ & _). unfold has_unclosed_explicit.
      rewrite <- (explicit_rel same_shape same_shape_ok _ _ (cr_frames _ _ Hc2)).
      destruct (existsb _ (cs_frames s1)); [reflexivity|].
      rewrite (cr_stack _ _ Hc2), (cr_stack' _ _ Hc2). exact Hc2.
    - rewrite !with_scan_trace_nil by (cbn; apply Hc).
      pose proof (crel_upd_sc s s' (at_cfg (cs_sc s) g1) (at_cfg (cs_sc s') g1') Hc) as Hc1.
      inversion Hni as [|? ? Hn1 Hn2]; subst.
      assert (R1 : sreads D (upd_sc s (at_cfg (cs_sc s) g1)) g1) by exact Hs1.
      assert (R1' : sreads D' (upd_sc s' (at_cfg (cs_sc s') g1')) g1') by exact Hs1'.
      eapply cbind_rel.
      + apply (process_lexeme_rel jsc enum files files' banned _ _ l l' Hc1 (proj1 Hl)).
        * exact (agree_on _ _ _ _ _ _ R1 R1' Hl).
        * exact (ninc_on _ _ _ R1 Hn1).
      + intros s2 s2' (Hc2 & E & E').
        apply (IH Hn2 g1 g1' ge ge'); try assumption.
        * unfold sreads. rewrite E. exact Hs1.
        * unfold sreads. rewrite E'. exact Hs1'.
        * cbn in Hf. lia.
        * cbn in Hf'. lia.
  Qed.

  (* scan_project on one side, the loop over the given lexemes on the other *)
  Lemma scan_project_loop_rel : forall ls ls', lexeme_values_agree D D' ls ls' -> no_include D ls ->
    forall g ge fuel s s' g',
    steps jsc enum D g ls ge ->
    crel s s' -> sreads D s g -> sreads D' s' g' ->
    (List.length ls < fuel)%nat ->
    cres_rel crel ekind (scan_project jsc enum files banned fuel s) (scan_lexemes_loop jsc enum files' banned ls' s').
  Proof.
    induction 1 as [|l l' r r' Hl Hr IH]; intros Hni g ge fuel s s' g' St Hc Hs Hs' Hf;
      (destruct fuel as [|fuel]; [cbn in Hf; lia|]);
      inversion St as [? f ? Hle Hn|? f g1 ? ? ? Hle Hn Hrest]; subst;
      cbn [scan_project scan_lexemes_loop];
      destruct (sc_next_step jsc enum D _ _ _ _ _ Hs Hle Hn) as [-> Hs1].
    - rewrite !with_scan_trace_nil by (cbn; apply Hc).
      pose proof (crel_upd_sc s s' (at_cfg (cs_sc s) ge) (cs_sc s') Hc) as Hc1.
      unfold eof_step. eapply cbind_rel.
      + assert (E : upd_sc s' (cs_sc s') = s') by (destruct s'; reflexivity). rewrite E in Hc1.
        exact (flush_cur_rel _ _ Hc1).
      + intros s1 s1' (Hc2 & _ & _). unfold has_unclosed_explicit.
        rewrite <- (explicit_rel same_shape same_shape_ok _ _ (cr_frames _ _ Hc2)).
        destruct (existsb _ (cs_frames s1)); [reflexivity|].
        rewrite (cr_stack _ _ Hc2). exact Hc2.
    - rewrite !with_scan_trace_nil by (cbn; apply Hc).
      assert (E0 : upd_sc s' (cs_sc s') = s') by (destruct s'; reflexivity).
      pose proof (crel_upd_sc s s' (at_cfg (cs_sc s) g1) (cs_sc s') Hc) as Hc1. rewrite E0 in Hc1.
      inversion Hni as [|? ? Hn1 Hn2]; subst.
      assert (R1 : sreads D (upd_sc s (at_cfg (cs_sc s) g1)) g1) by exact Hs1.
      eapply cbind_rel.
      + apply (process_lexeme_rel jsc enum files files' banned _ _ l l' Hc1 (proj1 Hl)).
        * exact (agree_on _ _ _ _ _ _ R1 Hs' Hl).
        * exact (ninc_on _ _ _ R1 Hn1).
      + intros s2 s2' (Hc2 & E & E').
        apply (IH Hn2 g1 ge fuel s2 s2' g'); try assumption.
        * unfold sreads. rewrite E. exact Hs1.
        * unfold sreads. rewrite E'. exact Hs'.
        * cbn in Hf. lia.
  Qed.
End TwoRuns.

(* ------------------------------------------------------------------------------------------ *)
(* 5. whole single-file projects                                                               *)
(* ------------------------------------------------------------------------------------------ *)

Lemma crel_forest_shape s s' : crel s s' -> map tshape (forest_of s) = map tshape (forest_of s').
Proof.
  intros [_ _ _ Hf Hr]. unfold forest_of. apply (frel_tshape same_shape same_shape_ok).
  apply Forall2_rev_both. rewrite <- (Forall2_len _ _ _ Hf). now apply close_all_rel.
Qed.

Lemma crel_init root root' D D' : crel (init_state root D) (init_state root' D').
Proof. split; cbn; try reflexivity; try constructor. Qed.

Lemma reads_init root D : sreads D (init_state root D) (init_cfg D).
Proof. repeat split. Qed.

Lemma scan_forest_with_single fuel jsc enum banned root D :
  scan_forest_with fuel jsc enum [(root, FFile D)] banned root =
  scan_project jsc enum [(root, FFile D)] banned fuel (init_state root D) >>=c fun s => COk (forest_of s).
Proof. unfold scan_forest_with, fs_stat. cbn [find fst snd]. now rewrite beq_refl. Qed.

(* what "the same forest, up to positions" means for two results of the project scan *)
Definition same_forest_shape (r r' : cres (list dtree)) : Prop :=
  match r, r' with
  | COk f, COk f' => map tshape f = map tshape f'
  | CErr e, CErr e' => ce_kind e = ce_kind e'
  | CPanic w, CPanic w' => w = w'
  | CFuel, CFuel => True
  | _, _ => False
  end.

Theorem same_values_same_forest_shape jsc enum banned root root' D D' fuel fuel' :
  verdict (scan jsc enum D) = SEof -> verdict (scan jsc enum D') = SEof ->
  lexeme_values_agree D D' (scan_lexemes jsc enum D) (scan_lexemes jsc enum D') ->
  no_include D (scan_lexemes jsc enum D) ->
  (List.length (scan_lexemes jsc enum D) < fuel)%nat -> (List.length (scan_lexemes jsc enum D') < fuel')%nat ->
  same_forest_shape (scan_forest_with fuel jsc enum [(root, FFile D)] banned root)
                    (scan_forest_with fuel' jsc enum [(root', FFile D')] banned root').
Proof.
  unfold verdict, scan_lexemes. intros V V' Ha Hn Hf Hf'.
  destruct (scan jsc enum D) as [[L v] ge] eqn:E, (scan jsc enum D') as [[L' v'] ge'] eqn:E'. cbn [fst snd] in *. subst v v'.
  rewrite !scan_forest_with_single.
  pose proof (scan_project_rel jsc enum [(root, FFile D)] [(root', FFile D')] banned D D' L L' Ha Hn
                _ _ _ _ fuel fuel' _ _ (scan_steps _ _ _ _ _ E) (scan_steps _ _ _ _ _ E')
                (crel_init root root' D D') (reads_init root D) (reads_init root' D') Hf Hf') as H.
  destruct (scan_project jsc enum [(root, FFile D)] banned fuel (init_state root D)),
           (scan_project jsc enum [(root', FFile D')] banned fuel' (init_state root' D'));
    cbn [cres_rel cbind same_forest_shape] in *; try contradiction; try exact H.
  now apply crel_forest_shape.
Qed.

(* the scan loop of one file without INCLUDE is the loop over the lexemes of its scan *)
Lemma agree_refl D ls : lexeme_values_agree D D ls ls.
Proof. induction ls; constructor; [split; reflexivity|assumption]. Qed.

Theorem scan_project_is_lexeme_loop jsc enum files banned root D fuel :
  verdict (scan jsc enum D) = SEof ->
  no_include D (scan_lexemes jsc enum D) ->
  (List.length (scan_lexemes jsc enum D) < fuel)%nat ->
  same_forest_shape
    (scan_project jsc enum files banned fuel (init_state root D) >>=c fun s => COk (forest_of s))
    (scan_lexemes_loop jsc enum files banned (scan_lexemes jsc enum D) (init_state root D) >>=c fun s => COk (forest_of s)).
Proof.
  unfold verdict, scan_lexemes. intros V Hn Hf.
  destruct (scan jsc enum D) as [[L v] ge] eqn:E. cbn [fst snd] in *. subst v.
  pose proof (scan_project_loop_rel jsc enum files files banned D D L L (agree_refl D L) Hn
                _ _ fuel _ _ (init_cfg D) (scan_steps _ _ _ _ _ E)
                (crel_init root root D D) (reads_init root D) (reads_init root D) Hf) as H.
  destruct (scan_project jsc enum files banned fuel (init_state root D)),
           (scan_lexemes_loop jsc enum files banned L (init_state root D));
    cbn [cres_rel cbind same_forest_shape] in *; try contradiction; try exact H.
  now apply crel_forest_shape.
Qed.

(* the loop over lexemes itself depends on kinds and values only *)
Lemma lexeme_loop_rel jsc enum files files' banned D D' : forall ls ls',
  lexeme_values_agree D D' ls ls' -> no_include D ls ->
  forall s s' g g', crel s s' -> sreads D s g -> sreads D' s' g' ->
  cres_rel crel ekind (scan_lexemes_loop jsc enum files banned ls s) (scan_lexemes_loop jsc enum files' banned ls' s').
Proof.
  induction 1 as [|l l' r r' Hl Hr IH]; intros Hni s s' g g' Hc Hs Hs'; cbn [scan_lexemes_loop].
  - now apply eof_step_rel.
  - inversion Hni as [|? ? Hn1 Hn2]; subst. eapply cbind_rel.
    + apply (process_lexeme_rel jsc enum files files' banned _ _ l l' Hc (proj1 Hl)).
      * exact (agree_on D D' _ _ _ _ _ _ Hs Hs' Hl).
      * exact (ninc_on D _ _ _ Hs Hn1).
    + intros s2 s2' (Hc2 & E & E'). apply (IH Hn2 s2 s2' g g' Hc2).
      * unfold sreads. rewrite E. exact Hs.
      * unfold sreads. rewrite E'. exact Hs'.
Qed.

(* ------------------------------------------------------------------------------------------ *)
(* 6. with ShiftProofs: where the lexemes lie with respect to an insertion point               *)
(* ------------------------------------------------------------------------------------------ *)

(* 6a. after the insertion point: from a configuration related to its shifted twin (ShiftProofs.LRel: nothing pending
   or open before n, no state that reaches back), every lexeme still to come BEGINS at or after n.  ShiftProofs
   proves this inside process_event_shift and drops it; it is carried to the whole scan here. *)
Section After.
  Variables jsc enum : bytes -> len_result.
  Variables D D' : bytes.
  Variables size n k : N.
  Variables pa pa' : bytes.
  Hypothesis Hlo : forall l, (le l < n)%N -> lex_value D' (size' size k) l = lex_value D size l.
  Hypothesis Hhi : forall l, (n <= lb l)%N -> lex_value D' (size' size k) (shL k l) = lex_value D size l.

  Local Notation LR := (LRel size n k pa pa').
  Definition lex_after (ol : option lexeme) : Prop := forall l, ol = Some l -> (n <= lb l)%N.

  Lemma process_event_after ev g r :
    process_event ev g = Ok r -> after n ev -> Forall (after n) (estk g) ->
    Forall (after n) (estk (fst r)) /\ finds (fst r) = finds g /\ lex_after (snd r).
  Proof.
    unfold process_event, lex_after. destruct ev as [e p]. unfold after at 1. cbn [snd]. intros H Hp B.
    destruct (evt_in e evt_beginning).
    { injection H as <-. cbn. repeat split; try discriminate. constructor; [exact Hp|exact B]. }
    destruct (evt_in e evt_ending).
    { destruct (estk g) as [|[se sp] st] eqn:Es; [discriminate|]. destruct (pair_ok se e); [|discriminate].
      destruct (evt_lexkind e) as [kd|]; [|discriminate]. injection H as <-. cbn. inversion B as [|? ? Hsp Hst]; subst.
      repeat split; [exact Hst|]. intros l Hl. injection Hl as <-. exact Hsp. }
    destruct (evt_in e evt_single); [|discriminate]. destruct (evt_lexkind e) as [kd|]; [|discriminate].
    injection H as <-. cbn. repeat split; [exact B|]. intros l Hl. injection Hl as <-. exact Hp.
  Qed.

  Lemma drain_after m : forall g r, drain m g = Ok r ->
    Forall (after n) (finds g) -> Forall (after n) (estk g) -> lex_after (snd r).
  Proof.
    induction m as [|m IH]; intros g r H B1 B2.
    - cbn in H. injection H as <-. intros l Hl. discriminate.
    - cbn [drain] in H. destruct (finds g) as [|ev fs] eqn:Ef; [discriminate|].
      destruct (process_event ev (set_finds g fs)) as [r1| | |] eqn:Ep; cbn [obind] in H; try discriminate.
      inversion B1 as [|? ? Hev Hfs]; subst.
      destruct (process_event_after _ _ _ Ep Hev B2) as (A1 & A2 & A3).
      destruct (snd r1) as [l|] eqn:Sr.
      + injection H as <-. cbn [snd]. exact A3.
      + apply (IH _ _ H); [rewrite A2; exact Hfs|exact A1].
  Qed.

  Lemma mstep_after g g' r :
    LR g g' -> (pos g <= size)%N -> mstep jsc enum D size g = Ok r ->
    lex_after (snd r) /\ exists g2', LR (fst r) g2'.
  Proof.
    intros HL Hp H. pose proof HL as [[Z0 E0] [Hc Hpc]]. specialize (Hc Hp). unfold mstep in H.
    destruct (if (pos g =? size)%N then Some 0%N else hd_error (rest g)) as [c|]; [|discriminate].
    destruct ((c =? 0)%N && negb (pos g =? size)%N); [discriminate|].
    pose proof (dispatch_shift jsc enum D D' size n k pa pa' Hlo Hhi redo_fuel c g g' Hc Hpc) as Hd.
    destruct (dispatch jsc enum D size redo_fuel c g) as [g1| | |]; cbn [obind] in H; try discriminate.
    destruct (dispatch jsc enum D' (size' size k) redo_fuel c g') as [g1'| | |]; cbn [ShiftProofs.orel] in Hd; try contradiction.
    apply advance1_shift in Hd. pose proof Hd as [[Z1 E1] _].
    pose proof (drain_shift n k (List.length (finds (advance g1 1))) _ _ E1
                  ltac:(destruct Z1 as [_ _ Zp _ _ _ _ _]; exact Zp)) as Hdr.
    rewrite H in Hdr.
    destruct (drain (List.length (finds (advance g1 1))) (advance g1' 1)) as [r'| | |]; cbn [ShiftProofs.orel] in Hdr; try contradiction.
    destruct Hdr as (R1 & R2 & R3 & _). split.
    - apply (drain_after _ _ _ H); [exact (E_finds_after _ _ _ _ E1)|exact (E_estk_after _ _ _ _ E1)].
    - exists (fst r'). eapply LRel_same_zip; eauto.
  Qed.

  Lemma main_loop_after f : forall g g' r,
    LR g g' -> main_loop jsc enum D size f g = Ok r -> lex_after (snd r) /\ exists g2', LR (fst r) g2'.
  Proof.
    induction f as [|f IH]; intros g g' r HL H; [discriminate|].
    rewrite main_loop_unfold in H. destruct (pos g <=? size)%N eqn:Hp.
    - apply N.leb_le in Hp.
      destruct (mstep jsc enum D size g) as [r1| | |] eqn:Em; cbn [obind] in H; try discriminate.
      destruct (mstep_after _ _ _ HL Hp Em) as [A1 (g2' & A2)].
      destruct (snd r1) as [l|] eqn:Sr.
      + injection H as <-. split; [rewrite Sr; exact A1|exists g2'; exact A2].
      + exact (IH _ _ _ A2 H).
    - injection H as <-. split; [intros l Hl; discriminate|exists g'; exact HL].
  Qed.

  Lemma next_after f g g' r :
    LR g g' -> next jsc enum D size f g = Ok r -> lex_after (snd r) /\ exists g2', LR (fst r) g2'.
  Proof.
    intros HL H. unfold next in H. pose proof HL as [[Z0 E0] [Hc Hpc]]. pose proof E0 as [E1 E2 E3 E4 E5 E6].
    destruct (finds g) as [|ev fs] eqn:Ef; [exact (main_loop_after _ _ _ _ HL H)|].
    assert (HE2 : ERel n k (set_finds g fs) (set_finds g' (map (shev k) fs))).
    { split; cbn [reg sstk pos pre rest finds estk lastp set_finds]; auto. inversion E2; assumption. }
    assert (Hev : after n ev) by (inversion E2; assumption).
    pose proof (process_event_shift n k ev _ _ HE2 ltac:(destruct Z0 as [_ _ Zp _ _ _ _ _]; exact Zp) Hev) as Hpe.
    destruct (process_event ev (set_finds g fs)) as [r1| | |] eqn:Ep; cbn [obind] in H; try discriminate.
    destruct (process_event (shev k ev) (set_finds g' (map (shev k) fs))) as [r1'| | |]; cbn [ShiftProofs.orel] in Hpe; try contradiction.
    destruct Hpe as (R1 & R2 & R3 & R4 & R5).
    assert (HL2 : LR (fst r1) (fst r1')).
    { eapply LRel_same_zip; [exact HL | | | exact R1]; (eapply same_zip_trans; [|eassumption]; repeat split). }
    destruct (snd r1) as [l|] eqn:Sr.
    - injection H as <-. split; [|exists (fst r1'); exact HL2].
      intros l0 Hl0. rewrite Sr in Hl0. injection Hl0 as <-. exact (proj1 (R5 l eq_refl)).
    - exact (main_loop_after _ _ _ _ HL2 H).
  Qed.

  Lemma scan_all_after f : forall g g' acc, LR g g' ->
    exists ls, fst (fst (scan_all jsc enum D size f g acc)) = rev acc ++ ls /\ Forall (fun l => (n <= lb l)%N) ls.
  Proof.
    induction f as [|f IH]; intros g g' acc HL; [exists []; cbn; rewrite app_nil_r; auto|].
    cbn [scan_all].
    destruct (next jsc enum D size (S f) g) as [[g1 [l|]]| | |] eqn:En;
      try (exists []; cbn; rewrite app_nil_r; split; [reflexivity|constructor]).
    destruct (next_after _ _ _ _ HL En) as [A1 (g2' & A2)]. cbn [fst snd] in A1, A2.
    destruct (IH g1 g2' (l :: acc) A2) as (ls & B1 & B2).
    exists (l :: ls). split; [rewrite B1; cbn [rev]; now rewrite <- app_assoc|].
    constructor; [exact (A1 l eq_refl)|exact B2].
  Qed.
End After.

Section AfterWhole.
  Variables jsc enum : bytes -> len_result.
  Variables a w b : bytes.
  Local Notation D := (a ++ b).
  Local Notation D' := (a ++ w ++ b).
  Local Notation n := (N.of_nat (List.length a)).
  Local Notation k := (N.of_nat (List.length w)).
  Local Notation size := (N.of_nat (List.length (a ++ b))).

  (* the premises of ShiftProofs.insertion_shift_lemma that concern the shorter input *)
  Lemma insertion_after_lemma g acc :
    reach jsc enum D size g acc ->
    pos g = n -> pre g = rev a -> rest g = b -> finds g = [] -> estk g = [] ->
    dist (reg g) = 0%N ->
    stack_inv g ->
    Forall (fun l => (le l < n)%N) (lastp g) ->
    verdict (scan jsc enum D) <> SFuel ->
    forall ls, fst (fst (scan jsc enum D)) = rev acc ++ ls -> Forall (fun l => (n <= lb l)%N) ls.
  Proof.
    intros R1 Hpos Hpre Hrest Hf He Hs [Hstk [Hpc Hch]] Hlast V1 ls HL0.
    set (gs := moved w g).
    assert (HR0 : Rel size n k (rev a) (rev w ++ rev a) 0 g gs).
    { split; split; cbn [reg sstk pos pre rest finds estk lastp set_zip gs moved]; auto.
      - exists []. rewrite Hpre. cbn. repeat split; lia.
      - rewrite Hpos, Hrest, app_length. lia.
      - rewrite Hf. reflexivity.
      - rewrite Hf. constructor.
      - rewrite He. reflexivity.
      - rewrite He. constructor.
      - clear -Hlast. induction Hlast as [|l ls Hl _ IH]; [reflexivity|]. cbn [map]. rewrite <- IH. f_equal.
        unfold shl. replace (le l <? n)%N with true by (symmetry; apply N.ltb_lt; exact Hl). reflexivity.
      - eapply Forall_impl; [|exact Hlast]. intros l Hl. left. exact Hl. }
    assert (HL : LRel size n k (rev a) (rev w ++ rev a) g gs).
    { split; [exact HR0|]. split; [intros _; rewrite Hs; exact HR0 | exact Hpc]. }
    unfold scan in *.
    destruct (reach_scan _ _ _ _ _ _ R1 _ V1) as [f1 E1].
    destruct (scan_all_after jsc enum D D' size n k (rev a) (rev w ++ rev a)
                (lex_value_lo a w b) (lex_value_hi a w b) f1 g gs acc HL) as (ls0 & A & B).
    rewrite E1, HL0 in A. apply app_inv_head in A. subst ls0. exact B.
  Qed.
End AfterWhole.

(* 6b. before the insertion point: the lexemes returned by the run up to it END before it *)
Section BeforeWhole.
  Variables jsc enum : bytes -> len_result.
  Variables a w b : bytes.
  Local Notation D := (a ++ b).
  Local Notation D' := (a ++ w ++ b).
  Local Notation n := (N.of_nat (List.length a)).
  Local Notation k := (N.of_nat (List.length w)).
  Local Notation size := (N.of_nat (List.length (a ++ b))).
  Hypothesis Hline : line_start a.

  Definition ends_before (l : lexeme) : Prop := (le l < n)%N.

  Lemma drain_before m : forall h q, drain m h = Ok q -> before a h -> forall l, snd q = Some l -> ends_before l.
  Proof.
    induction m as [|m IH]; intros h q H B l Hl.
    - cbn in H. injection H as <-. discriminate.
    - cbn [drain] in H. destruct (finds h) as [|ev fs] eqn:Ef; [discriminate|].
      destruct (process_event ev (set_finds h fs)) as [q1| | |] eqn:Ep; cbn [obind] in H; try discriminate.
      assert (B' : before a (set_finds h fs)).
      { destruct B as (B1 & B2 & B3). rewrite Ef in B1. inversion B1; subst. repeat split; assumption. }
      assert (Hev : (snd ev < n)%N) by (destruct B as (B1 & _); rewrite Ef in B1; inversion B1; assumption).
      destruct (process_event_frame a _ _ _ Ep Hev B') as (F1 & B1 & _ & L1).
      destruct (snd q1) as [l1|] eqn:Sq.
      + injection H as <-. cbn [snd] in Hl. injection Hl as <-. exact (L1 l1 eq_refl).
      + exact (IH _ _ H B1 l Hl).
  Qed.

  Lemma mstep_before h h' q l :
    Pn a w b h h' -> Forall (local_call jsc enum w b) (mstep_calls jsc enum D size h) ->
    mstep jsc enum D size h = Ok q -> snd q = Some l -> ends_before l.
  Proof.
    intros (r & HP & Hr) Hc H Hl. pose proof (P_pos_r _ _ _ _ _ _ HP) as Hn.
    assert (Hrl : (0 < List.length r)%nat) by (destruct r; [contradiction | cbn; lia]).
    assert (Hs : (n <= size)%N) by (rewrite app_length; lia).
    unfold mstep, mstep_calls in *.
    replace (pos h =? size)%N with false in * by (symmetry; apply N.eqb_neq; lia).
    destruct (hd_error (rest h)) as [c|]; [|discriminate].
    rewrite andb_true_r in *. destruct (c =? 0)%N; [discriminate|].
    pose proof (dispatch_pre jsc enum a w b Hline redo_fuel c h h' (ex_intro _ r (conj HP Hr)) Hc) as Hd.
    destruct (dispatch jsc enum D size redo_fuel c h) as [h1| | |]; cbn [obind] in H; try discriminate.
    destruct (dispatch jsc enum D' (size' size k) redo_fuel c h') as [h1'| | |]; cbn [ShiftProofs.orel] in Hd; try contradiction.
    destruct Hd as (r1 & H1 & Hr1).
    destruct r1 as [|c1 r1]; [contradiction|].
    assert (H2 : P a w b r1 (advance h1 1) (advance h1' 1)).
    { destruct H1 as [E R A L B]. subst h1'. unfold advance, setrest. cbn [pos pre rest set_zip]. rewrite R.
      change (N.to_nat 1) with 1%nat. cbn [app fwd fst snd].
      split; cbn [pos pre rest set_zip reg sstk finds estk lastp]; auto.
      - cbn [rev]. rewrite <- app_assoc. exact A.
      - cbn [List.length]. lia. }
    exact (drain_before _ _ _ H (P_before _ _ _ _ _ _ H2) l Hl).
  Qed.

  Lemma run_to_before f : forall h h' acc g acc1 r,
    P a w b r h h' -> Forall (local_call jsc enum w b) (run_to_calls jsc enum D size n f h) ->
    run_to jsc enum D size n f h acc = Some (g, acc1) ->
    Forall ends_before acc -> Forall ends_before acc1.
  Proof.
    induction f as [|f IH]; intros h h' acc g acc1 r HP Hc H Hacc; [discriminate|].
    cbn [run_to run_to_calls] in *. pose proof (P_pos_r _ _ _ _ _ _ HP) as Hn.
    assert (Hs : (n <= size)%N) by (rewrite app_length; lia).
    destruct (finds h) as [|ev fs] eqn:Efh.
    - destruct (pos h =? n)%N eqn:En.
      + injection H as <- <-. exact Hacc.
      + apply N.eqb_neq in En. assert (Hr : r <> []) by (intros ->; cbn in Hn; lia).
        replace (pos h <=? size)%N with true in * by (symmetry; apply N.leb_le; lia).
        apply Forall_app in Hc as [Hc1 Hc2].
        pose proof (mstep_pre jsc enum a w b Hline h h' (ex_intro _ r (conj HP Hr)) Hc1) as HM.
        destruct (mstep jsc enum D size h) as [[h2 ol]| | |] eqn:Em; try discriminate.
        destruct (mstep jsc enum D' (size' size k) h') as [[h2' ol']| | |]; cbn [ShiftProofs.orel] in HM; try contradiction.
        destruct HM as ((r2 & H2) & Eo). cbn [fst snd] in H2, Eo.
        destruct ol as [l|].
        * apply (IH _ _ _ _ _ _ H2 Hc2 H). constructor; [|exact Hacc].
          exact (mstep_before h h' _ l (ex_intro _ r (conj HP Hr)) Hc1 Em eq_refl).
        * exact (IH _ _ _ _ _ _ H2 Hc2 H Hacc).
    - destruct HP as [E R A L B].
      destruct (process_event ev (set_finds h fs)) as [[h2 [l|]]| | |] eqn:Epe; try discriminate.
      assert (B' : before a (set_finds h fs)).
      { destruct B as (B1 & B2 & B3). rewrite Efh in B1. inversion B1; subst. repeat split; assumption. }
      assert (Hev : (snd ev < n)%N) by (destruct B as (B1 & _); rewrite Efh in B1; inversion B1; assumption).
      destruct (process_event_frame a _ _ _ Epe Hev B') as ((a1 & a2 & a3) & B2 & _ & L1).
      cbn in a1, a2, a3.
      apply (IH h2 (setrest h2 (r ++ w ++ b)) (l :: acc) g acc1 r); [|exact Hc|exact H|constructor; [exact (L1 l eq_refl)|exact Hacc]].
      split; auto; rewrite ?a1, ?a2, ?a3; assumption.
  Qed.

  Lemma prefix_run_before g acc :
    prefix_run jsc enum D n = Some (g, acc) ->
    Forall (local_call jsc enum w b) (prefix_calls jsc enum D n) ->
    Forall ends_before acc.
  Proof.
    unfold prefix_run, prefix_calls. intros H Hc.
    assert (P0 : P a w b a (init_cfg D) (init_cfg D')).
    { split; try reflexivity. repeat split; constructor. }
    exact (run_to_before _ _ _ _ _ _ _ P0 Hc H (Forall_nil _)).
  Qed.
End BeforeWhole.

(* 6c. the bytes of a lexeme before the insertion point are the same in a ++ b and a ++ w ++ b; the bytes of a lexeme
   after it are those of the lexeme shifted by |w| *)
Lemma shifted_lists_agree a w b acc ls :
  Forall (fun l => (le l < N.of_nat (List.length a))%N) acc ->
  Forall (fun l => (N.of_nat (List.length a) <= lb l)%N) ls ->
  lexeme_values_agree (a ++ b) (a ++ w ++ b) (rev acc ++ ls) (rev acc ++ map (shL (N.of_nat (List.length w))) ls).
Proof.
  intros HA HB. unfold lexeme_values_agree. apply Forall2_app.
  - assert (HR : Forall (fun l => (le l < N.of_nat (List.length a))%N) (rev acc)).
    { apply Forall_forall. intros l Hl. apply in_rev in Hl. revert l Hl. now apply Forall_forall. }
    induction HR as [|l r Hl _ IH]; constructor; [|exact IH].
    split; [reflexivity|]. unfold dsize. rewrite size_ins. symmetry. now apply lex_value_lo.
  - induction HB as [|l r Hl _ IH]; cbn [map]; constructor; [|exact IH].
    split; [reflexivity|]. unfold dsize. rewrite size_ins. symmetry. now apply lex_value_hi.
Qed.

Lemma shifted_forest jsc enum banned root root' a w b acc ls fuel fuel' :
  fst (fst (scan jsc enum (a ++ b))) = rev acc ++ ls ->
  fst (fst (scan jsc enum (a ++ w ++ b))) = rev acc ++ map (shL (N.of_nat (List.length w))) ls ->
  verdict (scan jsc enum (a ++ w ++ b)) = she (N.of_nat (List.length w)) (verdict (scan jsc enum (a ++ b))) ->
  Forall (fun l => (le l < N.of_nat (List.length a))%N) acc ->
  Forall (fun l => (N.of_nat (List.length a) <= lb l)%N) ls ->
  verdict (scan jsc enum (a ++ b)) = SEof ->
  no_include (a ++ b) (scan_lexemes jsc enum (a ++ b)) ->
  (List.length (scan_lexemes jsc enum (a ++ b)) < fuel)%nat -> (List.length (scan_lexemes jsc enum (a ++ b)) < fuel')%nat ->
  same_forest_shape (scan_forest_with fuel jsc enum [(root, FFile (a ++ b))] banned root)
                    (scan_forest_with fuel' jsc enum [(root', FFile (a ++ w ++ b))] banned root').
Proof.
  intros EL EL' EV HA HB V Hn Hf Hf'.
  apply same_values_same_forest_shape; try assumption.
  - rewrite EV, V. reflexivity.
  - unfold scan_lexemes. rewrite EL, EL'. now apply shifted_lists_agree.
  - unfold scan_lexemes in *. rewrite EL'. rewrite EL in Hf'. now rewrite app_length, map_length, <- app_length.
Qed.

(* blank bytes (space, tab, CR, LF: blank lines, indentation) inserted at the start of a line where they are inert:
   the premises of ShiftProofs.blanks_at_line_start_shift_lemma, a document that scans to the end and has no INCLUDE *)
Theorem blank_lines_do_not_change_the_forest jsc enum banned root root' a w b g acc fuel fuel' :
  len_sane jsc -> len_sane enum -> Forall isb (a ++ b) -> Forall blank w ->
  line_start a ->
  prefix_run jsc enum (a ++ b) (N.of_nat (List.length a)) = Some (g, acc) ->
  Forall (local_call jsc enum w b) (prefix_calls jsc enum (a ++ b) (N.of_nat (List.length a))) ->
  estk g = [] -> In (reg g) shift_states ->
  verdict (scan jsc enum (a ++ b)) = SEof ->
  no_include (a ++ b) (scan_lexemes jsc enum (a ++ b)) ->
  (List.length (scan_lexemes jsc enum (a ++ b)) < fuel)%nat -> (List.length (scan_lexemes jsc enum (a ++ b)) < fuel')%nat ->
  same_forest_shape (scan_forest_with fuel jsc enum [(root, FFile (a ++ b))] banned root)
                    (scan_forest_with fuel' jsc enum [(root', FFile (a ++ w ++ b))] banned root').
Proof.
  intros S1 S2 HB Hw Hl P1 Hc He Hs V Hn Hf Hf'.
  destruct (blanks_at_line_start_shift_lemma jsc enum a w b g acc S1 S2 HB Hw Hl P1 Hc He Hs) as (ls & EL & EL' & EV).
  destruct (prefix_run_ins_lemma jsc enum a w b Hl g acc P1 Hc) as (P2 & Hpos & Hpre & Hrest & Hfi & Hlast).
  pose proof (prefix_run_reach _ _ _ _ _ _ P1) as R1.
  apply (shifted_forest jsc enum banned root root' a w b acc ls fuel fuel'); try assumption.
  - exact (prefix_run_before jsc enum a w b Hl g acc P1 Hc).
  - apply (insertion_after_lemma jsc enum a w b g acc R1 Hpos Hpre Hrest Hfi He (shift_state_dist _ Hs)
             (reach_stk _ _ _ _ _ _ R1) Hlast); [rewrite V; discriminate|exact EL].
Qed.

(* a whole comment line "# text" + LF inserted at the start of a line *)
Theorem comment_lines_do_not_change_the_forest jsc enum banned root root' a text b g acc fuel fuel' :
  len_sane jsc -> len_sane enum -> Forall isb (a ++ b) -> Forall isb text ->
  forallb plain_comment_byte text = true -> text <> [] ->
  line_start a ->
  let w := comment_line text in
  prefix_run jsc enum (a ++ b) (N.of_nat (List.length a)) = Some (g, acc) ->
  Forall (local_call jsc enum w b) (prefix_calls jsc enum (a ++ b) (N.of_nat (List.length a))) ->
  estk g = [] -> In (reg g) shift_states -> In (reg g) comment_entry_states ->
  verdict (scan jsc enum (a ++ b)) = SEof ->
  no_include (a ++ b) (scan_lexemes jsc enum (a ++ b)) ->
  (List.length (scan_lexemes jsc enum (a ++ b)) < fuel)%nat -> (List.length (scan_lexemes jsc enum (a ++ b)) < fuel')%nat ->
  same_forest_shape (scan_forest_with fuel jsc enum [(root, FFile (a ++ b))] banned root)
                    (scan_forest_with fuel' jsc enum [(root', FFile (a ++ w ++ b))] banned root').
Proof.
  intros S1 S2 HB HT Hplain Hne Hl w P1 Hc He Hs Hce V Hn Hf Hf'.
  destruct (comment_line_at_line_start_shift_lemma jsc enum a text b g acc S1 S2 HB HT Hplain Hne Hl P1 Hc He Hs Hce)
    as (ls & EL & EL' & EV).
  destruct (prefix_run_ins_lemma jsc enum a w b Hl g acc P1 Hc) as (P2 & Hpos & Hpre & Hrest & Hfi & Hlast).
  pose proof (prefix_run_reach _ _ _ _ _ _ P1) as R1.
  apply (shifted_forest jsc enum banned root root' a w b acc ls fuel fuel'); try assumption.
  - exact (prefix_run_before jsc enum a w b Hl g acc P1 Hc).
  - apply (insertion_after_lemma jsc enum a w b g acc R1 Hpos Hpre Hrest Hfi He (shift_state_dist _ Hs)
             (reach_stk _ _ _ _ _ _ R1) Hlast); [rewrite V; discriminate|exact EL].
Qed.

(* the premise "no INCLUDE", decided by computation *)
Definition no_include_b (data : bytes) (ls : list lexeme) : bool :=
  forallb (fun l => negb (lexkind_eqb (lk l) LKeyword) ||
                    negb (match lex_value data (dsize data) l with Ok v => beq v (kind_keyword KInclude) | _ => false end)) ls.

Lemma no_include_b_ok data ls : no_include_b data ls = true -> no_include data ls.
Proof.
  unfold no_include_b, no_include. rewrite forallb_forall. intro H. apply Forall_forall. intros l Hl K E.
  specialize (H l Hl). rewrite K, E, beq_refl in H. discriminate.
Qed.

(* ------------------------------------------------------------------------------------------ *)
(* 7. non-vacuity: the documents of ShiftProofs.ShiftExample / CommentExample                  *)
(* ------------------------------------------------------------------------------------------ *)

Module ForestExample.
  Import ShiftExample CommentExample.
  Definition root : bytes := bs "a.jst".
  Definition project (doc : bytes) : cres (list dtree) := scan_forest_with 100 o0 o0 [(root, FFile doc)] [] root.

  Lemma common :
    Forall isb (a ++ b) /\ verdict (scan o0 o0 (a ++ b)) = SEof /\
    no_include (a ++ b) (scan_lexemes o0 o0 (a ++ b)) /\ (List.length (scan_lexemes o0 o0 (a ++ b)) < 100)%nat.
  Proof.
    split; [unfold isb; vm_compute; repeat constructor|]. split; [vm_compute; reflexivity|].
    split; [apply no_include_b_ok; vm_compute; reflexivity|].
    assert (E : List.length (scan_lexemes o0 o0 (a ++ b)) = 5%nat) by (vm_compute; reflexivity). rewrite E. lia.
  Qed.

  (* "JSIGHT 0.3 / URL /a / GET" and the same with a line of blanks (space, tab, CR, LF) before GET *)
  Example blank_line_theorem_applies : same_forest_shape (project (a ++ b)) (project (a ++ w ++ b)).
  Proof.
    destruct CommentExample.premises as (g & acc & P1 & Pc & Hreg & He & Hn & Hp & Hl).
    destruct common as (HB & V & Hni & Hf).
    apply (blank_lines_do_not_change_the_forest o0 o0 [] root root a w b g acc 100 100 o0_sane o0_sane); try assumption.
    - unfold w. repeat (apply Forall_cons; [unfold blank, blank_bytes; cbn [In]; auto 10|]). apply Forall_nil.
    - change (N.of_nat (List.length a)) with 18%N. rewrite Pc. constructor.
    - rewrite Hreg. vm_compute. auto 20.
  Qed.

  (* ... and with the line "# note" before GET *)
  Example comment_line_theorem_applies : same_forest_shape (project (a ++ b)) (project (a ++ cw ++ b)).
  Proof.
    destruct CommentExample.premises as (g & acc & P1 & Pc & Hreg & He & Hn & Hp & Hl).
    destruct common as (HB & V & Hni & Hf).
    apply (comment_lines_do_not_change_the_forest o0 o0 [] root root a text b g acc 100 100 o0_sane o0_sane); try assumption.
    - unfold isb. vm_compute. repeat constructor.
    - discriminate.
    - change (N.of_nat (List.length a)) with 18%N. rewrite Pc. constructor.
    - rewrite Hreg. vm_compute. auto 20.
    - rewrite Hreg. vm_compute. auto 20.
  Qed.

  (* what the theorems say here, by computation: three forests of one shape, GET at 18, 22 and 25 *)
  Definition kw_offsets (r : cres (list dtree)) : list N :=
    match r with COk f => map (fun d => c_beg (d_kw d)) (flatten f) | _ => [] end.
  Example computed :
    kw_offsets (project (a ++ b)) = [0; 11; 18]%N /\
    kw_offsets (project (a ++ w ++ b)) = [0; 11; 22]%N /\
    kw_offsets (project (a ++ cw ++ b)) = [0; 11; 25]%N /\
    match project (a ++ b), project (a ++ w ++ b), project (a ++ cw ++ b) with
    | COk f1, COk f2, COk f3 => map tshape f1 = map tshape f2 /\ map tshape f2 = map tshape f3 /\ List.length f1 = 2%nat
    | _, _, _ => False
    end.
  Proof. vm_compute. repeat split. Qed.

  Example three_layouts :
    same_forest_shape (project (a ++ b)) (project (a ++ w ++ b)) /\
    same_forest_shape (project (a ++ b)) (project (a ++ cw ++ b)) /\
    kw_offsets (project (a ++ b)) = [0; 11; 18]%N /\
    kw_offsets (project (a ++ w ++ b)) = [0; 11; 22]%N /\
    kw_offsets (project (a ++ cw ++ b)) = [0; 11; 25]%N.
  Proof.
    split; [exact blank_line_theorem_applies|]. split; [exact comment_line_theorem_applies|].
    repeat split; vm_compute; reflexivity.
  Qed.
End ForestExample.

Print Assumptions same_values_same_forest_shape.
Print Assumptions scan_project_is_lexeme_loop.
Print Assumptions blank_lines_do_not_change_the_forest.
Print Assumptions comment_lines_do_not_change_the_forest.
