(* C04 (c): the content of the interactions, traced through the run (continues FaithfulProofs.v) *)
From Coq Require Import List NArith Bool String Lia.
From JV.lib Require Import Bytes.
From JV.gen Require Import DirectiveTables TagName.
From JV.model Require Import ScannerSem Core Description PathParams TagTitle Catalog.
From JV.proofs Require Import BytesLemmas TagNameProofs CatalogProofs FaithfulProofs.
Import ListNotations.
Open Scope N_scope.

(* ------------------------------------------------------------------------------------- *)
(* the CONTENT of an interaction (skeleton level) and the directives that fill it           *)

Record cv : Set := {
  cv_desc : option bytes;                     (* normalised description text *)
  cv_query : option (bytes * bytes);          (* format, example *)
  cv_req : bool;                              (* has a request *)
  cv_codes : list (bytes * bytes);            (* responses: (code, annotation), in order *)
  cv_params : bool;
  cv_result : bool
}.

Definition cview (x : interaction) : cv :=
  match x with
  | IHttp h => {| cv_desc := hi_desc h;
                  cv_query := match hi_query h with Some q => Some (qu_format q, qu_example q) | None => None end;
                  cv_req := match hi_request h with Some _ => true | None => false end;
                  cv_codes := map (fun r => (r_code r, r_annot r)) (hi_responses h);
                  cv_params := false; cv_result := false |}
  | IRpc r => {| cv_desc := ri_desc r; cv_query := None; cv_req := false; cv_codes := [];
                 cv_params := match ri_params r with Some _ => true | None => false end;
                 cv_result := match ri_result r with Some _ => true | None => false end |}
  end.

Definition cv_empty : cv :=
  {| cv_desc := None; cv_query := None; cv_req := false; cv_codes := []; cv_params := false; cv_result := false |}.

Inductive event : Set :=
| EDesc (text : bytes) | EQuery (fmt ex : bytes) | EReq | ECode (code annot : bytes) | EParams | EResult.

Definition apply_event (v : cv) (e : event) : cv :=
  match e with
  | EDesc t => {| cv_desc := Some t; cv_query := cv_query v; cv_req := cv_req v; cv_codes := cv_codes v; cv_params := cv_params v; cv_result := cv_result v |}
  | EQuery f x => {| cv_desc := cv_desc v; cv_query := Some (f, x); cv_req := cv_req v; cv_codes := cv_codes v; cv_params := cv_params v; cv_result := cv_result v |}
  | EReq => {| cv_desc := cv_desc v; cv_query := cv_query v; cv_req := true; cv_codes := cv_codes v; cv_params := cv_params v; cv_result := cv_result v |}
  | ECode c a => {| cv_desc := cv_desc v; cv_query := cv_query v; cv_req := cv_req v; cv_codes := cv_codes v ++ [(c, a)]; cv_params := cv_params v; cv_result := cv_result v |}
  | EParams => {| cv_desc := cv_desc v; cv_query := cv_query v; cv_req := cv_req v; cv_codes := cv_codes v; cv_params := true; cv_result := cv_result v |}
  | EResult => {| cv_desc := cv_desc v; cv_query := cv_query v; cv_req := cv_req v; cv_codes := cv_codes v; cv_params := cv_params v; cv_result := true |}
  end.

Definition for_id (r : id_res) (j : iid) (e : event) : list event :=
  match r with IdOk i => if iid_eqb j i then [e] else [] | IdErr _ => [] end.

(* the content event a directive at a position is for interaction j *)
Definition events (body_text : coords -> bytes) (t : dtree) (anc : list dtree) (j : iid) : list event :=
  let d := tree_dir t in
  match dk t with
  | KDescription =>
    match d_body d, parent_dir anc with
    | Some bc, Some p =>
      if is_http_method (d_kind p) then for_id (http_id d anc) j (EDesc (fst (description (body_text bc))))
      else if kind_eqb (d_kind p) KMethod then for_id (rpc_id d anc) j (EDesc (fst (description (body_text bc))))
      else []
    | _, _ => []
    end
  | KQuery =>
    let fmt := named d (bs "Format") in
    for_id (http_id d anc) j (EQuery (if beq fmt [] then bs "htmlFormEncoded" else fmt) (named d (bs "QueryExample")))
  | KRequest => for_id (http_id d anc) j EReq
  | KHTTPResponseCode => for_id (http_id d anc) j (ECode (d_keyword d) (d_annot d))
  | KParams => for_id (rpc_id d anc) j EParams
  | KResult => for_id (rpc_id d anc) j EResult
  | _ => []
  end.

(* one step, seen from an existing interaction j (whose entry has the protocol of its id) *)
Definition vstep (body_text : coords -> bytes) (t : dtree) (anc : list dtree) (c c' : catalog) : Prop :=
  forall j x, om_get iid_eqb (c_inters c) j = Some x -> iproto x = i_proto j ->
  exists x', om_get iid_eqb (c_inters c') j = Some x' /\ iproto x' = iproto x /\
             cview x' = fold_left apply_event (events body_text t anc j) (cview x).

Lemma om_get_update {V} (m : list (iid * V)) i g j :
  om_get iid_eqb (om_update iid_eqb m i g) j =
  match om_get iid_eqb m j with Some x => Some (if iid_eqb j i then g x else x) | None => None end.
Proof.
  unfold om_get, om_update. induction m as [|[k v] m IH]; simpl; [reflexivity|].
  destruct (iid_eqb k i) eqn:E1; simpl.
  - destruct (iid_eqb k j) eqn:E2; simpl.
    + apply iid_eqb_eq in E1. apply iid_eqb_eq in E2. subst. rewrite iid_eqb_refl. reflexivity.
    + exact IH.
  - destruct (iid_eqb k j) eqn:E2; simpl.
    + apply iid_eqb_eq in E2. subst. rewrite E1. reflexivity.
    + exact IH.
Qed.

Lemma om_get_snoc_old {V} (m : list (iid * V)) i v j x :
  om_get iid_eqb m j = Some x -> om_get iid_eqb (m ++ [(i, v)]) j = Some x.
Proof.
  unfold om_get. induction m as [|e m IH]; simpl; [discriminate|].
  destruct (iid_eqb (fst e) j); [auto | exact IH].
Qed.

Lemma om_get_snoc_new {V} (m : list (iid * V)) i v :
  om_get iid_eqb m i = None -> om_get iid_eqb (m ++ [(i, v)]) i = Some v.
Proof.
  unfold om_get. induction m as [|e m IH]; simpl.
  - intros _. rewrite iid_eqb_refl. reflexivity.
  - destruct (iid_eqb (fst e) i); [discriminate | exact IH].
Qed.

Lemma vstep_same bt t anc c c' :
  c_inters c' = c_inters c -> (forall j, events bt t anc j = []) -> vstep bt t anc c c'.
Proof.
  intros Hi He j x Hj Hp. exists x. rewrite Hi, He. repeat split; auto.
Qed.

(* an update (of the entries with key i) that changes neither protocol nor content view *)
Lemma vstep_update bt t anc c c' i g :
  c_inters c' = om_update iid_eqb (c_inters c) i g ->
  (forall x, iproto (g x) = iproto x /\ cview (g x) = cview x) ->
  (forall j, events bt t anc j = []) -> vstep bt t anc c c'.
Proof.
  intros Hi Hg He j x Hj Hp. rewrite Hi, om_get_update, Hj, He.
  destruct (iid_eqb j i); [exists (g x); destruct (Hg x) as [A B]; repeat split; auto | exists x; repeat split; auto].
Qed.

Lemma vstep_snoc bt t anc c c' i v :
  c_inters c' = c_inters c ++ [(i, v)] -> (forall j, events bt t anc j = []) -> vstep bt t anc c c'.
Proof.
  intros Hi He j x Hj Hp. exists x. rewrite Hi, He. split; [apply om_get_snoc_old; exact Hj|]. split; reflexivity.
Qed.

Lemma codes_set_last h f :
  (forall r, r_code (f r) = r_code r /\ r_annot (f r) = r_annot r) ->
  map (fun r => (r_code r, r_annot r)) (hi_responses (set_last_response h f)) =
  map (fun r => (r_code r, r_annot r)) (hi_responses h).
Proof.
  intro Hf. unfold set_last_response. simpl.
  rewrite <- (rev_involutive (hi_responses h)) at 2.
  destruct (rev (hi_responses h)) as [|r0 rs]; [reflexivity|].
  simpl. rewrite !map_app. simpl. destruct (Hf r0) as [A B]. rewrite A, B. reflexivity.
Qed.

Lemma cview_set_last h f :
  (forall r, r_code (f r) = r_code r /\ r_annot (f r) = r_annot r) ->
  cview (IHttp (set_last_response h f)) = cview (IHttp h).
Proof.
  intro Hf. unfold cview. rewrite (codes_set_last h f Hf). reflexivity.
Qed.

Lemma http_entry j x : i_proto j = PHttp -> iproto x = i_proto j -> exists h, x = IHttp h.
Proof. intros A B. destruct x as [h|r]; [exists h; reflexivity | simpl in B; congruence]. Qed.
Lemma rpc_entry j x : i_proto j = PRpc -> iproto x = i_proto j -> exists r, x = IRpc r.
Proof. intros A B. destruct x as [h|r]; [simpl in B; congruence | exists r; reflexivity]. Qed.

Ltac http_view H Hk bb :=
  unfold kerr, cbind in H; walk H; inversion H; subst bb; clear H; rewrite b_cat_with_cat;
  match goal with Hc : check_path _ _ _ = COk ?a |- _ =>
    eapply vstep_snoc; [simpl; rewrite (check_path_cat _ _ _ _ Hc); reflexivity
                       | intro j; unfold events, dk; rewrite Hk; reflexivity] end.

(* a leaf whose new collection is [upd_http c i f] / [upd_rpc c i f] over the old one, with the id [i] known *)
Ltac upd_leaf j x Hj Hp E :=
  intros j x Hj Hp; unfold upd_http, upd_rpc; simpl c_inters; rewrite om_get_update, Hj.

Section ViewStep.
  Variable body_text : coords -> bytes.
  Variable banned : list kind.

  (* Request (creates the request) and Body under Request (fills it) *)
  Lemma add_request_view d anc b b' :
    add_request d anc b = COk b' ->
    forall j x, om_get iid_eqb (c_inters (b_cat b)) j = Some x -> iproto x = i_proto j ->
    exists x', om_get iid_eqb (c_inters (b_cat b')) j = Some x' /\ iproto x' = iproto x /\
      cview x' = (if kind_eqb (d_kind d) KRequest
                  then fold_left apply_event (for_id (http_id d anc) j EReq) (cview x) else cview x).
  Proof.
    unfold add_request, kerr, get_http. intro H. cbv beta zeta in H.
    destruct (kind_eqb (d_kind d) KRequest) eqn:Ek; walk H; inversion H; subst b'; clear H;
      rewrite b_cat_with_cat; intros j x Hj Hp;
      match goal with Hh : http_id _ _ = IdOk ?i |- _ => destruct (http_id_proto _ _ _ Hh) as [Hpi _] end;
      unfold upd_http; simpl c_inters; rewrite ?om_get_update, Hj; unfold for_id;
      (destruct (iid_eqb j i) eqn:E; [apply iid_eqb_eq in E; subst j | eexists; repeat split; reflexivity]);
      destruct (http_entry _ _ Hpi Hp) as [h0 ->]; eexists; (split; [reflexivity|]); (split; [reflexivity|]).
    all: try (unfold cview; simpl; destruct (hi_request h0); reflexivity).
    all: try (destruct (hi_request h0) eqn:Eq; unfold cview; simpl; rewrite ?Eq; reflexivity).
    all: match goal with Hl : om_get _ _ _ = Some (IHttp ?hh) |- _ => rewrite Hj in Hl; inversion Hl; subst hh end.
    all: unfold cview; simpl; repeat match goal with Hq : hi_request _ = _ |- _ => rewrite Hq end; reflexivity.
  Qed.

  (* the response-code directive (appends a response) and Body under it (fills the last response) *)
  Lemma add_response_view d anc b b' :
    add_response d anc b = COk b' ->
    forall j x, om_get iid_eqb (c_inters (b_cat b)) j = Some x -> iproto x = i_proto j ->
    exists x', om_get iid_eqb (c_inters (b_cat b')) j = Some x' /\ iproto x' = iproto x /\
      cview x' = (if kind_eqb (d_kind d) KHTTPResponseCode
                  then fold_left apply_event (for_id (http_id d anc) j (ECode (d_keyword d) (d_annot d))) (cview x)
                  else cview x).
  Proof.
    unfold add_response, kerr, get_http. intro H. cbv beta zeta in H. unfold cbind in H.
    destruct (kind_eqb (d_kind d) KHTTPResponseCode) eqn:Ek; walk H; inversion H; subst b'; clear H;
      rewrite b_cat_with_cat; intros j x Hj Hp.
    all: try (eexists; split; [exact Hj|]; split; reflexivity).
    all: match goal with Hh : http_id _ _ = IdOk ?i |- _ => destruct (http_id_proto _ _ _ Hh) as [Hpi _] end;
      unfold upd_http; simpl c_inters; rewrite ?om_get_update, Hj; unfold for_id;
      (destruct (iid_eqb j i) eqn:E; [apply iid_eqb_eq in E; subst j | eexists; repeat split; reflexivity]);
      destruct (http_entry _ _ Hpi Hp) as [h0 ->]; eexists; (split; [reflexivity|]); (split; [reflexivity|]).
    all: try (rewrite cview_set_last; [|intro; split; reflexivity]).
    all: try (unfold cview; simpl; rewrite ?map_app; reflexivity).
  Qed.

  Lemma view_step t anc b b' :
    add_directive body_text banned t anc b = COk b' -> vstep body_text t anc (b_cat b) (b_cat b').
  Proof.
    intro H. unfold add_directive in H. cbv zeta in H.
    destruct (kind_in (d_kind (tree_dir t)) banned); [discriminate H|].
    destruct (d_kind (tree_dir t)) eqn:Hk; kcompute_in H; cbv beta iota delta [orb] in H.
    all: try (try unfold kerr in H; try unfold berr in H; try unfold cbind in H; walk H; inversion H; try subst b'; clear H; rewrite ?b_cat_with_cat;
              try match goal with Hc : check_path _ _ _ = COk ?a |- _ => simpl; rewrite (check_path_cat _ _ _ _ Hc) end;
              apply vstep_same; [reflexivity | intro j; unfold events, dk; rewrite Hk; reflexivity]).
    - (* Description *)
      unfold kerr, berr, get_http, get_rpc in H. walk H; inversion H; subst b'; clear H; rewrite b_cat_with_cat.
      all: assert (Hev : forall j, events body_text t anc j =
             (if is_http_method (d_kind d) then for_id (http_id (tree_dir t) anc) j (EDesc (n :: b1))
              else if kind_eqb (d_kind d) KMethod then for_id (rpc_id (tree_dir t) anc) j (EDesc (n :: b1)) else []))
        by (intro j; unfold events, dk; rewrite Hk; cbv beta iota zeta;
            repeat match goal with Hb : d_body _ = Some _ |- _ => rewrite Hb | Hb : parent_dir _ = Some _ |- _ => rewrite Hb
                                   | Hb : description _ = _ |- _ => rewrite Hb end; reflexivity).
      + (* under INFO *)
        apply vstep_same; [reflexivity|]. intro j. rewrite Hev. apply kind_eqb_eq in Heqb2. rewrite Heqb2. reflexivity.
      + (* under GET/POST/.. *)
        intros j x Hj Hp. unfold upd_http. simpl c_inters. rewrite om_get_update, Hj, Hev, Heqb3, Heqi. unfold for_id.
        destruct (http_id_proto _ _ _ Heqi) as [Hpi _].
        destruct (iid_eqb j i) eqn:E; [apply iid_eqb_eq in E; subst j | eexists; repeat split; reflexivity].
        destruct (http_entry _ _ Hpi Hp) as [h0 ->]. eexists. split; [reflexivity|]. split; reflexivity.
      + (* under Method *)
        intros j x Hj Hp. unfold upd_rpc. simpl c_inters. rewrite om_get_update, Hj, Hev, Heqb3, Heqb4, Heqi. unfold for_id.
        destruct (rpc_id_proto _ _ _ Heqi) as [Hpi _].
        destruct (iid_eqb j i) eqn:E; [apply iid_eqb_eq in E; subst j | eexists; repeat split; reflexivity].
        destruct (rpc_entry _ _ Hpi Hp) as [r0 ->]. eexists. split; [reflexivity|]. split; reflexivity.
      + (* under TAG *)
        apply vstep_same; [reflexivity|]. intro j. rewrite Hev, Heqb3, Heqb4. reflexivity.
    - (* URL *)
      unfold kerr, cbind in H. walk H; inversion H; subst b'; clear H; simpl;
        match goal with Hc : check_path _ _ _ = COk _ |- _ => rewrite (check_path_cat _ _ _ _ Hc) end;
        (apply vstep_same; [reflexivity | intro j; unfold events, dk; rewrite Hk; reflexivity]).
    - http_view H Hk b'.
    - http_view H Hk b'.
    - http_view H Hk b'.
    - http_view H Hk b'.
    - http_view H Hk b'.
    - (* Body *)
      unfold kerr in H. walk H.
      + intros j x Hj Hp. destruct (add_request_view _ _ _ _ H j x Hj Hp) as [x' [A [B C]]].
        exists x'. split; [exact A|]. split; [exact B|]. rewrite C, Hk. unfold events, dk. rewrite Hk. reflexivity.
      + intros j x Hj Hp. destruct (add_response_view _ _ _ _ H j x Hj Hp) as [x' [A [B C]]].
        exists x'. split; [exact A|]. split; [exact B|]. rewrite C, Hk. unfold events, dk. rewrite Hk. reflexivity.
      + inversion H; subst b'. apply vstep_same; [reflexivity | intro j; unfold events, dk; rewrite Hk; reflexivity].
    - (* Request *)
      intros j x Hj Hp. destruct (add_request_view _ _ _ _ H j x Hj Hp) as [x' [A [B C]]].
      exists x'. split; [exact A|]. split; [exact B|]. rewrite C, Hk. unfold events, dk. rewrite Hk. reflexivity.
    - (* response code *)
      intros j x Hj Hp. destruct (add_response_view _ _ _ _ H j x Hj Hp) as [x' [A [B C]]].
      exists x'. split; [exact A|]. split; [exact B|]. rewrite C, Hk. unfold events, dk. rewrite Hk. reflexivity.
    - (* Headers *)
      assert (Hev : forall j, events body_text t anc j = []) by (intro j; unfold events, dk; rewrite Hk; reflexivity).
      unfold kerr, get_http in H. walk H; inversion H; subst b'; clear H; rewrite b_cat_with_cat;
        intros j x Hj Hp; unfold upd_http; simpl c_inters; rewrite om_get_update, Hj, Hev;
        match goal with Hh : http_id _ _ = IdOk ?i |- _ => destruct (http_id_proto _ _ _ Hh) as [Hpi _] end;
        (destruct (iid_eqb j i) eqn:E; [apply iid_eqb_eq in E; subst j | eexists; repeat split; reflexivity]);
        destruct (http_entry _ _ Hpi Hp) as [h0 ->]; eexists; (split; [reflexivity|]); (split; [reflexivity|]).
      + match goal with Hl : om_get _ _ _ = Some (IHttp ?hh) |- _ => rewrite Hj in Hl; inversion Hl; subst hh end.
        unfold cview. simpl. rewrite Heqo1. reflexivity.
      + simpl fold_left. apply cview_set_last. intro; split; reflexivity.
    - (* Query *)
      unfold kerr, get_http in H. walk H; inversion H; subst b'; clear H; rewrite b_cat_with_cat.
      intros j x Hj Hp. unfold upd_http. simpl c_inters. rewrite om_get_update, Hj.
      unfold events, dk. rewrite Hk. cbv beta iota zeta. rewrite Heqi. unfold for_id.
      destruct (http_id_proto _ _ _ Heqi) as [Hpi _].
      destruct (iid_eqb j i) eqn:E; [apply iid_eqb_eq in E; subst j | eexists; repeat split; reflexivity].
      destruct (http_entry _ _ Hpi Hp) as [h0 ->]. eexists. split; [reflexivity|]. split; reflexivity.
    - (* Method *)
      unfold kerr, cbind in H. walk H. inversion H; subst b'; clear H. rewrite b_cat_with_cat.
      eapply vstep_snoc; [reflexivity | intro j; unfold events, dk; rewrite Hk; reflexivity].
    - (* Params *)
      unfold kerr, get_rpc in H. walk H; inversion H; subst b'; clear H; rewrite b_cat_with_cat.
      intros j x Hj Hp. unfold upd_rpc. simpl c_inters. rewrite om_get_update, Hj.
      unfold events, dk. rewrite Hk. cbv beta iota zeta. rewrite Heqi. unfold for_id.
      destruct (rpc_id_proto _ _ _ Heqi) as [Hpi _].
      destruct (iid_eqb j i) eqn:E; [apply iid_eqb_eq in E; subst j | eexists; repeat split; reflexivity].
      destruct (rpc_entry _ _ Hpi Hp) as [r0 ->]. eexists. split; [reflexivity|]. split; reflexivity.
    - (* Result *)
      unfold kerr, get_rpc in H. walk H; inversion H; subst b'; clear H; rewrite b_cat_with_cat.
      intros j x Hj Hp. unfold upd_rpc. simpl c_inters. rewrite om_get_update, Hj.
      unfold events, dk. rewrite Hk. cbv beta iota zeta. rewrite Heqi. unfold for_id.
      destruct (rpc_id_proto _ _ _ Heqi) as [Hpi _].
      destruct (iid_eqb j i) eqn:E; [apply iid_eqb_eq in E; subst j | eexists; repeat split; reflexivity].
      destruct (rpc_entry _ _ Hpi Hp) as [r0 ->]. eexists. split; [reflexivity|]. split; reflexivity.
  Qed.

  (* the step of a GET/POST/../Method node creates an entry with empty content *)
  Lemma create_step t anc b b' i :
    add_directive body_text banned t anc b = COk b' -> inter_delta t anc = [i] ->
    om_get iid_eqb (c_inters (b_cat b)) i = None ->
    exists x, om_get iid_eqb (c_inters (b_cat b')) i = Some x /\ iproto x = i_proto i /\ cview x = cv_empty.
  Proof.
    intros H Hd Hnone. unfold add_directive in H. cbv zeta in H.
    destruct (kind_in (d_kind (tree_dir t)) banned); [discriminate H|].
    unfold inter_delta, dk in Hd.
    destruct (d_kind (tree_dir t)) eqn:Hk; kcompute_in Hd; cbv beta iota in Hd; try discriminate Hd;
      kcompute_in H; cbv beta iota in H; unfold kerr, cbind in H; walk H; inversion H; subst b'; clear H;
      rewrite b_cat_with_cat; simpl c_inters;
      try match goal with Hc : check_path _ _ _ = COk _ |- _ => rewrite (check_path_cat _ _ _ _ Hc) in * end;
      try match goal with Hp : path_of _ _ = PathOk _ |- _ => rewrite Hp in Hd end;
      try match goal with Hp : rpc_id _ _ = IdOk _ |- _ => rewrite Hp in Hd; destruct (rpc_id_proto _ _ _ Hp) as [Hpr _] end;
      inversion Hd; subst i; clear Hd;
      eexists; (split; [apply om_get_snoc_new; exact Hnone|]); split; try reflexivity.
    destruct (rpc_id_proto _ _ _ Heqi0) as [Hpr _]. symmetry; exact Hpr.
  Qed.
End ViewStep.
(* ------------------------------------------------------------------------------------- *)
(* the content of an interaction = the events of the directives after its method directive  *)

Definition events_of (bt : coords -> bytes) (j : iid) (l : list (dtree * list dtree)) : list event :=
  flat_map (fun p => events bt (fst p) (snd p) j) l.

Section RunView.
  Variable body_text : coords -> bytes.
  Variable banned : list kind.

  Lemma run_view l : forall b b', run body_text banned l b = COk b' ->
    forall j x, om_get iid_eqb (c_inters (b_cat b)) j = Some x -> iproto x = i_proto j ->
    exists x', om_get iid_eqb (c_inters (b_cat b')) j = Some x' /\ iproto x' = iproto x /\
               cview x' = fold_left apply_event (events_of body_text j l) (cview x).
  Proof.
    induction l as [|p r IH]; intros b b' H j x Hj Hp; simpl in H.
    - inversion H; subst. exists x. repeat split; auto.
    - destruct (add_directive body_text banned (fst p) (snd p) b) as [b1| | |] eqn:E; simpl in H; try discriminate H.
      apply view_step in E. destruct (E j x Hj Hp) as [x1 [A [B C]]].
      destruct (IH _ _ H j x1 A) as [x' [A' [B' C']]]; [congruence|].
      exists x'. split; [exact A'|]. split; [congruence|].
      unfold events_of in *. simpl. rewrite fold_left_app, <- C. exact C'.
  Qed.
End RunView.

Lemma om_get_none_keys {V} (m : list (iid * V)) j : ~ In j (map fst m) -> om_get iid_eqb m j = None.
Proof.
  unfold om_get. induction m as [|e m IH]; simpl; intro H; [reflexivity|].
  destruct (iid_eqb (fst e) j) eqn:E; [apply iid_eqb_eq in E; exfalso; apply H; left; exact E|].
  apply IH. intro Hin; apply H; right; exact Hin.
Qed.

Lemma om_get_in_nodup {V} (m : list (iid * V)) j x :
  NoDup (map fst m) -> In (j, x) m -> om_get iid_eqb m j = Some x.
Proof.
  unfold om_get. induction m as [|e m IH]; simpl; intros Hnd Hin; [destruct Hin|].
  inversion Hnd; subst. destruct Hin as [Hin|Hin].
  - subst e. simpl. rewrite iid_eqb_refl. reflexivity.
  - destruct (iid_eqb (fst e) j) eqn:E; [|exact (IH H2 Hin)].
    apply iid_eqb_eq in E. exfalso. apply H1. rewrite E. apply (in_map fst) in Hin. exact Hin.
Qed.

Lemma NoDup_app_disjoint {A} (l1 l2 : list A) x : NoDup (l1 ++ l2) -> In x l2 -> ~ In x l1.
Proof.
  induction l1 as [|a l1 IH]; simpl; intros Hnd Hin; [intros []|].
  inversion Hnd; subst. intros [H|H].
  - subst a. apply H1. apply in_or_app; right; exact Hin.
  - exact (IH H2 Hin H).
Qed.

Lemma NoDup_app_r {A} (l1 l2 : list A) : NoDup (l1 ++ l2) -> NoDup l2.
Proof. induction l1 as [|a l1 IH]; simpl; intro H; [exact H|]. inversion H; auto. Qed.

Section Content.
  Variable path_props : coords -> option (list bytes).
  Variable body_text : coords -> bytes.
  Variable banned : list kind.
  Variable post : list dtree.
  Variable c : catalog.
  Hypothesis Hbuild : build path_props body_text banned post = COk c.

  (* FULL: every interaction of the catalog was made by exactly one method directive; its annotation is
     that directive's; its content is what the directives AFTER that one (in pre-order) that resolve to
     its id put there, in that order; nothing before it and nothing else contributes *)
  Theorem content_faithful_lemma : forall j x, In (j, x) (c_inters c) ->
    exists l1 t anc l2,
      positions_all post = l1 ++ (t, anc) :: l2 /\ inter_delta t anc = [j] /\ made_by t anc j /\
      ~ In j (method_ids l1) /\ ~ In j (method_ids l2) /\
      iannot x = d_annot (tree_dir t) /\
      cview x = fold_left apply_event (events_of body_text j l2) cv_empty.
  Proof.
    intros j x Hin.
    destruct (build_run _ _ _ _ _ Hbuild) as [en [tg [b [all [He [Ht [Hrun Hc]]]]]]].
    destruct (catalog_keys_lemma _ _ _ _ _ Hbuild) as [_ [_ [_ [_ [Hkeys Hann]]]]].
    destruct (keys_unique_lemma _ _ _ _ _ Hbuild) as [_ [_ [_ [_ Hnd]]]].
    assert (Hj : In j (method_ids (positions_all post))).
    { rewrite <- Hkeys. apply (in_map fst) in Hin. exact Hin. }
    unfold method_ids in Hj. apply in_flat_map in Hj as [[t anc] [Hpos Hdelta]]. simpl in Hdelta.
    apply in_split in Hpos as [l1 [l2 Hsplit]].
    assert (Hm : method_kind t = true).
    { unfold inter_delta in Hdelta. unfold method_kind.
      destruct (is_http_method (dk t)); [reflexivity|]. destruct (kind_eqb (dk t) KMethod); [reflexivity | destruct Hdelta]. }
    destruct (every_method_makes_an_interaction_lemma _ _ _ _ _ Hbuild t anc) as [i [Hi [Hmade _]]];
      [rewrite Hsplit; apply in_or_app; right; left; reflexivity | exact Hm |].
    rewrite Hi in Hdelta. destruct Hdelta as [<-|[]].
    assert (Hids : method_ids (positions_all post) = method_ids l1 ++ [i] ++ method_ids l2).
    { rewrite Hsplit. unfold method_ids. rewrite flat_map_app. simpl. rewrite Hi. reflexivity. }
    rewrite Hkeys, Hids in Hnd.
    assert (Hn1 : ~ In i (method_ids l1)).
    { eapply NoDup_app_disjoint; [exact Hnd | left; reflexivity]. }
    assert (Hn2 : ~ In i (method_ids l2)).
    { apply NoDup_app_r in Hnd. simpl in Hnd. inversion Hnd; assumption. }
    exists l1, t, anc, l2. split; [exact Hsplit|]. split; [exact Hi|]. split; [exact Hmade|].
    split; [exact Hn1|]. split; [exact Hn2|].
    (* annotation *)
    assert (HA : iannot x = d_annot (tree_dir t)).
    { assert (Hin' : In (i, iannot x) (aview (c_inters c))).
      { unfold aview. apply in_map_iff. exists (i, x). split; [reflexivity | exact Hin]. }
      rewrite Hann, Hsplit in Hin'. unfold method_annots in Hin'. rewrite flat_map_app in Hin'. simpl in Hin'.
      rewrite Hi in Hin'. simpl in Hin'.
      apply in_app_or in Hin' as [H|[H|H]].
      - exfalso. apply Hn1. rewrite <- method_annots_ids. apply (in_map fst) in H. exact H.
      - inversion H. reflexivity.
      - exfalso. apply Hn2. rewrite <- method_annots_ids. apply (in_map fst) in H. exact H. }
    split; [exact HA|].
    (* content *)
    rewrite Hsplit, run_app in Hrun.
    destruct (run body_text banned l1 (init_state en tg)) as [b1| | |] eqn:E1; simpl in Hrun; try discriminate Hrun.
    destruct (add_directive body_text banned t anc b1) as [b2| | |] eqn:E2; simpl in Hrun; try discriminate Hrun.
    destruct (run_keys _ _ _ _ _ E1) as [_ [_ [_ [_ K1]]]]. simpl in K1.
    assert (Hnone : om_get iid_eqb (c_inters (b_cat b1)) i = None).
    { apply om_get_none_keys. rewrite <- aview_keys, K1, method_annots_ids. exact Hn1. }
    destruct (create_step _ _ _ _ _ _ _ E2 Hi Hnone) as [x0 [G1 [G2 G3]]].
    destruct (run_view _ _ _ _ _ Hrun i x0 G1 G2) as [x' [G4 [_ G5]]].
    rewrite G3 in G5. rewrite <- G5.
    (* the entry of the final catalog is x' with its path variables filled in *)
    subst c. unfold set_pathvars in Hin. simpl in Hin. apply in_map_iff in Hin as [[k y] [Heq Hy]].
    assert (Hky : k = i /\ cview x = cview y).
    { destruct y as [h|r]; simpl in Heq; inversion Heq; split; reflexivity. }
    destruct Hky as [-> Hcv]. rewrite Hcv. f_equal.
    assert (Hndb : NoDup (map fst (c_inters (b_cat b)))).
    { assert (K : map fst (c_inters (set_pathvars (b_cat b) all)) = map fst (c_inters (b_cat b))).
      { rewrite <- !aview_keys, aview_set_pathvars. reflexivity. }
      rewrite <- K, Hkeys, Hids. exact Hnd. }
    pose proof (om_get_in_nodup _ _ _ Hndb Hy) as G6. rewrite G4 in G6. inversion G6; reflexivity.
  Qed.
End Content.

(* reading a folded view *)
Definition code_of (e : event) : list (bytes * bytes) := match e with ECode c a => [(c, a)] | _ => [] end.
Definition is_req (e : event) : bool := match e with EReq => true | _ => false end.
Definition is_params (e : event) : bool := match e with EParams => true | _ => false end.
Definition is_result (e : event) : bool := match e with EResult => true | _ => false end.
Definition last_query (acc : option (bytes * bytes)) (e : event) := match e with EQuery f x => Some (f, x) | _ => acc end.
Definition last_desc (acc : option bytes) (e : event) := match e with EDesc t => Some t | _ => acc end.

Lemma fold_events_read evs : forall v,
  let v' := fold_left apply_event evs v in
  cv_codes v' = cv_codes v ++ flat_map code_of evs /\
  cv_req v' = cv_req v || existsb is_req evs /\
  cv_params v' = cv_params v || existsb is_params evs /\
  cv_result v' = cv_result v || existsb is_result evs /\
  cv_query v' = fold_left last_query evs (cv_query v) /\
  cv_desc v' = fold_left last_desc evs (cv_desc v).
Proof.
  induction evs as [|e r IH]; intro v; simpl.
  - rewrite app_nil_r, !orb_false_r. repeat split; reflexivity.
  - destruct (IH (apply_event v e)) as [A [B [C [D [E F]]]]]. simpl in *.
    rewrite A, B, C, D, E, F. destruct e; simpl; rewrite ?app_nil_r, ?orb_false_r, ?orb_true_r, <- ?app_assoc;
      repeat split; try reflexivity; rewrite ?orb_true_l; reflexivity.
Qed.

(* the children of a method directive resolve to its interaction *)
Lemma http_child_resolves t anc k p :
  is_http_method (dk t) = true -> path_of (tree_dir t) anc = PathOk p ->
  is_http_method (dk k) = false -> kind_eqb (dk k) KURL = false ->
  http_id (tree_dir k) (t :: anc) = IdOk {| i_proto := PHttp; i_method := method_name (dk t); i_path := p |}.
Proof.
  unfold dk. intros Ht Hp Hk1 Hk2. unfold http_id, path_of in *. simpl.
  rewrite Hk2, Hk1. simpl.
  destruct (path_raw (tree_dir t) anc) as [q|]; [|discriminate Hp].
  destruct (has_slash_prefix q); [|discriminate Hp]. inversion Hp; subst q.
  destruct anc; simpl; rewrite Ht; reflexivity.
Qed.

Lemma rpc_child_resolves t anc k i :
  dk t = KMethod -> rpc_id (tree_dir t) anc = IdOk i ->
  is_http_method (dk k) = false -> kind_eqb (dk k) KURL = false -> kind_eqb (dk k) KMethod = false ->
  rpc_id (tree_dir k) (t :: anc) = IdOk i.
Proof.
  unfold dk. intros Ht Hi Hk1 Hk2 Hk3. unfold rpc_id, path_of in *. simpl.
  rewrite Hk2, Hk1, Hk3. simpl.
  destruct (path_raw (tree_dir t) anc) as [q|]; [|discriminate Hi].
  destruct (has_slash_prefix q); [|discriminate Hi]. exact Hi.
Qed.
