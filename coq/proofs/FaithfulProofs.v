(* C04 (catalog faithfulness), C20 (locality), C10 (declaration order) on the catalog model
   (model/Catalog.v), building on proofs/CatalogProofs.v.

   The pre-order fold add_all is turned into a fold over the LIST of positions of the forest
   (add_all_run); every collection of the catalog is then traced through the steps. *)
From Coq Require Import List NArith Bool String Lia Permutation.
From JV.lib Require Import Bytes.
From JV.gen Require Import DirectiveTables TagName.
From JV.model Require Import ScannerSem Core Description PathParams TagTitle Catalog.
From JV.proofs Require Import BytesLemmas TagNameProofs CatalogProofs.
Import ListNotations.
Open Scope N_scope.

(* ------------------------------------------------------------------------------------- *)
(* positions of a forest in pre-order (node, ancestors innermost first)                     *)

Fixpoint positions (t : dtree) (anc : list dtree) {struct t} : list (dtree * list dtree) :=
  match t with
  | DNode d ks =>
    (DNode d ks, anc) ::
    (fix go (l : list dtree) : list (dtree * list dtree) :=
       match l with
       | [] => []
       | k :: r => positions k (DNode d ks :: anc) ++ go r
       end) ks
  end.

Fixpoint positions_kids (t : dtree) (anc : list dtree) (ks : list dtree) : list (dtree * list dtree) :=
  match ks with
  | [] => []
  | k :: r => positions k (t :: anc) ++ positions_kids t anc r
  end.

Lemma positions_eq t anc : positions t anc = (t, anc) :: positions_kids t anc (tree_kids t).
Proof.
  destruct t as [d ks]. simpl. f_equal.
  generalize (DNode d ks) as t. intro t. induction ks as [|k r IH]; simpl; [reflexivity|].
  rewrite IH. reflexivity.
Qed.

Fixpoint positions_all (ts : list dtree) : list (dtree * list dtree) :=
  match ts with [] => [] | t :: r => positions t [] ++ positions_all r end.

Lemma positions_all_app a b : positions_all (a ++ b) = positions_all a ++ positions_all b.
Proof. induction a as [|t r IH]; simpl; [reflexivity|]. rewrite IH, app_assoc. reflexivity. Qed.

Lemma positions_kids_in t anc ks t' anc' :
  In (t', anc') (positions_kids t anc ks) -> exists k, In k ks /\ In (t', anc') (positions k (t :: anc)).
Proof.
  induction ks as [|k r IH]; simpl; intro H; [destruct H|].
  apply in_app_or in H as [H|H].
  - exists k. split; [left; reflexivity | exact H].
  - destruct (IH H) as [k0 [A B]]. exists k0. split; [right; exact A | exact B].
Qed.

Lemma positions_occurs_gen ts t : forall anc, occurs ts t anc ->
  forall t' anc', In (t', anc') (positions t anc) -> occurs ts t' anc'.
Proof.
  induction t as [d ks IH] using dtree_ind2. intros anc Hocc t' anc' Hin.
  rewrite positions_eq in Hin. destruct Hin as [Hin|Hin]; [inversion Hin; subst; exact Hocc|].
  apply positions_kids_in in Hin as [k [Hk Hin]]. simpl in Hk.
  rewrite Forall_forall in IH. apply (IH k Hk (DNode d ks :: anc)); [|exact Hin].
  apply occ_kid; [exact Hocc | exact Hk].
Qed.

Lemma positions_all_occurs ts : forall t anc, In (t, anc) (positions_all ts) -> occurs ts t anc.
Proof.
  assert (H : forall sub, (forall x, In x sub -> In x ts) ->
              forall t anc, In (t, anc) (positions_all sub) -> occurs ts t anc).
  { induction sub as [|t0 r IH]; intros Hsub t anc Hin; simpl in Hin; [destruct Hin|].
    apply in_app_or in Hin as [Hin|Hin].
    - apply (positions_occurs_gen ts t0 []); [apply occ_root; apply Hsub; left; reflexivity | exact Hin].
    - apply IH; [intros x Hx; apply Hsub; right; exact Hx | exact Hin]. }
  apply H. auto.
Qed.

(* ------------------------------------------------------------------------------------- *)
(* the fold as a run over the list of positions                                             *)

Section Run.
  Variable body_text : coords -> bytes.
  Variable banned : list kind.

  Notation add_directive := (add_directive body_text banned).
  Notation add_branch := (add_branch body_text banned).
  Notation add_all := (add_all body_text banned).

  Fixpoint run (l : list (dtree * list dtree)) (b : bstate) : cres bstate :=
    match l with
    | [] => COk b
    | p :: r => add_directive (fst p) (snd p) b >>=c run r
    end.

  Lemma run_app l1 l2 b : run (l1 ++ l2) b = run l1 b >>=c run l2.
  Proof.
    revert b. induction l1 as [|p r IH]; intro b; simpl; [reflexivity|].
    destruct (add_directive (fst p) (snd p) b); simpl; try reflexivity. apply IH.
  Qed.

  Lemma add_kids_run t anc ks :
    (forall k, In k ks -> forall a b, add_branch k a b = run (positions k a) b) ->
    forall b, add_kids body_text banned t anc ks b = run (positions_kids t anc ks) b.
  Proof.
    induction ks as [|k r IH]; intros Hk b; simpl; [reflexivity|].
    rewrite run_app, (Hk k (or_introl eq_refl)).
    destruct (run (positions k (t :: anc)) b); simpl; try reflexivity.
    apply IH. intros x Hx. apply Hk. right; exact Hx.
  Qed.

  Lemma add_branch_run t : forall anc b, add_branch t anc b = run (positions t anc) b.
  Proof.
    induction t as [d ks IH] using dtree_ind2. intros anc b.
    rewrite add_branch_eq, positions_eq. simpl.
    destruct (add_directive (DNode d ks) anc b); simpl; try reflexivity.
    apply add_kids_run. rewrite Forall_forall in IH. exact IH.
  Qed.

  Lemma add_all_run ts : forall b, add_all ts b = run (positions_all ts) b.
  Proof.
    induction ts as [|t r IH]; intro b; simpl; [reflexivity|].
    rewrite run_app, add_branch_run. destruct (run (positions t []) b); simpl; try reflexivity. apply IH.
  Qed.

  Lemma add_all_app a b s : add_all (a ++ b) s = add_all a s >>=c add_all b.
  Proof. rewrite !add_all_run, positions_all_app, run_app. destruct (run (positions_all a) s); simpl; try reflexivity. symmetry; apply add_all_run. Qed.
End Run.

(* ------------------------------------------------------------------------------------- *)
(* what a step does to the KEYS of the collections (and to the annotations of interactions)  *)

Definition iannot (x : interaction) : bytes := match x with IHttp h => hi_annot h | IRpc r => ri_annot r end.
Definition aview (m : list (iid * interaction)) : list (iid * bytes) := map (fun e => (fst e, iannot (snd e))) m.

Lemma aview_keys m : map fst (aview m) = map fst m.
Proof. unfold aview. rewrite map_map. reflexivity. Qed.

Lemma aview_update m i g : (forall x, iannot (g x) = iannot x) -> aview (om_update iid_eqb m i g) = aview m.
Proof.
  intro Hg. unfold aview, om_update. rewrite map_map. apply map_ext. intros [j x]. simpl.
  destruct (iid_eqb j i); simpl; [rewrite Hg|]; reflexivity.
Qed.

Record frame (c c' : catalog) : Prop := {
  fr_srv : map fst (c_servers c') = map fst (c_servers c);
  fr_typ : map fst (c_types c') = map fst (c_types c);
  fr_enum : c_enums c' = c_enums c;
  fr_tag : map fst (c_tags c') = map fst (c_tags c);
  fr_int : aview (c_inters c') = aview (c_inters c)
}.

Lemma frame_refl c : frame c c.
Proof. constructor; reflexivity. Qed.

Lemma frame_trans a b c : frame a b -> frame b c -> frame a c.
Proof. intros [A1 A2 A3 A4 A5] [B1 B2 B3 B4 B5]. constructor; congruence. Qed.

Lemma frame_same c c' :
  c_servers c' = c_servers c -> c_types c' = c_types c -> c_enums c' = c_enums c ->
  c_tags c' = c_tags c -> c_inters c' = c_inters c -> frame c c'.
Proof. intros A B C D E. constructor; congruence. Qed.

Lemma frame_upd_http c i f : (forall h, hi_annot (f h) = hi_annot h) -> frame c (upd_http c i f).
Proof.
  intro Hf. constructor; try reflexivity. unfold upd_http. simpl. apply aview_update.
  intros [h|r]; simpl; [apply Hf | reflexivity].
Qed.

Lemma frame_upd_rpc c i f : (forall h, ri_annot (f h) = ri_annot h) -> frame c (upd_rpc c i f).
Proof.
  intro Hf. constructor; try reflexivity. unfold upd_rpc. simpl. apply aview_update.
  intros [h|r]; simpl; [reflexivity | apply Hf].
Qed.

(* close a frame goal whose right side is a tower of upd_http / upd_rpc / with_cat over the left side *)
Ltac frame_tac :=
  rewrite ?b_cat_with_cat;
  repeat first
    [ apply frame_refl
    | apply frame_same; reflexivity
    | eapply frame_trans; [| apply frame_upd_http;
                               let h := fresh "h" in intro h; first [reflexivity | destruct (hi_request h); reflexivity]]
    | eapply frame_trans; [| apply frame_upd_rpc; intro; reflexivity] ].

Definition dk (t : dtree) : kind := d_kind (tree_dir t).

(* what a node contributes to the key lists *)
Definition srv_delta (t : dtree) : list bytes :=
  if kind_eqb (dk t) KServer then [named (tree_dir t) (bs "Name")] else [].
Definition type_delta (t : dtree) : list bytes :=
  if kind_eqb (dk t) KType then [named (tree_dir t) (bs "Name")] else [].
Definition method_kind (t : dtree) : bool := is_http_method (dk t) || kind_eqb (dk t) KMethod.
(* the id of the interaction a GET/POST/../Method node makes *)
Definition inter_delta (t : dtree) (anc : list dtree) : list iid :=
  if is_http_method (dk t) then
    match path_of (tree_dir t) anc with
    | PathOk p => [{| i_proto := PHttp; i_method := method_name (dk t); i_path := p |}]
    | _ => []
    end
  else if kind_eqb (dk t) KMethod then
    match rpc_id (tree_dir t) anc with IdOk i => [i] | IdErr _ => [] end
  else [].
(* the automatic tag name such a node uses (none when a Tags directive decides) *)
Definition auto_use (t : dtree) (anc : list dtree) : list bytes :=
  match used_tags_directive t anc with
  | Some _ => []
  | None => map (fun i => auto_tag_name (i_path i)) (inter_delta t anc)
  end.
Definition add_new (acc : list bytes) (n : bytes) : list bytes :=
  if existsb (beq n) acc then acc else acc ++ [n].

Record kstep (t : dtree) (anc : list dtree) (c c' : catalog) : Prop := {
  ks_srv : map fst (c_servers c') = map fst (c_servers c) ++ srv_delta t;
  ks_typ : map fst (c_types c') = map fst (c_types c) ++ type_delta t;
  ks_enum : c_enums c' = c_enums c;
  ks_tag : map fst (c_tags c') = fold_left add_new (auto_use t anc) (map fst (c_tags c));
  ks_int : aview (c_inters c') = aview (c_inters c) ++ map (fun i => (i, d_annot (tree_dir t))) (inter_delta t anc);
  ks_meth : method_kind t = true -> exists i, inter_delta t anc = [i]
}.

Lemma kstep_of_frame t anc c c' :
  frame c c' -> srv_delta t = [] -> type_delta t = [] -> method_kind t = false -> kstep t anc c c'.
Proof.
  intros [A B C D E] H1 H2 H3.
  assert (H4 : inter_delta t anc = []).
  { unfold inter_delta. unfold method_kind in H3. apply orb_false_iff in H3 as [Ha Hb]. rewrite Ha, Hb. reflexivity. }
  constructor.
  - rewrite H1, app_nil_r. exact A.
  - rewrite H2, app_nil_r. exact B.
  - exact C.
  - unfold auto_use. rewrite H4. destruct (used_tags_directive t anc); exact D.
  - rewrite H4. simpl. rewrite app_nil_r. exact E.
  - intro H; congruence.
Qed.

Lemma existsb_beq_keys {V} (m : list (bytes * V)) n : existsb (beq n) (map fst m) = om_has beq m n.
Proof.
  unfold om_has. induction m as [|e m IH]; simpl; [reflexivity|]. rewrite IH. f_equal.
  destruct (beq n (fst e)) eqn:E1; destruct (beq (fst e) n) eqn:E2; try reflexivity.
  - apply beq_eq in E1. subst. rewrite beq_refl in E2. discriminate.
  - apply beq_eq in E2. subst. rewrite beq_refl in E1. discriminate.
Qed.

(* the keys of the tag collection after tags_for *)
Lemma tags_for_keys me anc i tags ns tg' :
  tags_for me anc i tags = COk (ns, tg') ->
  map fst tg' = match used_tags_directive me anc with
                | Some _ => map fst tags
                | None => add_new (map fst tags) (auto_tag_name (i_path i))
                end.
Proof.
  rewrite tags_for_unfold. destruct (used_tags_directive me anc) as [td|].
  - rewrite tags_from_directive_unfold. destruct (negb (beq (d_annot td) [])); [discriminate|].
    destruct (d_unnamed td) as [|b l]; [discriminate|]. intro H. eapply tags_go_keys; exact H.
  - simpl. intro H. inversion H; subst. rewrite om_update_keys. unfold add_new.
    rewrite existsb_beq_keys. destruct (om_has beq tags (auto_tag_name (i_path i))); [reflexivity|].
    rewrite map_app. reflexivity.
Qed.

(* replace kind tests between constructors by their values *)
Ltac kcompute_in H :=
  repeat match type of H with
         | context [kind_eqb ?a ?b] =>
           let v := eval vm_compute in (kind_eqb a b) in
           lazymatch v with true => idtac | false => idtac end;
           change (kind_eqb a b) with v in H
         | context [is_http_method ?a] =>
           let v := eval vm_compute in (is_http_method a) in
           lazymatch v with true => idtac | false => idtac end;
           change (is_http_method a) with v in H
         end.

Ltac http_case H Hk bb :=
  unfold kerr, cbind in H; walk H; inversion H; subst bb; clear H; rewrite b_cat_with_cat;
  let Hcat := fresh "Hcat" in
  let Hkeys := fresh "Hkeys" in
  let ns := fresh "ns" in
  let tg := fresh "tg" in
  match goal with Hc : check_path _ _ _ = COk ?a |- _ => pose proof (check_path_cat _ _ _ _ Hc) as Hcat end;
  match goal with Ht : tags_for _ _ _ _ = COk ?r |- _ =>
    destruct r as [ns tg]; pose proof (tags_for_keys _ _ _ _ _ _ Ht) as Hkeys end;
  match goal with Hpath : path_of _ _ = PathOk _ |- _ =>
  constructor; simpl; rewrite ?Hcat; unfold srv_delta, type_delta, auto_use, inter_delta, method_kind, dk; rewrite ?Hk;
    try rewrite app_nil_r; try reflexivity;
  [ match goal with |- context [is_http_method ?k] => change (is_http_method k) with true end; cbv iota;
    rewrite Hpath, Hkeys, Hcat; destruct (used_tags_directive _ _); reflexivity
  | match goal with |- context [is_http_method ?k] => change (is_http_method k) with true end; cbv iota;
    rewrite Hpath; unfold aview; rewrite map_app; reflexivity
  | intros _; match goal with |- context [is_http_method ?k] => change (is_http_method k) with true end; cbv iota;
    rewrite Hpath; eexists; reflexivity ]
  end.

Section KeyStep.
  Variable body_text : coords -> bytes.
  Variable banned : list kind.

  Lemma add_request_frame d anc b b' : add_request d anc b = COk b' -> frame (b_cat b) (b_cat b').
  Proof.
    unfold add_request, kerr, get_http. intro H. cbv beta zeta in H.
    destruct (kind_eqb (d_kind d) KRequest); walk H; inversion H; subst b'; clear H; frame_tac.
  Qed.

  Lemma add_response_frame d anc b b' : add_response d anc b = COk b' -> frame (b_cat b) (b_cat b').
  Proof.
    unfold add_response, kerr, get_http. intro H. cbv beta zeta in H. unfold cbind in H.
    walk H; inversion H; subst b'; clear H; frame_tac.
  Qed.

  Lemma key_step t anc b b' :
    add_directive body_text banned t anc b = COk b' -> kstep t anc (b_cat b) (b_cat b').
  Proof.
    intro H. unfold add_directive in H. cbv zeta in H.
    destruct (kind_in (d_kind (tree_dir t)) banned); [discriminate H|].
    destruct (d_kind (tree_dir t)) eqn:Hk; kcompute_in H; cbv beta iota in H.
    all: try (apply kstep_of_frame;
              [ | unfold srv_delta, dk; rewrite Hk; reflexivity | unfold type_delta, dk; rewrite Hk; reflexivity
                | unfold method_kind, dk; rewrite Hk; reflexivity ];
              first [ eapply add_request_frame; eassumption | eapply add_response_frame; eassumption | idtac ];
              unfold kerr, berr, get_http, get_rpc, cbind in H; walk H;
              first [ eapply add_request_frame; eassumption | eapply add_response_frame; eassumption
                    | inversion H; subst b'; clear H;
                      try match goal with Hc : check_path _ _ _ = COk ?a |- _ => simpl; rewrite (check_path_cat _ _ _ _ Hc) end;
                      first [ solve [frame_tac]
                            | rewrite ?b_cat_with_cat; constructor; simpl; rewrite ?om_update_keys; reflexivity ] ]).
    - (* SERVER *)
      unfold kerr in H. walk H. inversion H; subst b'; clear H. rewrite b_cat_with_cat.
      constructor; simpl; unfold srv_delta, type_delta, auto_use, inter_delta, method_kind, dk; rewrite ?Hk;
        try rewrite map_app; try rewrite app_nil_r; try reflexivity.
      + destruct (used_tags_directive t anc); reflexivity.
      + intro E; discriminate E.
    - http_case H Hk b'.
    - http_case H Hk b'.
    - http_case H Hk b'.
    - http_case H Hk b'.
    - http_case H Hk b'.
    - (* TYPE *)
      unfold kerr in H. walk H. inversion H; subst b'; clear H. rewrite b_cat_with_cat.
      constructor; simpl; unfold srv_delta, type_delta, auto_use, inter_delta, method_kind, dk; rewrite ?Hk;
        try rewrite map_app; try rewrite app_nil_r; try reflexivity.
      + destruct (used_tags_directive t anc); reflexivity.
      + intro E; discriminate E.
    - (* Method *)
      unfold kerr, cbind in H. walk H. inversion H; subst b'; clear H. rewrite b_cat_with_cat.
      match goal with Ht : tags_for _ _ _ _ = COk ?r |- _ =>
        destruct r as [ns tg]; pose proof (tags_for_keys _ _ _ _ _ _ Ht) as Hkeys end.
      match goal with Hr : rpc_id _ _ = IdOk _ |- _ => rename Hr into Hrpc end.
      constructor; simpl; unfold srv_delta, type_delta, auto_use, inter_delta, method_kind, dk; rewrite ?Hk;
        try rewrite app_nil_r; try reflexivity.
      + change (is_http_method KMethod) with false. change (kind_eqb KMethod KMethod) with true. cbv iota.
        rewrite Hrpc, Hkeys. destruct (used_tags_directive t (d :: l)); reflexivity.
      + change (is_http_method KMethod) with false. change (kind_eqb KMethod KMethod) with true. cbv iota.
        rewrite Hrpc. unfold aview. rewrite map_app. reflexivity.
      + intros _. change (is_http_method KMethod) with false. change (kind_eqb KMethod KMethod) with true. cbv iota.
        rewrite Hrpc. eexists; reflexivity.
  Qed.
End KeyStep.
(* ------------------------------------------------------------------------------------- *)
(* the key lists of the catalog, traced through the run                                     *)

Definition server_names (l : list (dtree * list dtree)) : list bytes := flat_map (fun p => srv_delta (fst p)) l.
Definition type_names (l : list (dtree * list dtree)) : list bytes := flat_map (fun p => type_delta (fst p)) l.
Definition auto_uses (l : list (dtree * list dtree)) : list bytes := flat_map (fun p => auto_use (fst p) (snd p)) l.
Definition method_ids (l : list (dtree * list dtree)) : list iid := flat_map (fun p => inter_delta (fst p) (snd p)) l.
Definition method_annots (l : list (dtree * list dtree)) : list (iid * bytes) :=
  flat_map (fun p => map (fun i => (i, d_annot (tree_dir (fst p)))) (inter_delta (fst p) (snd p))) l.

Lemma method_annots_ids l : map fst (method_annots l) = method_ids l.
Proof.
  unfold method_annots, method_ids. induction l as [|p r IH]; simpl; [reflexivity|].
  rewrite map_app, IH, map_map. simpl. rewrite map_id. reflexivity.
Qed.

Section RunKeys.
  Variable body_text : coords -> bytes.
  Variable banned : list kind.

  Lemma run_keys l : forall b b', run body_text banned l b = COk b' ->
    map fst (c_servers (b_cat b')) = map fst (c_servers (b_cat b)) ++ server_names l /\
    map fst (c_types (b_cat b')) = map fst (c_types (b_cat b)) ++ type_names l /\
    c_enums (b_cat b') = c_enums (b_cat b) /\
    map fst (c_tags (b_cat b')) = fold_left add_new (auto_uses l) (map fst (c_tags (b_cat b))) /\
    aview (c_inters (b_cat b')) = aview (c_inters (b_cat b)) ++ method_annots l.
  Proof.
    induction l as [|p r IH]; intros b b' H; simpl in H.
    - inversion H; subst. unfold server_names, type_names, auto_uses, method_annots. simpl.
      rewrite !app_nil_r. repeat split; reflexivity.
    - destruct (add_directive body_text banned (fst p) (snd p) b) as [b1| | |] eqn:E; simpl in H; try discriminate H.
      apply key_step in E. destruct E as [A B C D F _].
      destruct (IH _ _ H) as [A' [B' [C' [D' F']]]].
      unfold server_names, type_names, auto_uses, method_annots in *. simpl.
      rewrite A', A, B', B, C', C, D', D, F', F, fold_left_app, <- !app_assoc. repeat split; reflexivity.
  Qed.
End RunKeys.

(* the collections the fold starts from *)
Definition enum_node (t : dtree) : bool :=
  kind_eqb (dk t) KEnum && match d_body (tree_dir t) with Some _ => true | None => false end.
Definition enum_entry (t : dtree) : bytes * bytes := (named (tree_dir t) (bs "Name"), d_annot (tree_dir t)).
Definition tag_node (t : dtree) : bool := kind_eqb (dk t) KTAG.
Definition tag_entry (t : dtree) : bytes * tag :=
  let d := tree_dir t in
  let n := named d (bs "TagName") in
  (n, {| t_title := (if beq (d_annot d) [] then n else d_annot d); t_desc := None; t_http := []; t_rpc := []; t_auto := false |}).

Lemma collect_enums_exact : forall ts acc en, collect_enums ts acc = COk en ->
  en = acc ++ map enum_entry (filter enum_node ts).
Proof.
  induction ts as [|t r IH]; intros acc en H; cbn [collect_enums] in H; unfold kerr in H.
  - inversion H; subst. simpl. rewrite app_nil_r. reflexivity.
  - simpl. unfold enum_node at 1, dk.
    destruct (kind_eqb (d_kind (tree_dir t)) KEnum); simpl; [|exact (IH _ _ H)].
    destruct (beq (named (tree_dir t) (bs "Name")) []); [discriminate H|].
    destruct (d_body (tree_dir t)); [|exact (IH _ _ H)].
    destruct (om_has beq acc (named (tree_dir t) (bs "Name"))); [discriminate H|].
    apply IH in H. rewrite H, <- app_assoc. reflexivity.
Qed.

Lemma collect_tags_exact : forall ts acc tg, collect_tags ts acc = COk tg ->
  tg = acc ++ map tag_entry (filter tag_node ts).
Proof.
  induction ts as [|t r IH]; intros acc tg H; cbn [collect_tags] in H; unfold kerr in H.
  - inversion H; subst. simpl. rewrite app_nil_r. reflexivity.
  - simpl. unfold tag_node at 1, dk.
    destruct (kind_eqb (d_kind (tree_dir t)) KTAG); simpl; [|exact (IH _ _ H)].
    destruct (beq (named (tree_dir t) (bs "TagName")) []); [discriminate H|].
    destruct (om_has beq acc (named (tree_dir t) (bs "TagName"))); [discriminate H|].
    apply IH in H. rewrite H, <- app_assoc. reflexivity.
Qed.

Lemma aview_set_pathvars c all : aview (c_inters (set_pathvars c all)) = aview (c_inters c).
Proof.
  unfold set_pathvars, aview. simpl. rewrite map_map. apply map_ext. intros [j [h|r]]; reflexivity.
Qed.

Lemma inter_delta_made_by t anc i : inter_delta t anc = [i] -> made_by t anc i.
Proof.
  unfold inter_delta, made_by, dk.
  destruct (is_http_method (d_kind (tree_dir t))) eqn:Eh.
  - destruct (path_of (tree_dir t) anc) eqn:Ep; try discriminate. intro H. inversion H; subst i. simpl.
    repeat split; auto.
  - destruct (kind_eqb (d_kind (tree_dir t)) KMethod) eqn:Ek; [|discriminate].
    destruct (rpc_id (tree_dir t) anc) eqn:Er; [|discriminate]. intro H. inversion H; subst i0.
    destruct (rpc_id_proto _ _ _ Er) as [Hp _]. rewrite Hp. split; [apply kind_eqb_eq; exact Ek | reflexivity].
Qed.

Section Faithful.
  Variable path_props : coords -> option (list bytes).
  Variable body_text : coords -> bytes.
  Variable banned : list kind.
  Variable post : list dtree.
  Variable c : catalog.
  Hypothesis Hbuild : build path_props body_text banned post = COk c.

  (* the catalog is the state after the run over all positions, with the path variables filled in *)
  Lemma build_run :
    exists en tg b all,
      collect_enums post [] = COk en /\ collect_tags post [] = COk tg /\
      run body_text banned (positions_all post) (init_state en tg) = COk b /\
      c = set_pathvars (b_cat b) all.
  Proof.
    destruct (build_stages _ _ _ _ _ Hbuild) as [en [tg [He [Ht Hcase]]]].
    destruct Hcase as [[Hnil V]|[b [all [Hadd V]]]].
    - exists en, tg, (init_state en tg), []. subst post. simpl.
      apply validate_ok in V as [-> _]. repeat split; auto.
    - exists en, tg, b, all. rewrite <- add_all_run. apply validate_ok in V as [-> _]. repeat split; auto.
  Qed.

  Lemma catalog_keys_lemma :
    map fst (c_servers c) = server_names (positions_all post) /\
    map fst (c_types c) = type_names (positions_all post) /\
    c_enums c = map enum_entry (filter enum_node post) /\
    map fst (c_tags c) =
      fold_left add_new (auto_uses (positions_all post)) (map fst (map tag_entry (filter tag_node post))) /\
    map fst (c_inters c) = method_ids (positions_all post) /\
    aview (c_inters c) = method_annots (positions_all post).
  Proof.
    destruct build_run as [en [tg [b [all [He [Ht [Hrun Hc]]]]]]].
    apply collect_enums_exact in He. apply collect_tags_exact in Ht. simpl in He, Ht.
    destruct (run_keys _ _ _ _ _ Hrun) as [A [B [C [D F]]]]. simpl in A, B, C, D, F.
    subst c.
    assert (K : map fst (c_inters (set_pathvars (b_cat b) all)) = map fst (c_inters (b_cat b))).
    { rewrite <- !aview_keys, aview_set_pathvars. reflexivity. }
    rewrite K, aview_set_pathvars, <- (aview_keys (c_inters (b_cat b))), F, method_annots_ids.
    change (c_servers (set_pathvars (b_cat b) all)) with (c_servers (b_cat b)).
    change (c_types (set_pathvars (b_cat b) all)) with (c_types (b_cat b)).
    change (c_enums (set_pathvars (b_cat b) all)) with (c_enums (b_cat b)).
    change (c_tags (set_pathvars (b_cat b) all)) with (c_tags (b_cat b)).
    repeat split; try assumption; congruence.
  Qed.

  (* no method directive is skipped: each makes exactly one id *)
  Lemma every_method_makes_an_interaction_lemma : forall t anc,
    In (t, anc) (positions_all post) -> method_kind t = true ->
    exists i, inter_delta t anc = [i] /\ made_by t anc i /\ In i (map fst (c_inters c)).
  Proof.
    intros t anc Hin Hm.
    destruct (build_visits _ _ _ _ _ t anc Hbuild (positions_all_occurs _ _ _ Hin)) as [s [s' [_ Hstep]]].
    apply key_step in Hstep. destruct (ks_meth _ _ _ _ Hstep Hm) as [i Hi].
    exists i. split; [exact Hi|]. split; [apply inter_delta_made_by; exact Hi|].
    destruct catalog_keys_lemma as [_ [_ [_ [_ [K _]]]]]. rewrite K. unfold method_ids.
    apply in_flat_map. exists (t, anc). split; [exact Hin|]. simpl. rewrite Hi. left; reflexivity.
  Qed.
End Faithful.

