(* Table metatheory, part 7: what the keyword states spell, lifted to the semantics, for ANY table, typing, spelling
   typing and keyword predicate that pass table_ok and spell_ok (KeywordCheck): every Keyword lexeme handed out by the
   scan has bytes accepted by the keyword predicate. *)
From Coq Require Import List NArith ZArith Bool String Lia.
From JV.lib Require Import Bytes.
From JV.gen Require Import ScannerTable.
From JV.model Require Import ScannerSem TableCheck KeywordCheck.
From JV.proofs Require Import TM_Basics TM_Stack TM_Events TM_Dispatch TM_Loop ScanTheorems TM_Trivia.
Import ListNotations.
Open Scope N_scope.

Arguments evt_in : simpl never.
Arguments pair_ok : simpl never.

Lemma in_set_In l c : in_set l c = true -> In c l.
Proof.
  unfold in_set. rewrite existsb_exists. intros (x & Hx & E). apply N.eqb_eq in E. subst. exact Hx.
Qed.

Lemma skipn_cons (l : list N) : forall n, (n < List.length l)%nat -> skipn n l = nth n l 0 :: skipn (S n) l.
Proof.
  induction l as [|x l IH]; intros n H; [simpl in H; lia|].
  destruct n as [|n]; [reflexivity|]. simpl in H. cbn [skipn nth]. apply IH. lia.
Qed.

Lemma slice_in_product (data : bytes) : forall (W : spelling) (q : nat),
  (q + List.length W <= List.length data)%nat ->
  (forall i, (i < List.length W)%nat -> in_set (nth i W []) (nth (q + i) data 0) = true) ->
  In (firstn (List.length W) (skipn q data)) (product W).
Proof.
  induction W as [|B r IH]; intros q Hq H.
  - simpl. left. reflexivity.
  - cbn [List.length] in *. rewrite skipn_cons by lia. cbn [firstn product].
    apply in_flat_map. exists (nth q data 0). split.
    + apply in_set_In. specialize (H 0%nat ltac:(lia)). rewrite Nat.add_0_r in H. exact H.
    + apply in_map. apply IH; [lia|]. intros i Hi. specialize (H (S i) ltac:(lia)).
      replace (S q + i)%nat with (q + S i)%nat by lia. exact H.
Qed.

Lemma covers_sound : forall W' W, covers W' W = true ->
  List.length W' = List.length W /\ forall i x, in_set (nth i W []) x = true -> in_set (nth i W' []) x = true.
Proof.
  induction W' as [|B' r' IH]; intros [|B r] H; simpl in H; try discriminate.
  - split; [reflexivity|]. intros i x Hx. destruct i; exact Hx.
  - apply andb_true_iff in H as [H1 H2]. destruct (IH r H2) as [L P]. split; [simpl; lia|].
    intros [|i] x Hx; simpl in *.
    + rewrite forallb_forall in H1. apply H1. apply in_set_In. exact Hx.
    + apply P. exact Hx.
Qed.

Lemma pair_ok_kw e : pair_ok KeywordBegin e = true -> e = KeywordEnd.
Proof. destruct e; vm_compute; intros H; try discriminate; reflexivity. Qed.

Section Keyword.
  Variable ty : typing.
  Hypothesis Hok : table_ok ty = true.
  Variable spell : state -> option spelling.
  Variable kw_ok : bytes -> bool.
  Hypothesis Hsp : spell_ok ty spell kw_ok = true.
  Variable jsc_len enum_len : bytes -> len_result.
  Hypothesis jsc_sane : len_sane jsc_len.
  Hypothesis enum_sane : len_sane enum_len.
  Variable data : bytes.
  Variable size : N.
  Hypothesis Hsize : size = N.of_nat (List.length data).

  Notation byte_at := (byte_at data).
  Notation ZD := (ZD data).

  (* Lexeme.Value() *)
  Definition slice (a b : N) : bytes := firstn (N.to_nat (b + 1 - a)) (skipn (N.to_nat a) data).
  Definition Good (a b : N) : Prop := kw_ok (slice a b) = true.

  (* the bytes from q on are in the byte sets of W, position by position *)
  Definition matches (q : N) (W : spelling) : Prop :=
    forall i, (i < List.length W)%nat -> in_set (nth i W []) (byte_at (q + N.of_nat i)) = true.

  Lemma good_from_matches q W :
    matches q W -> (0 < List.length W)%nat -> q + N.of_nat (List.length W) <= size ->
    lang_ok kw_ok W = true -> Good q (q + N.of_nat (List.length W) - 1).
  Proof.
    intros Hm Hpos Hle Hl. unfold Good, slice.
    replace (N.to_nat (q + N.of_nat (List.length W) - 1 + 1 - q)) with (List.length W) by lia.
    unfold lang_ok in Hl. rewrite forallb_forall in Hl. apply Hl.
    apply slice_in_product; [lia|].
    intros i Hi. specialize (Hm i Hi). unfold TM_Trivia.byte_at in Hm.
    replace (N.to_nat (q + N.of_nat i)) with (N.to_nat q + i)%nat in Hm by lia. exact Hm.
  Qed.

  Lemma matches_snoc q w c :
    matches q w -> byte_at (q + N.of_nat (List.length w)) = c -> matches q (w ++ [[c]]).
  Proof.
    intros Hm Hc i Hi. rewrite app_length in Hi. simpl in Hi.
    destruct (Nat.lt_ge_cases i (List.length w)) as [H|H].
    - rewrite app_nth1 by exact H. apply Hm. exact H.
    - assert (i = List.length w) by lia. subst i. rewrite app_nth2 by lia. rewrite Nat.sub_diag. simpl.
      rewrite Hc. unfold in_set. simpl. rewrite N.eqb_refl. reflexivity.
  Qed.

  Lemma matches_covers q W W' : matches q W -> covers W' W = true -> matches q W'.
  Proof.
    intros Hm Hc. destruct (covers_sound _ _ Hc) as [L P]. intros i Hi. apply P. apply Hm. lia.
  Qed.

  (* ---- the keyword lexemes the pending events will produce ---- *)
  Definition ev_kw (s : ostate * N) (ev : evt * N) : list (N * N) :=
    if evt_eqb (fst ev) KeywordEnd then match fst s with Some (_, qb) => [(qb, snd ev)] | None => [] end else [].

  Fixpoint ev_kws (s : ostate * N) (evs : list (evt * N)) : list (N * N) :=
    match evs with
    | [] => []
    | ev :: r => match ev_step size s ev with Some s' => ev_kw s ev ++ ev_kws s' r | None => [] end
    end.

  Lemma ev_kws_app s a b s1 :
    ev_run size s a = Some s1 -> ev_kws s (a ++ b) = ev_kws s a ++ ev_kws s1 b.
  Proof.
    revert s. induction a as [|x a IH]; intros s H; simpl in *.
    - injection H as <-. reflexivity.
    - destruct (ev_step size s x) as [s'|]; [|discriminate]. rewrite (IH _ H), app_assoc. reflexivity.
  Qed.

  Definition KG (s : ostate * N) (fs : list (evt * N)) : Prop :=
    forall ab, In ab (ev_kws s fs) -> Good (fst ab) (snd ab).

  (* the invariant of the keyword states: the lexeme that is open (or whose Begin is pending) is a Keyword and the data
     bytes from its beginning to the read position are those the state has spelled *)
  Definition KI (s : ostate * N) (g : cfg) : Prop :=
    forall w, spell (reg g) = Some w ->
      exists q F, ev_run size s (finds g) = Some (Some (KeywordBegin, q), F) /\
                  q + N.of_nat (List.length w) = pos g /\ matches q w.

  (* concretisation of the abstract leaf state of KeywordCheck.sp_acts *)
  Definition RK (p0 : N) (s00 : ostate * N) (a : option spelling * bool) (g : cfg) : Prop :=
    (forall w, fst a = Some w ->
       exists q F, ev_run size s00 (finds g) = Some (Some (KeywordBegin, q), F) /\
                   q + N.of_nat (List.length w) = p0 /\ matches q w) /\
    (snd a = false -> pos g = p0) /\
    (fst a <> None -> snd a = false) /\
    KG s00 (finds g).

  Lemma sp_acts_sound c p0 s00 :
    byte_at p0 = c ->
    forall l g g' a a',
      exec_acts jsc_len enum_len l g = Ok g' ->
      sp_acts kw_ok c a l = Some a' ->
      (exists s1, ev_run size s00 (finds g') = Some s1) ->
      RK p0 s00 a g -> RK p0 s00 a' g'.
  Proof.
    intros Hc. induction l as [|y l IH]; intros g g' a a' He Hs HE HR; cbn [exec_acts] in He.
    - injection He as <-. cbn in Hs. injection Hs as <-. exact HR.
    - destruct (exec_act jsc_len enum_len y g) as [g1| | |] eqn:Ey; cbn [obind] in He; try discriminate.
      destruct (exec_acts_finds _ _ _ _ _ He) as [suf Hsuf].
      assert (HE1 : exists s1, ev_run size s00 (finds g1) = Some s1).
      { destruct HE as [s2 HE]. rewrite Hsuf in HE. eapply ev_run_prefix; exact HE. }
      (* actions that do not emit an event and do not move *)
      assert (Hquiet : finds g1 = finds g -> pos g1 = pos g -> sp_acts kw_ok c a l = Some a' -> RK p0 s00 a' g').
      { intros Hf Hp Hs'. apply (IH g1 g' a a' He Hs' HE).
        destruct HR as (R1 & R2 & R3 & R4). unfold RK. rewrite Hf, Hp. repeat split; assumption. }
      (* actions that move the read position *)
      assert (Hmove : finds g1 = finds g ->
                match fst a with None => sp_acts kw_ok c (None, true) l | Some _ => None end = Some a' -> RK p0 s00 a' g').
      { intros Hf Hs'. destruct (fst a) eqn:Ea; [discriminate|].
        apply (IH g1 g' (None, true) a' He Hs' HE).
        destruct HR as (R1 & R2 & R3 & R4). unfold RK. rewrite Hf. cbn [fst snd].
        split; [intros; discriminate|]. split; [intros; discriminate|]. split; [intros H; contradiction | exact R4]. }
      destruct y; cbn [sp_acts] in Hs; cbn [exec_act] in Ey.
      + (* AFound *)
        destruct (pos g <? back) eqn:Eb; [discriminate|]. apply N.ltb_ge in Eb. injection Ey as <-.
        cbn [finds set_finds] in HE1. destruct HE1 as [s1 HE1].
        destruct (ev_run_prefix _ _ _ _ _ HE1) as [sA HA].
        rewrite ev_run_app, HA in HE1. cbn [ev_run] in HE1.
        destruct (ev_step size sA (e, pos g - back)) as [s2|] eqn:Est; [|discriminate]. injection HE1 as <-.
        assert (Hkws : ev_kws s00 (finds g ++ [(e, pos g - back)]) = ev_kws s00 (finds g) ++ ev_kw sA (e, pos g - back)).
        { rewrite (ev_kws_app _ _ _ _ HA). simpl. rewrite Est, app_nil_r. reflexivity. }
        destruct HR as (R1 & R2 & R3 & R4).
        destruct (evt_eqb e KeywordBegin) eqn:EB.
        { (* a keyword begins *)
          apply evt_eqb_eq in EB. subst e.
          destruct (fst a) eqn:Ea; [discriminate|].
          destruct ((back =? 0) && negb (snd a)) eqn:Ec; [|discriminate].
          apply andb_true_iff in Ec as [E0 Em]. apply N.eqb_eq in E0. apply negb_true_iff in Em. subst back.
          specialize (R2 Em). rewrite N.sub_0_r in *. rewrite R2 in *.
          apply (IH _ g' _ a' He Hs HE). unfold RK. cbn [fst snd finds set_finds].
          split.
          - intros w Hw. injection Hw as <-.
            destruct sA as [oA FA]. unfold ev_step in Est.
            replace (evt_in KeywordBegin evt_beginning) with true in Est by reflexivity.
            destruct oA; [discriminate|]. destruct ((FA <=? p0) && (p0 <=? size)) eqn:E; [|discriminate]. injection Est as <-.
            exists p0, p0. rewrite ev_run_app, HA. cbn [ev_run]. unfold ev_step.
            replace (evt_in KeywordBegin evt_beginning) with true by reflexivity. rewrite E.
            split; [reflexivity|]. split; [simpl; lia | intros i Hi; simpl in Hi; lia].
          - split; [intros _; exact R2|]. split; [intros _; exact Em|].
            intros ab Hin. rewrite Hkws in Hin. apply in_app_or in Hin. destruct Hin as [Hin|Hin]; [apply R4; exact Hin|].
            unfold ev_kw in Hin. cbn [fst] in Hin. replace (evt_eqb KeywordBegin KeywordEnd) with false in Hin by reflexivity.
            destruct Hin. }
        destruct (evt_eqb e KeywordEnd) eqn:EE.
        { (* the keyword ends on the current byte *)
          apply evt_eqb_eq in EE. subst e.
          destruct (fst a) as [w|] eqn:Ea; [|discriminate].
          destruct ((back =? 0) && negb (snd a) && lang_ok kw_ok (w ++ [[c]])) eqn:Ec; [|discriminate].
          apply andb_true_iff in Ec as [Ec El]. apply andb_true_iff in Ec as [E0 Em].
          apply N.eqb_eq in E0. apply negb_true_iff in Em. subst back.
          specialize (R2 Em). rewrite N.sub_0_r in *. rewrite R2 in *.
          destruct (R1 w eq_refl) as (q & F & Q1 & Q2 & Q3).
          rewrite Q1 in HA. injection HA as <-.
          unfold ev_step in Est.
          replace (evt_in KeywordEnd evt_beginning) with false in Est by reflexivity.
          replace (evt_in KeywordEnd evt_ending) with true in Est by reflexivity.
          destruct (pair_ok KeywordBegin KeywordEnd && (F <=? p0 + 1) && (p0 + 1 <=? size)) eqn:E; [|discriminate].
          apply andb_true_iff in E as [_ E3]. apply N.leb_le in E3.
          apply (IH _ g' _ a' He Hs HE). unfold RK. cbn [fst snd finds set_finds].
          split; [intros; discriminate|]. split; [intros _; exact R2|]. split; [intros H; contradiction|].
          intros ab Hin. rewrite Hkws in Hin. apply in_app_or in Hin. destruct Hin as [Hin|Hin]; [apply R4; exact Hin|].
          unfold ev_kw in Hin. cbn [fst snd] in Hin. replace (evt_eqb KeywordEnd KeywordEnd) with true in Hin by reflexivity.
          destruct Hin as [<-|[]]. cbn [fst snd].
          assert (Hm : matches q (w ++ [[c]])) by (apply matches_snoc; [exact Q3 | rewrite Q2; exact Hc]).
          pose proof (good_from_matches q (w ++ [[c]]) Hm) as Hg.
          rewrite app_length in Hg. cbn [List.length] in Hg.
          replace (q + N.of_nat (List.length w + 1) - 1) with p0 in Hg by lia.
          apply Hg; [lia | lia | exact El]. }
        (* any other event *)
        destruct (fst a) as [w|] eqn:Ea.
        { exfalso. destruct (R1 w eq_refl) as (q & F & Q1 & _). rewrite Q1 in HA. injection HA as <-.
          unfold ev_step in Est.
          destruct (evt_in e evt_beginning); [discriminate|].
          destruct (evt_in e evt_ending).
          { destruct (pair_ok KeywordBegin e) eqn:Ep; [|discriminate].
            apply pair_ok_kw in Ep. subst e. discriminate. }
          destruct (evt_in e evt_single); discriminate. }
        apply (IH _ g' _ a' He Hs HE). unfold RK. cbn [finds set_finds pos]. rewrite Ea.
        split; [intros; discriminate|]. split; [exact R2|]. split; [intros H; contradiction|].
        intros ab Hin. rewrite Hkws in Hin. apply in_app_or in Hin. destruct Hin as [Hin|Hin]; [apply R4; exact Hin|].
        unfold ev_kw in Hin. cbn [fst] in Hin. rewrite EE in Hin. destruct Hin.
      + injection Ey as <-. apply Hquiet; auto.
      + injection Ey as <-. apply Hquiet; auto.
      + injection Ey as <-. apply Hquiet; auto.
      + destruct (sstk g); [discriminate|]. injection Ey as <-. apply Hquiet; auto.
      + destruct (pos g <? n); [discriminate|]. injection Ey as <-. apply Hmove; auto.
      + unfold read_body in Ey. destruct (jsc_len (rest g)); [|discriminate]. injection Ey as <-.
        apply Hmove; auto. destruct (0 <? n); reflexivity.
      + unfold read_body in Ey. destruct (enum_len (rest g)); [|discriminate]. injection Ey as <-.
        apply Hmove; auto. destruct (0 <? n); reflexivity.
  Qed.
  Lemma spell_leaf st c lf :
    c < 256 -> In lf (leaves_for (step_tree st) c) -> leaf_spell_ok ty spell kw_ok st c lf = true.
  Proof.
    intros Hc Hin. unfold spell_ok in Hsp. apply andb_true_iff in Hsp as [_ H]. rewrite forallb_forall in H.
    specialize (H st (all_states_complete st)). rewrite forallb_forall in H.
    specialize (H c (all_byte_values_complete c Hc)). rewrite forallb_forall in H. apply H. exact Hin.
  Qed.

  (* a whole dispatch *)
  Lemma kw_dispatch c s00 p0 :
    c < 256 -> (c = 0 -> p0 = size) -> (c <> 0 -> p0 < size) -> byte_at p0 = c ->
    forall fuel g g',
      pos g = p0 -> InvTy ty size s00 g -> KI s00 g -> KG s00 (finds g) ->
      dispatch jsc_len enum_len data size fuel c g = Ok g' ->
      KI s00 (advance g' 1) /\ KG s00 (finds g').
  Proof.
    intros Hc Hc0 Hc1 Hbyte. induction fuel as [|fuel IH]; intros g g' Hpos HI HK HG Hd; [discriminate|].
    cbn [dispatch] in Hd.
    destruct (eval_tree data size (step_tree (reg g)) c g) as [ax| | |] eqn:Eax; cbn [obind] in Hd; try discriminate.
    destruct ax as [acts x]. cbn [fst snd] in Hd.
    destruct (exec_acts jsc_len enum_len acts g) as [g1| | |] eqn:Eex; cbn [obind] in Hd; try discriminate.
    pose proof (eval_tree_leaf data size _ _ _ _ Eax) as Hin.
    assert (Hc0' : c = 0 -> pos g = size) by (rewrite Hpos; exact Hc0).
    assert (Hc1' : c <> 0 -> pos g < size) by (rewrite Hpos; exact Hc1).
    pose proof (leaf_sound ty Hok jsc_len enum_len jsc_sane enum_sane size c s00 g acts x Hc Hc0' Hc1' HI Hin) as Hl.
    rewrite Eex in Hl. destruct Hl as (_ & HEv & _ & _ & _ & Hx).
    pose proof (spell_leaf (reg g) c _ Hc Hin) as Hls. unfold leaf_spell_ok in Hls. cbn [fst snd] in Hls.
    destruct (sp_acts kw_ok c (spell (reg g), false) acts) as [a'|] eqn:Esa; [|discriminate].
    assert (HR0 : RK p0 s00 (spell (reg g), false) g).
    { unfold RK. cbn [fst snd]. split; [intros w Hw; rewrite <- Hpos; apply HK; exact Hw|].
      split; [intros _; exact Hpos|]. split; [intros _; reflexivity | exact HG]. }
    pose proof (sp_acts_sound c p0 s00 Hbyte acts g g1 _ a' Eex Esa HEv HR0) as (R1 & R2 & R3 & R4).
    (* the stack pass, for the targets *)
    pose proof (ok_leaf ty Hok (reg g) c (acts, x) Hc Hin) as Hlk.
    destruct HI as (Hv & HE & HZ & HL).
    unfold leaf_ok in Hlk. cbn [fst snd] in Hlk.
    destruct (sfold ty (reg g) (reg g, SE_none) acts) as [sa|] eqn:Esf; [|discriminate].
    destruct (efold c (ast0 ty (reg g)) acts) as [ea|] eqn:Eef; [|discriminate].
    assert (HS0 : RS ty (reg g) (sstk g) (reg g, SE_none) g) by (split; reflexivity).
    pose proof (fold_sound ty jsc_len enum_len jsc_sane enum_sane size c (pos g) s00 (reg g) (sstk g) Hc0' Hc1' Hv acts _ _ g sa ea HS0 HE HZ Esf Eef) as Hf.
    rewrite Eex in Hf. destruct Hf as (HS' & _).
    pose proof (targets_sound ty (reg g) (sstk g) sa g1 HS' Hv) as Htin.
    destruct x as [| |e].
    - injection Hd as <-. rewrite forallb_forall in Hls. specialize (Hls _ Htin). unfold target_spell_ok in Hls.
      split; [|exact R4].
      intros w' Hw'. unfold advance in *. cbn [reg finds pos set_zip] in *.
      destruct (fst a') as [w|] eqn:Ea.
      + rewrite Hw' in Hls.
        destruct (R1 w eq_refl) as (q & F & Q1 & Q2 & Q3).
        assert (Hm : snd a' = false) by (apply R3; discriminate). specialize (R2 Hm).
        destruct (covers_sound _ _ Hls) as [L _]. rewrite app_length in L. cbn [List.length] in L.
        exists q, F. split; [exact Q1|]. split; [lia|].
        eapply matches_covers; [|exact Hls]. apply matches_snoc; [exact Q3 | rewrite Q2; exact Hbyte].
      + rewrite Hw' in Hls. discriminate.
    - destruct Hx as (HI1 & Hp1 & _).
      rewrite forallb_forall in Hls. specialize (Hls _ Htin). unfold target_spell_ok in Hls.
      destruct (fst a') as [w|] eqn:Ea; [discriminate|].
      apply (IH g1 g'); try assumption; [rewrite Hp1; exact Hpos|].
      intros w Hw. rewrite Hw in Hls. discriminate.
    - discriminate.
  Qed.

  (* ---- the driver: the same induction as TM_Loop, with the keyword invariant added ---- *)
  Notation GI := (GI ty size).
  Notation MM := (MM ty size).

  Definition KwL (l : lexeme) : Prop := lk l = LKeyword -> Good (lb l) (le l).

  Definition KX (s : ostate * N) (g : cfg) : Prop :=
    GI s g /\ AllB g /\ (pos g <= size -> ZD g) /\ (pos g <= size -> KI s g) /\ KG s (finds g).

  Lemma process_event_kw s ev s1 g g1 l :
    estk_rel s g -> ev_step size s ev = Some s1 -> process_event ev g = Ok (g1, Some l) ->
    lk l = LKeyword -> ev_kw s ev = [(lb l, le l)].
  Proof.
    destruct s as [o F], ev as [e q]. unfold estk_rel, ev_step, process_event, ev_kw. cbn [fst snd].
    intros Hrel Hst Hpe Hk.
    destruct (evt_in e evt_beginning) eqn:K1; [discriminate|].
    destruct (evt_in e evt_ending) eqn:K2.
    { destruct o as [[b qb]|]; [|discriminate]. rewrite Hrel in Hpe.
      destruct (pair_ok b e); [|discriminate].
      destruct (evt_lexkind e) as [k|] eqn:Ek; [|discriminate]. injection Hpe as _ <-. cbn in Hk. subst k.
      destruct e; try discriminate; try (vm_compute in K2; discriminate). reflexivity. }
    destruct (evt_in e evt_single) eqn:K3; [|discriminate].
    destruct (evt_lexkind e) as [k|] eqn:Ek; [|discriminate]. injection Hpe as _ <-. cbn in Hk. subst k.
    destruct e; try discriminate; vm_compute in K3; discriminate.
  Qed.

  Lemma event_step_k s g ev fs :
    KX s g -> finds g = ev :: fs ->
    exists s1 g1 ol, process_event ev (set_finds g fs) = Ok (g1, ol) /\
      KX s1 g1 /\ pos g1 = pos g /\ reg g1 = reg g /\ finds g1 = fs /\ (MM g1 + 1 <= MM g)%Z /\
      match ol with Some l => lex_inb size l /\ KwL l | None => True end.
  Proof.
    intros (HG & HA & HZ & HK & HKG) Ef.
    destruct HG as (Hrel & Hos & Hsz & [sEnd Hrun] & HL & HTy).
    rewrite Ef in Hrun. simpl in Hrun.
    destruct (ev_step size s ev) as [s1|] eqn:Est; [|discriminate].
    destruct (ev_step_props size _ _ _ Est) as (Hos1 & Hm1 & Hsz1).
    assert (Hrel' : estk_rel s (set_finds g fs)) by exact Hrel.
    destruct (process_event_sound ty Hok size s ev s1 (set_finds g fs) Hrel' Hos Est) as (g1 & ol & Hpe & Hshape & Hrel1 & Hol).
    exists s1, g1, ol. split; [exact Hpe|].
    assert (HT1 : pos g <= size -> InvTy ty size s1 (set_finds g fs)).
    { intros H. eapply invty_shift; [exact Ef | exact Est | exact (HTy H)]. }
    assert (Hsame : pos g1 = pos g /\ reg g1 = reg g /\ finds g1 = fs /\ lastp g1 = lastp g /\ pre g1 = pre g /\ rest g1 = rest g).
    { destruct Hshape as [->|[e' ->]]; repeat split. }
    destruct Hsame as (Hp1 & Hr1 & Hf1 & Hl1 & Hpre1 & Hrest1).
    assert (HG1 : TM_Loop.GI ty size s1 g1).
    { destruct Hshape as [->|[e' ->]].
      - split; [exact Hrel1|]. split; [exact Hos1|]. split; [exact Hsz1|].
        split; [eexists; exact Hrun|]. split; [exact HL|]. exact HT1.
      - split; [exact Hrel1|]. split; [exact Hos1|]. split; [exact Hsz1|].
        split; [eexists; exact Hrun|]. split; [exact HL|]. exact HT1. }
    assert (HA1 : AllB g1) by (unfold AllB; rewrite Hpre1, Hrest1; exact HA).
    assert (Hkws : ev_kws s (finds g) = ev_kw s ev ++ ev_kws s1 fs) by (rewrite Ef; simpl; rewrite Est; reflexivity).
    split.
    - split; [exact HG1|]. split; [exact HA1|]. split; [|split].
      + intros H. rewrite Hp1 in H. specialize (HZ H). unfold TM_Trivia.ZD. rewrite Hpre1, Hrest1, Hp1. exact HZ.
      + intros H. rewrite Hp1 in H. specialize (HK H). unfold KI. rewrite Hr1, Hf1, Hp1.
        intros w Hw. destruct (HK w Hw) as (q & F & Q1 & Q2). rewrite Ef in Q1. simpl in Q1. rewrite Est in Q1.
        exists q, F. split; assumption.
      + rewrite Hf1. intros ab Hin. apply HKG. rewrite Hkws. apply in_or_app. right. exact Hin.
    - split; [exact Hp1|]. split; [exact Hr1|]. split; [exact Hf1|].
      split.
      + unfold TM_Dispatch.MM, TM_Dispatch.PhiR', TM_Dispatch.PhiR. rewrite Hp1, Hr1, Hf1, Ef. simpl List.length. lia.
      + destruct ol as [l|]; [|exact I]. split; [apply Hol|].
        intros Hk. pose proof (process_event_kw _ _ _ _ _ _ Hrel' Est Hpe Hk) as Hiv.
        apply (HKG (lb l, le l)). rewrite Hkws, Hiv. left. reflexivity.
  Qed.

  Lemma KX_note s g l :
    KX s g -> lex_inb size l ->
    KX s (note_lexeme l g) /\ pos (note_lexeme l g) = pos g /\ MM (note_lexeme l g) = MM g.
  Proof.
    intros (HG & HA & HZ & HK & HKG) Hl.
    assert (Hset : forall lp, Forall (lex_inb size) lp -> KX s (set_lastp g lp)).
    { intros lp Hlp. destruct HG as (A & B & C0 & D & E & F).
      split.
      - split; [exact A|]. split; [exact B|]. split; [exact C0|]. split; [exact D|]. split; [exact Hlp|].
        intros H. destruct (F H) as (F1 & F2 & F3 & F4). split; [exact F1|]. split; [exact F2|]. split; [exact F3|]. exact Hlp.
      - split; [exact HA|]. split; [exact HZ|]. split; [exact HK | exact HKG]. }
    assert (HLg : Forall (lex_inb size) (lastp g)) by (destruct HG as (_ & _ & _ & _ & E & _); exact E).
    unfold note_lexeme.
    destruct (lexkind_eqb (lk l) LParameter).
    - split; [apply Hset; apply Forall_app; split; [exact HLg | constructor; [exact Hl | constructor]]|]. split; reflexivity.
    - destruct (lexkind_eqb (lk l) LKeyword).
      + split; [apply Hset; constructor|]. split; reflexivity.
      + split; [|split; reflexivity]. split; [exact HG|]. split; [exact HA|]. split; [exact HZ|]. split; [exact HK | exact HKG].
  Qed.

  Lemma drain_k n : forall s g g' ol,
    KX s g -> (n <= List.length (finds g))%nat ->
    drain n g = Ok (g', ol) ->
    exists s', KX s' g' /\ pos g' = pos g /\
      match ol with Some l => (MM g' + 1 <= MM g)%Z /\ KwL l | None => (MM g' <= MM g)%Z end.
  Proof.
    induction n as [|n IH]; intros s g g' ol HX Hn Hd; cbn [drain] in Hd.
    - injection Hd as <- <-. exists s. split; [exact HX|]. split; [reflexivity | lia].
    - destruct (finds g) as [|ev fs] eqn:Ef; [discriminate|].
      destruct (event_step_k s g ev fs HX Ef) as (s1 & g1 & ol1 & Hpe & HX1 & Hp1 & Hr1 & Hf1 & HM1 & Hol1).
      rewrite Hpe in Hd. cbn [obind fst snd] in Hd.
      destruct ol1 as [l|].
      + injection Hd as <- <-. destruct Hol1 as [Hinb Hkw].
        destruct (KX_note _ _ l HX1 Hinb) as (HXn & Hpn & HMn).
        exists s1. split; [exact HXn|]. split; [lia|]. split; [lia | exact Hkw].
      + assert (Hn1 : (n <= List.length (finds g1))%nat) by (rewrite Hf1; simpl in Hn; lia).
        destruct (IH s1 g1 g' ol HX1 Hn1 Hd) as (s' & A & B & D).
        exists s'. split; [exact A|]. split; [lia|]. destruct ol; [destruct D; split; [lia | assumption] | lia].
  Qed.

  Lemma main_loop_k fuel : forall s g g' ol,
    KX s g -> (MM g < Z.of_nat fuel)%Z ->
    main_loop jsc_len enum_len data size fuel g = Ok (g', ol) ->
    exists s', KX s' g' /\
      match ol with Some l => (MM g' + 1 <= MM g)%Z /\ KwL l | None => (MM g' <= MM g)%Z end.
  Proof.
    induction fuel as [|fuel IH]; intros s g g' ol HX Hfuel Hm; [discriminate|].
    cbn [main_loop] in *.
    destruct (pos g <=? size) eqn:Epos.
    2:{ injection Hm as <- <-. exists s. split; [exact HX | lia]. }
    apply N.leb_le in Epos.
    destruct HX as (HG & HA & HZ & HK & HKG). specialize (HZ Epos). specialize (HK Epos).
    destruct HG as (Hrel & Hos & Hsz & HEv & HL & HTy).
    pose proof (HTy Epos) as HI.
    pose proof (ZD_len data g HZ) as Hlen. rewrite <- Hsize in Hlen.
    assert (Hbyte : exists c, (if pos g =? size then Some 0 else hd_error (rest g)) = Some c /\ c < 256 /\
                              (pos g = size -> c = 0) /\ byte_at (pos g) = c).
    { destruct (pos g =? size) eqn:E.
      - exists 0. apply N.eqb_eq in E. repeat split; try reflexivity; try lia.
        apply ZD_byte_end; [exact HZ|]. destruct (rest g); [reflexivity | cbn [List.length] in Hlen; lia].
      - apply N.eqb_neq in E.
        destruct (rest g) as [|c r] eqn:Er; [cbn [List.length] in Hlen; lia|].
        exists c. destruct HA as [_ HAr]. rewrite Er in HAr. inversion HAr; subst.
        repeat split; try reflexivity; try assumption; [intros; lia|]. eapply ZD_byte; eassumption. }
    destruct Hbyte as (c & Hc & Hc256 & Hcz & Hcb).
    rewrite Hc in *.
    destruct ((c =? 0) && negb (pos g =? size)) eqn:Enul; [discriminate|].
    assert (Hc0 : c = 0 -> pos g = size).
    { intros ->. simpl in Enul. destruct (pos g =? size) eqn:E; [apply N.eqb_eq; exact E | discriminate]. }
    assert (Hc1 : c <> 0 -> pos g < size).
    { intros Hne. destruct (N.eq_dec (pos g) size) as [E|E]; [specialize (Hcz E); contradiction | lia]. }
    assert (Hrf : (rho ty (reg g) < Z.of_nat redo_fuel)%Z).
    { destruct (ok_sane ty Hok (reg g)) as (_ & H & _). unfold RHO_MAX in H. unfold redo_fuel. lia. }
    pose proof (dispatch_sound ty Hok jsc_len enum_len jsc_sane enum_sane data size c s Hc256 redo_fuel g Hc0 Hc1 HI Hrf) as Hd.
    destruct (dispatch jsc_len enum_len data size redo_fuel c g) as [g1|q e| |] eqn:Ed; cbn [obind] in Hm; try discriminate.
    destruct Hd as (HZ1 & HEv1 & Hsz1 & HLp1 & HI2 & HMM2).
    pose proof (dispatch_allb jsc_len enum_len data size _ _ _ _ Ed HA) as HA1.
    destruct (kw_dispatch c s (pos g) Hc256 Hc0 Hc1 Hcb redo_fuel g g1 eq_refl HI HK HKG Ed) as [HK2 HKG2].
    set (g2 := advance g1 1) in *.
    assert (HA2 : AllB g2) by (apply advance_allb; exact HA1).
    assert (Hrel2 : estk_rel s g2).
    { unfold g2, advance, estk_rel. cbn [estk set_zip]. rewrite (dispatch_estk _ _ _ _ _ _ _ _ Ed). exact Hrel. }
    assert (HZ2 : pos g2 <= size -> ZD g2).
    { intros H. unfold g2, advance in H. cbn [pos set_zip] in H.
      destruct HZ1 as [Z1 Z2].
      (* ZD of g1: follow the dispatch *)
      apply advance_ZD; [|lia].
      clear - Ed HZ jsc_sane enum_sane Hsize.
      revert g g1 HZ Ed. generalize redo_fuel as f. induction f as [|f IHf]; intros g g1 HZ Ed; cbn [dispatch] in Ed; [discriminate|].
      destruct (eval_tree data size (step_tree (reg g)) c g) as [ax| | |]; cbn [obind] in Ed; try discriminate.
      destruct (exec_acts jsc_len enum_len (fst ax) g) as [gx| | |] eqn:Ex; cbn [obind] in Ed; try discriminate.
      assert (Hx : ZD gx).
      { clear - Ex HZ jsc_sane enum_sane Hsize. revert g gx HZ Ex. induction (fst ax) as [|a l IHl]; intros g gx HZ Ex; simpl in Ex.
        - injection Ex as <-. exact HZ.
        - destruct (exec_act jsc_len enum_len a g) as [gy| | |] eqn:Ea; simpl in Ex; try discriminate.
          apply (IHl gy gx); [|exact Ex]. exact (exec_act_ZD jsc_len enum_len jsc_sane enum_sane data size Hsize a g gy HZ Ea). }
      destruct (snd ax); [injection Ed as <-; exact Hx | eapply IHf; eassumption | discriminate]. }
    assert (HX2 : KX s g2).
    { split.
      - split; [exact Hrel2|]. split; [exact Hos|]. split; [exact Hsz|].
        split; [exact HEv1|]. split; [unfold g2, advance; simpl; rewrite HLp1; exact HL|].
        intros H. apply HI2. unfold g2, advance in H. simpl in H. exact H.
      - split; [exact HA2|]. split; [exact HZ2|]. split; [intros _; exact HK2 | exact HKG2]. }
    destruct (drain (List.length (finds g2)) g2) as [[g3 ol3]|q e| |] eqn:Edr; cbn [obind fst snd] in Hm; try discriminate.
    destruct (drain_k _ s g2 g3 ol3 HX2 (le_n _) Edr) as (s3 & HX3 & Hp3 & HM3).
    destruct ol3 as [l|].
    - injection Hm as <- <-. exists s3. split; [exact HX3|]. fold g2 in HMM2. destruct HM3; split; [lia | assumption].
    - assert (Hfuel3 : (MM g3 < Z.of_nat fuel)%Z) by (fold g2 in HMM2; lia).
      destruct (IH s3 g3 g' ol HX3 Hfuel3 Hm) as (s4 & A & B).
      exists s4. split; [exact A|]. fold g2 in HMM2. destruct ol; [destruct B; split; [lia | assumption] | lia].
  Qed.

  Lemma next_k fuel s g g' ol :
    KX s g -> (MM g < Z.of_nat fuel)%Z ->
    next jsc_len enum_len data size fuel g = Ok (g', ol) ->
    exists s', KX s' g' /\ match ol with Some l => (MM g' + 1 <= MM g)%Z /\ KwL l | None => True end.
  Proof.
    intros HX Hfuel Hn. unfold next in *.
    destruct (finds g) as [|ev fs] eqn:Ef.
    - destruct (main_loop_k fuel s g g' ol HX Hfuel Hn) as (s' & A & B).
      exists s'. split; [exact A|]. destruct ol; [exact B | exact I].
    - destruct (event_step_k s g ev fs HX Ef) as (s1 & g1 & ol1 & Hpe & HX1 & Hp1 & Hr1 & Hf1 & HM1 & Hol1).
      rewrite Hpe in *. cbn [obind fst snd] in Hn.
      destruct ol1 as [l|].
      + injection Hn as <- <-. exists s1. split; [exact HX1|]. split; [exact HM1 | apply Hol1].
      + assert (Hfuel1 : (MM g1 < Z.of_nat fuel)%Z) by lia.
        destruct (main_loop_k fuel s1 g1 g' ol HX1 Hfuel1 Hn) as (s' & A & B).
        exists s'. split; [exact A|]. destruct ol; [destruct B; split; [lia | assumption] | exact I].
  Qed.

  Lemma scan_all_k fuel : forall s g acc lexs e g',
    KX s g -> (MM g < Z.of_nat fuel)%Z -> Forall KwL acc ->
    scan_all jsc_len enum_len data size fuel g acc = (lexs, e, g') -> Forall KwL lexs.
  Proof.
    induction fuel as [|fuel IH]; intros s g acc lexs e g' HX Hfuel Hacc Hs; cbn [scan_all] in Hs.
    - injection Hs as <- _ _. apply Forall_rev. exact Hacc.
    - destruct (next jsc_len enum_len data size (S fuel) g) as [[g1 ol]|q e0|w|] eqn:En;
        try (injection Hs as <- _ _; apply Forall_rev; exact Hacc).
      destruct (next_k (S fuel) s g g1 ol HX Hfuel En) as (s1 & HX1 & HM1).
      destruct ol as [l|].
      + destruct HM1 as [HM1 Hl]. apply (IH s1 g1 (l :: acc) lexs e g' HX1); [lia | constructor; assumption | exact Hs].
      + injection Hs as <- _ _. apply Forall_rev. exact Hacc.
  Qed.
End Keyword.

(* ---- the whole scan ---- *)
Definition lex_bytes (data : bytes) (l : lexeme) : bytes :=
  firstn (N.to_nat (le l + 1 - lb l)) (skipn (N.to_nat (lb l)) data).

Theorem scan_keywords_generic ty spell kw_ok jsc_len enum_len data :
  table_ok ty = true -> spell_ok ty spell kw_ok = true ->
  len_sane jsc_len -> len_sane enum_len -> Forall isb data ->
  forall l, In l (scan_lexemes jsc_len enum_len data) -> lk l = LKeyword -> kw_ok (lex_bytes data l) = true.
Proof.
  intros Hok Hsp Hj He Hb l Hin Hk.
  set (size := N.of_nat (List.length data)).
  destruct (ScanTheorems.init_GI ty Hok data Hb) as [HG HA]. fold size in HG.
  pose proof (ScanTheorems.init_MM ty Hok data) as HM. fold size in HM.
  assert (Hinit : spell initial_state = None).
  { unfold spell_ok in Hsp. apply andb_true_iff in Hsp as [H _]. destruct (spell initial_state); [discriminate | reflexivity]. }
  assert (HX : KX ty spell kw_ok data size (None, 0) (init_cfg data)).
  { split; [exact HG|]. split; [exact HA|]. split; [intros _; split; reflexivity|]. split.
    - intros _ w Hw. cbn in Hw. rewrite Hinit in Hw. discriminate.
    - intros ab []. }
  unfold scan_lexemes, scan in Hin. fold size in Hin.
  destruct (scan_all jsc_len enum_len data size (scan_fuel data) (init_cfg data) []) as [[lexs e] g'] eqn:Es.
  cbn [fst] in Hin.
  pose proof (scan_all_k ty Hok spell kw_ok Hsp jsc_len enum_len Hj He data size eq_refl (scan_fuel data)
                (None, 0) (init_cfg data) [] lexs e g' HX HM (Forall_nil _) Es) as HF.
  rewrite Forall_forall in HF. exact (HF l Hin Hk).
Qed.
