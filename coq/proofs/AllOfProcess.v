(* C12 — allOf inheritance for EVERY library-accepted project (part 3 of 4):
   processSchemaContentJSightAllOf under the heap typing.

   visit_level: a visit of ANY node of a well-typed heap (raw, half filled, completed; an original
   or a by-value copy) returns without error within S d units of fuel, where S d is the least
   spec fuel at which the node's source subtree is defined, leaves the heap well typed, the node
   completed (fins), every full node untouched (keeps) and every node of a higher level untouched
   (lframe).  Induction on the level: children and bases are of strictly lower levels — this is
   where acyclicity of inheritance enters, and why the fuel is sufficient. *)
From Coq Require Import List NArith Bool String Lia Arith PeanoNat.
From JV.lib Require Import Bytes.
From JV.model Require Import AllOf.
From JV.spec Require Import AllOfSpec.
From JV.proofs Require Import AllOfProofs AllOfHeapTyping AllOfCopyLoop.
Import ListNotations.
Open Scope nat_scope.

Lemma process_S types u f st sc :
  process types u (S f) st sc =
  match get st sc with
  | None => RPanic "nil dereference: sc.TokenType"
  | Some n =>
    if negb (tok_eqb (n_tok n) TObject) && negb (tok_eqb (n_tok n) TArray) then ROk st else
    rbind (fold_res (fun st1 c => process types u f st1 c) (n_children n) st) (fun st1 =>
    if negb (tok_eqb (n_tok n) TObject) then ROk st1 else
    match n_allof n with
    | [] => ROk st1
    | names => fold_res (inherit types u (process types u f) sc) (rev names) st1
    end)
  end.
Proof. reflexivity. Qed.

Lemma fin_heap_eq tys D h : forall G st st' j,
  (forall i, get st' i = get st i) -> fin tys D h G st j -> fin tys D h G st' j.
Proof.
  induction h as [|h IH]; intros G st st' j He Hf; [destruct Hf|].
  destruct Hf as (n & Hg & Hfull & Hc). exists n. rewrite He. repeat split; auto.
  eapply Forall_impl; [|exact Hc]. intros c. apply IH. exact He.
Qed.

Section Process.
  Variable tys : list (bytes * option tree).
  Variable ts : list (bytes * option id).
  Variable D : nat.

  Notation tg := (tg tys D).
  Notation spd := (spd tys).
  Notation WF := (WF tys ts D).
  Notation node_ok := (node_ok tys D).
  Notation child_ok := (child_ok tys D).
  Notation full := (full tys D).
  Notation fin := (fin tys D).
  Notation fins := (fins tys D).
  Notation keeps := (keeps tys D).
  Notation trans := (trans tys ts D).
  Notation memoinv := (memoinv tys ts D).
  Notation memo_eff := (memo_eff tys).
  Notation filled := (filled tys D).

  (* every jsight type of the project has a schema root in the heap, and a non-empty name *)
  Hypothesis Hlk : forall b tb, lookup tys b = Some (Some tb) -> exists rb, lookup ts b = Some (Some rb).
  Hypothesis Hnames : forall b tb, lookup tys b = Some (Some tb) -> b <> [].

  Lemma WF_add_memo G st b : WF G st -> WF G (add_memo b st).
  Proof. intros [L N T]. split; auto. Qed.

  Lemma fins_add_memo G st b j : fins G st j <-> fins G (add_memo b st) j.
  Proof. split; intros [h Hf]; exists h; eapply fin_heap_eq; try exact Hf; reflexivity. Qed.

  (* a node whose rule does not apply (no rule, or not an object) has all its children from the start *)
  Lemma full_if_no_inh G j e n :
    node_ok G e n -> nth_error G j = Some e -> eff_ao (ttok (en_tree e)) (tao (en_tree e)) = [] -> full G j n.
  Proof.
    intros Hok Hn Hao. destruct (no_kids _ _ _ _ _ Hok) as (x & pre & s & Hx & _ & Hs & Hlen & HF).
    exists e, x. split; [exact Hn|]. split; [exact Hx|].
    destruct (tg_kids _ _ _ _ Hx) as (d & own & inh & _ & Ho & Hi & Hk).
    rewrite Hao in Hi. simpl in Hi. injection Hi as <-. simpl in Hk.
    assert (Hlo := all_some_length _ _ _ Ho). assert (Hl := Forall2_length' _ _ _ HF).
    assert (Hls : List.length (rkids x) = List.length pre + List.length s) by (rewrite Hs, app_length; reflexivity).
    rewrite Hk in Hls |- *. lia.
  Qed.

  (* the level of a base is below the level of the object that names it *)
  Lemma lvl_base e d b tb :
    spd (S d) e <> None -> In b (eff_ao (ttok (en_tree e)) (tao (en_tree e))) -> lookup tys b = Some (Some tb) ->
    spec_tree d tys None tb <> None.
  Proof.
    unfold AllOfHeapTyping.spd. intros Hd Hb Hl. rewrite (tree_eta (en_tree e)) in Hd.
    destruct (spec_tree (S d) tys (en_key e) (Tree (ttok (en_tree e)) (tao (en_tree e)) (tkids (en_tree e)))) as [x|] eqn:Ex; [|congruence].
    destruct (spec_unfold tys d _ _ _ _ x Ex) as (own & inh & _ & Hi & _).
    destruct (all_some_In _ _ _ b Hi Hb) as (blk & Hblk).
    destruct (spec_base_some tys d b blk Hblk) as (ao' & kids' & r & Hl' & Hr & _).
    assert (tb = Tree TObject ao' kids') by congruence. subst tb. congruence.
  Qed.

  Definition visit_ok (d : nat) : Prop :=
    forall u i G st fuel e,
      WF G st -> nth_error G i = Some e -> spd (S d) e <> None -> spd d e = None -> memoinv d G st -> S d <= fuel ->
      exists st' G', process ts u fuel st i = ROk st' /\ trans (S d) d G st G' st' /\ fins G' st' i.

  Section Level.
    Variable d : nat.
    Hypothesis IHd : forall d', d' < d -> visit_ok d'.

    (* a visit of a node whose level is somewhere below d *)
    Lemma visit_below u i G st fuel e :
      WF G st -> nth_error G i = Some e -> spd d e <> None -> memoinv d G st -> d <= fuel ->
      exists st' G', process ts u fuel st i = ROk st' /\ trans d d G st G' st' /\ fins G' st' i.
    Proof.
      intros Hw Hn Hd Hm Hfuel. destruct (spd_min tys d e Hd) as (dm & Hle & Hdm1 & Hdm0).
      destruct (IHd dm ltac:(lia) u i G st fuel e Hw Hn Hdm1 Hdm0) as (st' & G' & Hrun & Htr & Hfin).
      { eapply memoinv_le; [|exact Hm]. lia. }
      { lia. }
      exists st', G'. split; [exact Hrun|]. split; [|exact Hfin].
      destruct Htr as [P W K L M E]. split; auto.
      - eapply lframe_le; [|exact L]. lia.
      - intros b tb rb Hin Hl Hl' Hdb. destruct (E b Hin) as [Hold|(tb' & Hl2 & Hnew)].
        + eapply fins_step; [exact P|exact K|]. apply (Hm b tb rb); auto.
        + assert (tb' = tb) by congruence. subst tb'. apply (M b tb rb); auto.
      - eapply memo_eff_le; [|exact E]. lia.
    Qed.

    (* the visit of a base type that has just been entered into processedByAllOf *)
    Lemma visit_base u b tb rb G st fuel :
      WF G st -> lookup tys b = Some (Some tb) -> lookup ts b = Some (Some rb) ->
      spec_tree d tys None tb <> None -> memoinv d G st -> d <= fuel ->
      exists st' G', process ts u fuel (add_memo b st) rb = ROk st' /\ trans d d G st G' st' /\ fins G' st' rb.
    Proof.
      intros Hw Hl Hl' Hd Hm Hfuel.
      destruct (wf_types _ _ _ _ _ Hw b rb Hl') as (tb' & Hl2 & Hn). assert (tb' = tb) by congruence. subst tb'.
      assert (Hd' : spd d (type_entry tb) <> None) by exact Hd.
      destruct (spd_min tys d _ Hd') as (dm & Hle & Hdm1 & Hdm0).
      destruct (IHd dm ltac:(lia) u rb G (add_memo b st) fuel (type_entry tb)) as (st' & G' & Hrun & Htr & Hfin); auto.
      { apply WF_add_memo. exact Hw. }
      { intros b0 tb0 rb0 [<-|Hin] Hl0 Hl0' Hd0.
        - assert (tb0 = tb) by congruence. subst tb0. exfalso. apply Hd0. exact Hdm0.
        - apply fins_add_memo. apply (Hm b0 tb0 rb0); auto.
          destruct (spec_tree dm tys None tb0) as [y|] eqn:Ey; [|congruence].
          rewrite (spec_tree_le dm d tys _ _ y ltac:(lia) Ey). discriminate. }
      { lia. }
      exists st', G'. split; [exact Hrun|]. split; [|exact Hfin].
      destruct Htr as [P W K L M E]. split; auto.
      - eapply lframe_le; [|exact L]. lia.
      - intros b0 tb0 rb0 Hin Hl0 Hl0' Hd0. destruct (E b0 Hin) as [[<-|Hold]|(tb' & Hl3 & Hnew)].
        + assert (rb0 = rb) by congruence. subst rb0. exact Hfin.
        + eapply fins_step; [exact P|exact K|]. apply (proj1 (fins_add_memo G st b rb0)). apply (Hm b0 tb0 rb0); auto.
        + assert (tb' = tb0) by congruence. subst tb'. apply (M b0 tb0 rb0); auto.
      - intros b0 Hin. destruct (E b0 Hin) as [[<-|Hold]|(tb' & Hl3 & Hnew)].
        + right. exists tb. auto.
        + left. exact Hold.
        + right. exists tb'. split; auto.
          destruct (spec_tree dm tys None tb') as [y|] eqn:Ey; [|congruence].
          rewrite (spec_tree_le dm d tys _ _ y ltac:(lia) Ey). discriminate.
    Qed.

    (* for _, v := range sc.Children *)
    Lemma visit_children u f : d <= f -> forall cs G st,
      WF G st -> memoinv d G st ->
      (forall c, In c cs -> exists ec, nth_error G c = Some ec /\ spd d ec <> None) ->
      exists st' G', fold_res (fun st1 c => process ts u f st1 c) cs st = ROk st' /\
                     trans d d G st G' st' /\ Forall (fins G' st') cs.
    Proof.
      intros Hf. induction cs as [|c cs IH]; intros G st Hw Hm Hall.
      - exists st, G. split; [reflexivity|]. split; [apply trans_refl; auto|constructor].
      - destruct (Hall c (or_introl eq_refl)) as (ec & Hnc & Hdc).
        destruct (visit_below u c G st f ec Hw Hnc Hdc Hm Hf) as (st1 & G1 & Hrun1 & Htr1 & Hfin1).
        destruct (IH G1 st1 (tr_wf _ _ _ _ _ _ _ _ _ Htr1) (tr_minv _ _ _ _ _ _ _ _ _ Htr1)) as (st2 & G2 & Hrun2 & Htr2 & Hfin2).
        { intros c' Hc'. destruct (Hall c' (or_intror Hc')) as (ec' & Hn' & Hd'). exists ec'. split; auto.
          eapply prefix_nth; [exact (tr_pre _ _ _ _ _ _ _ _ _ Htr1)|exact Hn']. }
        exists st2, G2. split; [simpl; rewrite Hrun1; simpl; exact Hrun2|].
        split; [eapply trans_trans; eauto|]. constructor; auto. eapply trans_fins; eauto.
    Qed.

    (* ---- the node that is visited, at its level d ---- *)
    Variable u : nat.
    Variable f : nat.
    Variable i : id.
    Variable e : entry.
    Variable x : rtree.
    Hypothesis Hf : d <= f.
    Hypothesis Hx : tg e = Some x.
    Hypothesis Hxobj : rtok x = TObject.
    Hypothesis Hxok : rtree_ok x = true.
    Hypothesis Hdef : spd (S d) e <> None.
    Hypothesis Hmin : spd d e = None.
    Hypothesis Heobj : ttok (en_tree e) = TObject.

    Lemma filled_trans_below G st G' st' L :
      nth_error G i = Some e -> trans d d G st G' st' -> filled i G st L -> filled i G' st' L.
    Proof.
      intros Hn Htr (n & Hg & Hl & Hfs). exists n. split.
      - eapply (tr_lframe _ _ _ _ _ _ _ _ _ Htr); eauto.
      - split; [exact Hl|]. eapply Forall_impl; [|exact Hfs]. intros c. eapply trans_fins; eauto.
    Qed.

    (* inheritPropertiesFromUserType(sc, uut, b) *)
    Lemma inherit_base dD b blk P Q G st :
      D = S dD -> In b (tao (en_tree e)) -> spec_base (spec_tree dD tys) tys b = Some blk ->
      rkids x = P ++ blk ++ Q ->
      WF G st -> memoinv d G st -> nth_error G i = Some e -> filled i G st (List.length Q) ->
      exists st' G', inherit ts u (process ts u f) i st b = ROk st' /\ trans (S d) d G st G' st' /\
                     filled i G' st' (List.length blk + List.length Q).
    Proof.
      intros HD Hb Hblk HX Hw Hm Hn Hfill.
      destruct (spec_base_some tys dD b blk Hblk) as (ao' & kids' & r & Hl & Hr & ->).
      set (tb := Tree TObject ao' kids') in *.
      destruct (Hlk b tb Hl) as (rb & Hl').
      destruct (wf_types _ _ _ _ _ Hw b rb Hl') as (tb' & Hl2 & Hnrb). assert (tb' = tb) by congruence. subst tb'.
      destruct (wf_get _ _ _ _ _ _ _ Hw Hnrb) as (rbn & Hgrb & Hokrb).
      assert (HrD : spec_tree D tys None tb = Some r) by (apply (spec_tree_le dD D); [lia|exact Hr]).
      destruct (spec_root tys _ _ _ _ Hr) as (_ & Hrtok & Hrinh).
      assert (Htgr : tg (type_entry tb) = Some r).
      { unfold AllOfHeapTyping.tg, AllOfHeapTyping.spd. simpl. rewrite HrD. simpl. rewrite <- Hrinh, mark_own. reflexivity. }
      assert (Hrok : rtree_ok r = true).
      { destruct (no_kids _ _ _ _ _ Hokrb) as (x' & _ & _ & Hx' & Hok' & _). congruence. }
      assert (Hbeff : In b (eff_ao (ttok (en_tree e)) (tao (en_tree e)))) by (rewrite Heobj; exact Hb).
      assert (Hlvl : forall d', spd (S d') e <> None -> spec_tree d' tys None tb <> None).
      { intros d' Hd'. eapply lvl_base; eauto. }
      (* phase 1: the base has been completed, or is now *)
      assert (P1 : exists st1 G1, (if mem b (memo st) then ROk st else process ts u f (add_memo b st) rb) = ROk st1 /\
                                  trans d d G st G1 st1 /\ fins G1 st1 rb).
      { destruct (mem b (memo st)) eqn:Em.
        - exists st, G. split; [reflexivity|]. split; [apply trans_refl; auto|].
          apply mem_In in Em. apply (Hm b tb rb); auto.
        - apply (visit_base u b tb rb G st f); auto. }
      destruct P1 as (st1 & G1 & Hrun1 & Htr1 & Hfin1).
      assert (Hfill1 := filled_trans_below G st G1 st1 _ Hn Htr1 Hfill).
      assert (HP1 := tr_pre _ _ _ _ _ _ _ _ _ Htr1).
      (* phase 2: the copy loop *)
      destruct Hfin1 as [h1 Hfin1]. destruct h1 as [|h1]; [destruct Hfin1|].
      assert (Hfin1' := Hfin1). destruct Hfin1 as (rbn1 & Hgrb1 & (e1 & r1 & He1 & Hr1 & Hlen1) & _).
      assert (e1 = type_entry tb) by (apply (prefix_nth _ _ _ _ HP1) in Hnrb; congruence). subst e1.
      assert (r1 = r) by congruence. subst r1.
      destruct (copy_loop tys ts D u b i rb d e x r tb P Q (Hnames b tb Hl) Hx Hxobj Hxok Htgr Hrtok Hrok HX Hdef Hlvl
                          (List.length (n_children rbn1)) G1 st1) as (st2 & G2 & Hrun2 & Htr2 & Hfill2 & _).
      { exact (tr_wf _ _ _ _ _ _ _ _ _ Htr1). }
      { exact (tr_minv _ _ _ _ _ _ _ _ _ Htr1). }
      { eapply prefix_nth; eauto. }
      { eapply prefix_nth; eauto. }
      { exists (S h1). exact Hfin1'. }
      { lia. }
      { rewrite map_length, Hlen1, Nat.sub_diag. exact Hfill1. }
      exists st2, G2. split.
      - unfold inherit. rewrite Hl', Hgrb. rewrite (no_tok _ _ _ _ _ Hokrb). simpl.
        rewrite Hrun1. cbn [rbind]. rewrite Hgrb1. exact Hrun2.
      - split; [|exact Hfill2].
        eapply trans_trans; [|exact Htr2]. eapply trans_lframe_le; [|exact Htr1]. lia.
    Qed.

    (* for i := len(rule.Children) - 1; i >= 0; i-- *)
    Lemma inherit_bases dD : D = S dD -> forall bs Bs,
      Forall2 (fun b blk => In b (tao (en_tree e)) /\ spec_base (spec_tree dD tys) tys b = Some blk) bs Bs ->
      forall P Q G st,
      rkids x = P ++ List.concat (rev Bs) ++ Q ->
      WF G st -> memoinv d G st -> nth_error G i = Some e -> filled i G st (List.length Q) ->
      exists st' G', fold_res (inherit ts u (process ts u f) i) bs st = ROk st' /\ trans (S d) d G st G' st' /\
                     filled i G' st' (List.length (List.concat (rev Bs)) + List.length Q).
    Proof.
      intros HD. induction 1 as [|b blk bs Bs [Hb Hblk] _ IH]; intros P Q G st HX Hw Hm Hn Hfill.
      - exists st, G. split; [reflexivity|]. split; [apply trans_refl; auto|]. simpl. exact Hfill.
      - simpl in HX. rewrite concat_app in HX. simpl in HX. rewrite app_nil_r, <- !app_assoc in HX.
        destruct (inherit_base dD b blk (P ++ List.concat (rev Bs)) Q G st HD Hb Hblk) as (st1 & G1 & Hrun1 & Htr1 & Hfill1); auto.
        { rewrite <- app_assoc. exact HX. }
        destruct (IH P (blk ++ Q) G1 st1) as (st2 & G2 & Hrun2 & Htr2 & Hfill2).
        { exact HX. }
        { exact (tr_wf _ _ _ _ _ _ _ _ _ Htr1). }
        { exact (tr_minv _ _ _ _ _ _ _ _ _ Htr1). }
        { eapply prefix_nth; [exact (tr_pre _ _ _ _ _ _ _ _ _ Htr1)|exact Hn]. }
        { rewrite app_length. exact Hfill1. }
        exists st2, G2. split; [simpl; rewrite Hrun1; simpl; exact Hrun2|].
        split; [eapply trans_trans; eauto|].
        simpl. rewrite concat_app. simpl. rewrite app_nil_r, !app_length in *.
        destruct Hfill2 as (n & Hg & Hl & Hfs). exists n. repeat split; auto. lia.
    Qed.
  End Level.

  Lemma visit_step d : (forall d', d' < d -> visit_ok d') -> visit_ok d.
  Proof.
    intros IHd u i G st fuel e Hw Hn Hdef Hmin Hm Hfuel.
    destruct fuel as [|f]; [lia|].
    destruct (wf_get _ _ _ _ _ _ _ Hw Hn) as (n & Hg & Hok).
    destruct (no_kids _ _ _ _ _ Hok) as (x & pre & s & Hx & Hxok & Hs & Hlenk & HFc).
    destruct (tg_shape _ _ _ _ Hx) as (_ & Hxtok & _).
    rewrite process_S, Hg, (no_tok _ _ _ _ _ Hok).
    destruct (ttok (en_tree e)) eqn:Etk; simpl.
    - (* an object: children, then the rule *)
      destruct (visit_children d IHd u f ltac:(lia) (n_children n) G st Hw Hm) as (st1 & G1 & Hrun1 & Htr1 & Hfin1).
      { intros c Hc. destruct (In_nth_error _ _ Hc) as (q & Hq).
        destruct (Forall2_nth_l _ _ _ _ _ HFc Hq) as (y & _ & (ec & Hnc & _)). exists ec. split; auto.
        eapply (no_lvl _ _ _ _ _ Hok); eauto. }
      rewrite Hrun1. cbn [rbind].
      assert (HP1 := tr_pre _ _ _ _ _ _ _ _ _ Htr1).
      assert (Hg1 : get st1 i = Some n) by (eapply (tr_lframe _ _ _ _ _ _ _ _ _ Htr1); eauto).
      assert (Hn1 : nth_error G1 i = Some e) by (eapply prefix_nth; eauto).
      assert (Htr1' : trans (S d) d G st G1 st1) by (eapply trans_lframe_le; [|exact Htr1]; lia).
      rewrite (no_ao _ _ _ _ _ Hok).
      destruct (tao (en_tree e)) as [|a ao] eqn:Eao.
      + (* no rule *)
        exists st1, G1. split; [reflexivity|]. split; [exact Htr1'|].
        destruct (fins_all _ _ _ _ _ Hfin1) as (h & Hh). exists (S h), n. split; [exact Hg1|]. split; [|exact Hh].
        destruct (wf_entry _ _ _ _ _ _ _ (tr_wf _ _ _ _ _ _ _ _ _ Htr1) Hg1) as (e' & He' & Hok').
        assert (e' = e) by congruence. subst e'. apply (full_if_no_inh G1 i e n Hok' Hn1).
        rewrite Etk, Eao. reflexivity.
      + (* the rule *)
        change (rev ao ++ [a]) with (rev (a :: ao)). rewrite <- Eao.
        destruct (tg_kids _ _ _ _ Hx) as (dD & own & inh & HD & Ho & Hi & Hk).
        rewrite Etk in Hi. simpl in Hi. apply all_some_map_some in Hi.
        assert (HF2 : Forall2 (fun b blk => In b (tao (en_tree e)) /\ spec_base (spec_tree dD tys) tys b = Some blk)
                              (rev (tao (en_tree e))) (rev inh)).
        { apply Forall2_rev'. eapply Forall2_impl_In; [|exact Hi]. intros b blk Hb Hblk. auto. }
        assert (Hxtok' : rtok x = TObject) by congruence.
        destruct (inherit_bases d IHd u f i e x ltac:(lia) Hx Hxtok' Hxok Hdef Hmin Etk dD HD _ _ HF2 [] own G1 st1)
          as (st2 & G2 & Hrun2 & Htr2 & Hfill2).
        { rewrite rev_involutive. exact Hk. }
        { exact (tr_wf _ _ _ _ _ _ _ _ _ Htr1). }
        { exact (tr_minv _ _ _ _ _ _ _ _ _ Htr1). }
        { exact Hn1. }
        { exists n. split; [exact Hg1|]. split; [|exact Hfin1].
          assert (Hlo := all_some_length _ _ _ Ho). assert (Hl := Forall2_length' _ _ _ HFc). lia. }
        exists st2, G2. split; [exact Hrun2|]. split; [eapply trans_trans; eauto|].
        rewrite rev_involutive in Hfill2. destruct Hfill2 as (n2 & Hg2 & Hl2 & Hfs2).
        destruct (fins_all _ _ _ _ _ Hfs2) as (h & Hh). exists (S h), n2. split; [exact Hg2|]. split; [|exact Hh].
        assert (Hn2 : nth_error G2 i = Some e) by (eapply prefix_nth; [exact (tr_pre _ _ _ _ _ _ _ _ _ Htr2)|exact Hn1]).
        exists e, x. split; [exact Hn2|]. split; [exact Hx|].
        destruct (wf_entry _ _ _ _ _ _ _ (tr_wf _ _ _ _ _ _ _ _ _ Htr2) Hg2) as (e' & He' & Hok2).
        assert (e' = e) by congruence. subst e'.
        destruct (no_kids _ _ _ _ _ Hok2) as (x2 & pre2 & s2 & Hx2 & _ & Hs2 & _ & HF2').
        assert (x2 = x) by congruence. subst x2.
        assert (Hl := Forall2_length' _ _ _ HF2').
        assert (Hls : List.length (rkids x) = List.length pre2 + List.length s2) by (rewrite Hs2, app_length; reflexivity).
        rewrite Hk, app_length in Hls |- *. lia.
    - (* an array: children only *)
      destruct (visit_children d IHd u f ltac:(lia) (n_children n) G st Hw Hm) as (st1 & G1 & Hrun1 & Htr1 & Hfin1).
      { intros c Hc. destruct (In_nth_error _ _ Hc) as (q & Hq).
        destruct (Forall2_nth_l _ _ _ _ _ HFc Hq) as (y & _ & (ec & Hnc & _)). exists ec. split; auto.
        eapply (no_lvl _ _ _ _ _ Hok); eauto. }
      rewrite Hrun1. cbn [rbind].
      assert (HP1 := tr_pre _ _ _ _ _ _ _ _ _ Htr1).
      assert (Hg1 : get st1 i = Some n) by (eapply (tr_lframe _ _ _ _ _ _ _ _ _ Htr1); eauto).
      assert (Hn1 : nth_error G1 i = Some e) by (eapply prefix_nth; eauto).
      exists st1, G1. split; [reflexivity|]. split; [eapply trans_lframe_le; [|exact Htr1]; lia|].
      destruct (fins_all _ _ _ _ _ Hfin1) as (h & Hh). exists (S h), n. split; [exact Hg1|]. split; [|exact Hh].
      destruct (wf_entry _ _ _ _ _ _ _ (tr_wf _ _ _ _ _ _ _ _ _ Htr1) Hg1) as (e' & He' & Hok').
      assert (e' = e) by congruence. subst e'. apply (full_if_no_inh G1 i e n Hok' Hn1).
      rewrite Etk. reflexivity.
    - (* a scalar *)
      exists st, G. split; [reflexivity|]. split; [apply trans_refl; auto|].
      exists 1, n. split; [exact Hg|]. split.
      + apply (full_if_no_inh G i e n Hok Hn). rewrite Etk. reflexivity.
      + assert (Hnil : rkids x = []) by (apply rtree_ok_other_kids; congruence).
        rewrite Hnil in Hs. destruct pre; [|discriminate]. simpl in Hs. subst s. inversion HFc. constructor.
  Qed.

  Theorem visit_level : forall d, visit_ok d.
  Proof. intros d. induction d as [d IH] using lt_wf_ind. apply visit_step. exact IH. Qed.

  (* a visit from ProcessAllOf: any node, with all the fuel of the run *)
  Corollary visit_top u i G st fuel e :
    WF G st -> nth_error G i = Some e -> memoinv D G st -> D <= fuel ->
    exists st' G', process ts u fuel st i = ROk st' /\ trans D D G st G' st' /\ fins G' st' i.
  Proof.
    intros Hw Hn Hm Hfuel.
    apply (visit_below D (fun d' _ => visit_level d') u i G st fuel e); auto.
    destruct (wf_get _ _ _ _ _ _ _ Hw Hn) as (n & _ & Hok).
    destruct (no_kids _ _ _ _ _ Hok) as (x & _ & _ & Hx & _).
    destruct (tg_spd _ _ _ _ Hx) as (y & Hy & _). congruence.
  Qed.
End Process.
