(* C18: banned directive kinds in the core model (model/Core.v).
   - no directive of a banned kind is ever created, so none survives the scan;
   - a keyword of a banned kind ends the scan with 'not allowed' at that keyword, once the directive
     read before it has been placed (also before a banned INCLUDE: a misplaced directive is diagnosed
     first);
   - with INCLUDE banned the scan does not depend on the file system at all;
   - a scan that is not refused as 'not allowed' is the scan without the option, and the
     option only matters where the run without it meets a keyword of a banned kind.
   The scanner (sc_next) is treated as given: any lexemes, any jsc_len / enum_len. *)
From Coq Require Import List NArith Bool String Lia.
From JV.lib Require Import Bytes Paths.
From JV.gen Require Import DirectiveTables ScannerTable IncludeName.
From JV.model Require Import ScannerSem Params Description Jerr Core.
From JV.proofs Require Import BytesLemmas IncludeProofs.
Import ListNotations.
Open Scope N_scope.

(* ---- all directives of a tree / of a state ---- *)

Fixpoint tree_dirs (t : dtree) : list directive :=
  match t with DNode d k => d :: flat_map tree_dirs k end.
Definition forest_dirs (ts : list dtree) : list directive := flat_map tree_dirs ts.

Inductive tree_all (P : directive -> Prop) : dtree -> Prop :=
| tree_all_node d k : P d -> Forall (tree_all P) k -> tree_all P (DNode d k).

Definition frames_all (P : directive -> Prop) (fr : list (directive * list dtree)) : Prop :=
  Forall (fun x => P (fst x) /\ Forall (tree_all P) (snd x)) fr.

(* every directive the state holds: the pending one, the open context, the finished trees *)
Definition state_all (P : directive -> Prop) (s : cstate) : Prop :=
  (forall d, cs_cur s = Some d -> P d) /\ frames_all P (cs_frames s) /\ Forall (tree_all P) (cs_roots s).

Definition state_dirs (s : cstate) : list directive :=
  (match cs_cur s with Some d => [d] | None => [] end) ++
  flat_map (fun x => fst x :: forest_dirs (snd x)) (cs_frames s) ++
  forest_dirs (cs_roots s).

Lemma dtree_ind' (Q : dtree -> Prop) :
  (forall d k, Forall Q k -> Q (DNode d k)) -> forall t, Q t.
Proof.
  intros H. fix IH 1. intros [d k]. apply H.
  induction k as [|x r IHr]; constructor; [apply IH|exact IHr].
Qed.

Lemma forest_all_dirs P ts :
  Forall (fun t => tree_all P t <-> Forall P (tree_dirs t)) ts ->
  (Forall (tree_all P) ts <-> Forall P (forest_dirs ts)).
Proof.
  induction 1 as [|t r Ht _ IH]; simpl.
  - split; constructor.
  - rewrite Forall_app. split.
    + intros H; inversion H; subst. split; [apply Ht; assumption|apply IH; assumption].
    + intros [H1 H2]. constructor; [apply Ht; assumption|apply IH; assumption].
Qed.

Lemma tree_all_dirs P t : tree_all P t <-> Forall P (tree_dirs t).
Proof.
  induction t as [d k IH] using dtree_ind'. simpl.
  pose proof (forest_all_dirs P k IH) as Hk. unfold forest_dirs in Hk.
  split.
  - intros H; inversion H; subst. constructor; [assumption|apply Hk; assumption].
  - intros H; inversion H; subst. constructor; [assumption|apply Hk; assumption].
Qed.

Lemma forest_all_dirs' P ts : Forall (tree_all P) ts <-> Forall P (forest_dirs ts).
Proof. apply forest_all_dirs. apply Forall_forall. intros t _. apply tree_all_dirs. Qed.

Lemma state_all_dirs P s : state_all P s <-> Forall P (state_dirs s).
Proof.
  unfold state_all, state_dirs. rewrite !Forall_app, <- forest_all_dirs'.
  assert (Hfr : frames_all P (cs_frames s) <->
                Forall P (flat_map (fun x => fst x :: forest_dirs (snd x)) (cs_frames s))).
  { unfold frames_all. induction (cs_frames s) as [|[d k] r IH]; simpl.
    - split; constructor.
    - split.
      + intros H; inversion H as [|? ? [H1 H2] H3]; subst. simpl in *.
        constructor; [exact H1|]. apply Forall_app.
        split; [apply forest_all_dirs'; exact H2|apply IH; exact H3].
      + intros H. inversion H as [|? ? H1 H23]; subst. apply Forall_app in H23. destruct H23 as [H2 H3].
        constructor; [split; [exact H1|apply forest_all_dirs'; exact H2]|apply IH; exact H3]. }
  rewrite <- Hfr. split.
  - intros [Hc [Hf Hr]]. repeat split; try assumption.
    destruct (cs_cur s) as [d|]; constructor; [apply Hc; reflexivity|constructor].
  - intros [Hc [Hf Hr]]. repeat split; try assumption.
    intros d Hd. rewrite Hd in Hc. inversion Hc; assumption.
Qed.

(* ---- the context zipper only moves directives around ---- *)

Section Zipper.
  Variable P : directive -> Prop.

  Lemma close_frame_all fr rt :
    frames_all P fr -> Forall (tree_all P) rt ->
    frames_all P (fst (close_frame fr rt)) /\ Forall (tree_all P) (snd (close_frame fr rt)).
  Proof.
    intros Hf Hr. destruct fr as [|[d kids] rest]; simpl; [split; assumption|].
    inversion Hf as [|? ? [Hd Hk] Hrest]; subst. simpl in *.
    assert (Ht : tree_all P (DNode d (rev kids))) by (constructor; [exact Hd|apply Forall_rev; exact Hk]).
    destruct rest as [|[pd pk] rest']; simpl.
    - split; [constructor|constructor; assumption].
    - inversion Hrest as [|? ? [Hpd Hpk] Hrest']; subst. simpl in *.
      split; [|exact Hr]. constructor; [|exact Hrest']. simpl. split; [exact Hpd|constructor; assumption].
  Qed.

  Lemma close_all_all n : forall fr rt,
    frames_all P fr -> Forall (tree_all P) rt -> Forall (tree_all P) (close_all n fr rt).
  Proof.
    induction n as [|n IH]; intros fr rt Hf Hr; simpl; [exact Hr|].
    destruct fr as [|x r] eqn:E; [exact Hr|]. rewrite <- E in *.
    destruct (close_frame_all fr rt Hf Hr) as [H1 H2].
    destruct (close_frame fr rt) as [fr' rt']. apply IH; assumption.
  Qed.

  Lemma process_context_all fuel : forall d fr rt r,
    P d -> frames_all P fr -> Forall (tree_all P) rt ->
    process_context fuel d fr rt = COk r ->
    frames_all P (fst r) /\ Forall (tree_all P) (snd r).
  Proof.
    induction fuel as [|f IH]; intros d fr rt r Hd Hf Hr; [discriminate|].
    assert (Hnew : P (fst (d, @nil dtree)) /\ Forall (tree_all P) (snd (d, @nil dtree)))
      by (split; [exact Hd|constructor]).
    cbn [process_context]. destruct fr as [|[cd kids] rest] eqn:E.
    - destruct (root_allowed (d_kind d)); [|discriminate].
      intros H; inversion H; subst; simpl. split; [constructor; [exact Hnew|constructor]|exact Hr].
    - rewrite <- E in *.
      destruct (ctx_allowed (d_kind cd) (d_kind d)).
      + destruct (is_http_method (d_kind d) && negb (beq (named d (bs "Path")) []) && kind_eqb (d_kind cd) KURL).
        * destruct (existsb (fun x => d_explicit (fst x)) fr); [discriminate|].
          intros H; inversion H; subst; cbn [fst snd].
          split; [apply Forall_cons; [exact Hnew|apply Forall_nil]|apply close_all_all; assumption].
        * intros H; inversion H; subst; simpl. split; [constructor; assumption|exact Hr].
      + destruct (d_explicit cd); [discriminate|].
        destruct (close_frame_all fr rt Hf Hr) as [H1 H2].
        destruct (close_frame fr rt) as [fr' rt']. apply IH; assumption.
  Qed.

  Lemma flush_cur_all s s1 : state_all P s -> flush_cur s = COk s1 -> state_all P s1.
  Proof.
    intros [Hc [Hf Hr]]. unfold flush_cur. destruct (cs_cur s) as [d|] eqn:Ec.
    - destruct (process_context _ d _ _) as [r| | |] eqn:Hp; cbn [cbind]; try discriminate.
      intros H; inversion H; subst; clear H.
      destruct (process_context_all _ _ _ _ _ (Hc d eq_refl) Hf Hr Hp) as [H1 H2].
      split; [intros d' Hd'; discriminate|]. split; assumption.
    - intros H; inversion H; subst. split; [intros d Hd; congruence|split; assumption].
  Qed.

  Lemma close_explicit_all fuel : forall fr rt r,
    frames_all P fr -> Forall (tree_all P) rt -> close_explicit fuel fr rt = Some r ->
    frames_all P (fst r) /\ Forall (tree_all P) (snd r).
  Proof.
    induction fuel as [|f IH]; intros fr rt r Hf Hr; [discriminate|].
    cbn [close_explicit]. destruct fr as [|[d k] rest] eqn:E; [discriminate|]. rewrite <- E in *.
    destruct (close_frame_all fr rt Hf Hr) as [H1 H2].
    destruct (close_frame fr rt) as [fr' rt']. simpl in H1, H2.
    destruct (d_explicit d).
    - intros H; inversion H; subst; split; assumption.
    - apply IH; assumption.
  Qed.
End Zipper.

(* ---- a step keeps a predicate that only looks at the kind and holds of every kind that is
        not banned ---- *)

Section Ban.
  Variable jsc_len enum_len : bytes -> len_result.
  Variable files : fsys.
  Variable banned : list kind.

  Local Notation sc_next := (Core.sc_next jsc_len enum_len).
  Local Notation process_include := (Core.process_include jsc_len enum_len files banned).
  Local Notation process_keyword := (Core.process_keyword banned).
  Local Notation process_lexeme := (Core.process_lexeme jsc_len enum_len files banned).
  Local Notation scan_project := (Core.scan_project jsc_len enum_len files banned).

  Definition not_banned (d : directive) : Prop := kind_in (d_kind d) banned = false.

  Lemma upd_cur_all s d :
    state_all not_banned s -> not_banned d -> state_all not_banned (upd_cur s (Some d)).
  Proof.
    intros [_ [Hf Hr]] Hd. split; [|split; assumption].
    simpl. intros d' H; inversion H; subst; exact Hd.
  Qed.

  Lemma process_keyword_all s l kw s' :
    state_all not_banned s -> process_keyword s l kw = COk s' -> state_all not_banned s'.
  Proof.
    intros Hs. unfold Core.process_keyword.
    destruct (flush_cur s) as [s1| | |] eqn:H1; cbn [cbind]; try discriminate.
    pose proof (flush_cur_all _ _ _ Hs H1) as Hs1.
    destruct (_ && _); [discriminate|].
    destruct (directive_type kw) as [k|]; [|discriminate].
    destruct (kind_in k banned) eqn:Hb; [discriminate|].
    destruct (directive_tracer s1) as [tr cache].
    intros H; inversion H; subst; clear H.
    destruct Hs1 as [_ [Hf Hr]]. split; [|split; assumption].
    simpl. intros d' H; inversion H; subst. exact Hb.
  Qed.

  Lemma process_include_all s l s' :
    state_all not_banned s -> process_include s l = COk s' -> state_all not_banned s'.
  Proof.
    intros Hs H. apply process_include_ok_inv in H.
    destruct H as [x1 [path [content [_ [_ [_ [_ [_ ->]]]]]]]]. exact Hs.
  Qed.

  Lemma process_parameter_all s l s' :
    state_all not_banned s -> process_parameter s l = COk s' -> state_all not_banned s'.
  Proof.
    intros Hs. pose proof Hs as [Hc _]. unfold process_parameter.
    destruct (cs_cur s) as [d|] eqn:Ec; [|discriminate].
    destruct (value_of (cs_sc s) l) as [v| | |]; cbn [cbind]; try discriminate.
    destruct (append_parameter (d_kind d) v) as [k x|x|]; try discriminate.
    - destruct (has_named d k); [discriminate|]. intros H; inversion H; subst.
      apply upd_cur_all; [exact Hs|]. exact (Hc d eq_refl).
    - intros H; inversion H; subst. apply upd_cur_all; [exact Hs|]. exact (Hc d eq_refl).
  Qed.

  Lemma process_lexeme_all s l s' :
    state_all not_banned s -> process_lexeme s l = COk s' -> state_all not_banned s'.
  Proof.
    intros Hs. pose proof Hs as [Hc _]. unfold Core.process_lexeme.
    destruct (lexkind_eqb (lk l) LKeyword).
    - destruct (value_of (cs_sc s) l) as [kw| | |]; cbn [cbind]; try discriminate.
      destruct (beq kw (kind_keyword KInclude)).
      + destruct (flush_cur s) as [s0| | |] eqn:H0; cbn [cbind]; try discriminate.
        apply process_include_all. exact (flush_cur_all _ _ _ Hs H0).
      + apply process_keyword_all; exact Hs.
    - destruct (lexkind_eqb (lk l) LContextExplicitClosing).
      + destruct (flush_cur s) as [s1| | |] eqn:H1; cbn [cbind]; try discriminate.
        pose proof (flush_cur_all _ _ _ Hs H1) as [Hc1 [Hf1 Hr1]].
        destruct (close_explicit _ _ _) as [r|] eqn:Hce; [|discriminate].
        destruct (close_explicit_all _ _ _ _ _ Hf1 Hr1 Hce) as [H2 H3].
        intros H; inversion H; subst. split; [exact Hc1|split; assumption].
      + destruct (cs_cur s) as [d|] eqn:Ec; [|discriminate].
        pose proof (Hc d eq_refl) as Hd.
        destruct (lexkind_eqb (lk l) LParameter); [apply process_parameter_all; exact Hs|].
        destruct (lexkind_eqb (lk l) LAnnotation).
        { destruct (value_of (cs_sc s) l); cbn [cbind]; try discriminate.
          intros H; inversion H; subst. apply upd_cur_all; [exact Hs|exact Hd]. }
        destruct (_ || _).
        { intros H; inversion H; subst. apply upd_cur_all; [exact Hs|exact Hd]. }
        destruct (lexkind_eqb (lk l) LContextExplicitOpening); [|discriminate].
        intros H; inversion H; subst. apply upd_cur_all; [exact Hs|exact Hd].
  Qed.

  Lemma scan_step_all s s' :
    state_all not_banned s -> scan_step jsc_len enum_len files banned s s' -> state_all not_banned s'.
  Proof.
    intros Hs H. destruct H as [x1 l s' Hn Hp | x1 s1 x at_ rest Hn Hf Hu Hst].
    - eapply process_lexeme_all; [|exact Hp]. exact Hs.
    - pose proof (flush_cur_all not_banned (upd_sc s x1) s1 Hs Hf) as Hs1. exact Hs1.
  Qed.

  (* C18: a banned kind can never survive the scan *)
  Theorem ban_no_banned_directive_state fuel s s' :
    scan_project fuel s = COk s' ->
    (forall d, In d (state_dirs s) -> kind_in (d_kind d) banned = false) ->
    (forall d, In d (state_dirs s') -> kind_in (d_kind d) banned = false).
  Proof.
    intros Hr H0. apply Forall_forall. apply state_all_dirs.
    apply (scan_project_invariant jsc_len enum_len files banned (state_all not_banned)) with (fuel := fuel) (s := s).
    - intros a b Ha Hstep. eapply scan_step_all; eassumption.
    - intros a x1 s1 Ha _ Hf. exact (flush_cur_all not_banned (upd_sc a x1) s1 Ha Hf).
    - apply state_all_dirs. apply Forall_forall. exact H0.
    - exact Hr.
  Qed.

  Lemma forest_of_all s : state_all not_banned s -> Forall (tree_all not_banned) (forest_of s).
  Proof.
    intros [_ [Hf Hr]]. unfold forest_of. apply Forall_rev. apply close_all_all; assumption.
  Qed.

  Theorem ban_no_banned_directive_forest root f :
    scan_forest jsc_len enum_len files banned root = COk f ->
    forall d, In d (forest_dirs f) -> kind_in (d_kind d) banned = false.
  Proof.
    unfold scan_forest. destruct (fs_stat files root) as [[content|]|]; try discriminate.
    destruct (Core.scan_project _ _ _ _ _ _) as [s| | |] eqn:Hr; cbn [cbind]; try discriminate.
    intros H; inversion H; subst; clear H.
    apply Forall_forall. apply forest_all_dirs'. apply forest_of_all.
    apply state_all_dirs. apply Forall_forall.
    eapply ban_no_banned_directive_state; [exact Hr|]. simpl. intros d [].
  Qed.

  (* ---- the diagnostic ---- *)

  Definition ban_error (s : cstate) (l : lexeme) (k : kind) : cerr :=
    {| ce_file := sc_file (cs_sc s); ce_idx := lb l; ce_kind := CENotAllowed k; ce_trace := stack_trace (cs_stack s) |}.

  (* processKeyword / setCurrentDirective: once the pending directive has found its place and
     the keyword is not a JSIGHT inside an included file, a banned kind is refused there *)
  Lemma ban_keyword_rejected s l kw k s1 :
    flush_cur s = COk s1 ->
    (cs_stack s = [] \/ beq kw (kind_keyword KJsight) = false) ->
    directive_type kw = Some k -> kind_in k banned = true ->
    process_keyword s l kw = CErr (ban_error s l k).
  Proof.
    intros H1 Hj Hk Hb. unfold Core.process_keyword. rewrite H1. cbn [cbind].
    destruct (flush_cur_keeps _ _ H1) as [Hsc [Hst _]].
    assert (Hc : negb (match cs_stack s1 with [] => true | _ => false end) && beq kw (kind_keyword KJsight) = false).
    { rewrite Hst. destruct Hj as [->| ->]; [reflexivity|apply andb_false_r]. }
    rewrite Hc, Hk, Hb. unfold scan_err, ban_error. rewrite Hsc, Hst. reflexivity.
  Qed.

  (* whatever else is wrong, a keyword of a banned kind is never accepted *)
  Lemma ban_keyword_never_accepted s l kw k :
    directive_type kw = Some k -> kind_in k banned = true ->
    exists e, process_keyword s l kw = CErr e /\
      (flush_cur s = CErr e \/ ce_kind e = CEJsightInInclude \/ e = ban_error s l k).
  Proof.
    intros Hk Hb. unfold Core.process_keyword.
    destruct (flush_cur_total s) as [[s1 H1]|[e H1]]; rewrite H1; cbn [cbind].
    - destruct (flush_cur_keeps _ _ H1) as [Hsc [Hst _]].
      destruct (_ && _).
      + eexists; split; [reflexivity|]. right; left; reflexivity.
      + rewrite Hk, Hb. eexists; split; [reflexivity|]. right; right.
        unfold scan_err, ban_error. rewrite Hsc, Hst. reflexivity.
    - exists e; split; [reflexivity|left; reflexivity].
  Qed.

  (* processInclude: the ban is the first thing looked at (the directive read before the INCLUDE has
     been placed by then: drainCurrentScanner calls processCurrentDirective first) *)
  Lemma ban_include_rejected s l :
    kind_in KInclude banned = true -> process_include s l = CErr (ban_error s l KInclude).
  Proof. intros Hb. unfold Core.process_include. rewrite Hb. reflexivity. Qed.

  Lemma ban_error_flush s s1 l k : flush_cur s = COk s1 -> ban_error s1 l k = ban_error s l k.
  Proof.
    intros H. destruct (flush_cur_keeps _ _ H) as [Hsc [Hst _]]. unfold ban_error. rewrite Hsc, Hst. reflexivity.
  Qed.

  (* at the lexeme level: an INCLUDE keyword while INCLUDE is banned, the pending directive placeable *)
  Lemma ban_include_lexeme_rejected s l s1 :
    lexkind_eqb (lk l) LKeyword = true -> value_of (cs_sc s) l = COk (kind_keyword KInclude) ->
    flush_cur s = COk s1 -> kind_in KInclude banned = true ->
    process_lexeme s l = CErr (ban_error s l KInclude).
  Proof.
    intros Hlk Hv H1 Hb. unfold Core.process_lexeme. rewrite Hlk, Hv. cbn [cbind]. rewrite beq_refl, H1. cbn [cbind].
    rewrite ban_include_rejected by exact Hb. rewrite (ban_error_flush _ _ _ _ H1). reflexivity.
  Qed.

  Lemma ban_error_passes {A} s x1 ol l k :
    sc_next (cs_sc s) = Ok (x1, ol) ->
    with_scan_trace (A:=A) s (CErr (ban_error (upd_sc s x1) l k)) = CErr (ban_error s l k).
  Proof.
    intros Hn. destruct (sc_next_same_file _ _ _ _ _ Hn) as [Hf _].
    unfold with_scan_trace, ban_error; simpl. rewrite Hf. destruct (stack_trace (cs_stack s)); reflexivity.
  Qed.

  (* the next lexeme is a keyword that names kind k *)
  Definition next_keyword (s : cstate) (x1 : scn) (l : lexeme) (kw : bytes) (k : kind) : Prop :=
    sc_next (cs_sc s) = Ok (x1, Some l) /\ lexkind_eqb (lk l) LKeyword = true /\
    value_of x1 l = COk kw /\ directive_type kw = Some k.

  Lemma include_keyword_kind kw : beq kw (kind_keyword KInclude) = true -> directive_type kw = Some KInclude.
  Proof. intros H. apply beq_eq in H. subst kw. reflexivity. Qed.

  Lemma directive_type_keyword kw k :
    directive_type kw = Some k -> k <> KHTTPResponseCode -> kw = kind_keyword k.
  Proof.
    unfold directive_type. intros H Hne.
    destruct (find _ all_kinds) as [k'|] eqn:Hfind.
    - inversion H; subst k'. apply find_some in Hfind. destruct Hfind as [_ Hfind].
      apply andb_true_iff in Hfind. destruct Hfind as [_ Hfind].
      apply beq_eq in Hfind. symmetry; exact Hfind.
    - destruct (is_response_code kw); [|discriminate]. inversion H; subst k. congruence.
  Qed.

  (* C18: at a keyword of a banned kind the scan ends, with 'not allowed' located at that keyword
     in the file being read (and the include trace of that file); nothing after it is processed *)
  Theorem ban_diagnostic_at_first_lemma fuel s x1 l kw k :
    next_keyword s x1 l kw k -> kind_in k banned = true ->
    (* the directive read just before has a place (otherwise ITS error is reported, at its keyword:
       ban_after_misplaced_directive); since the repair of /repo c51680e this is asked of INCLUDE too *)
    (exists s1, flush_cur (upd_sc s x1) = COk s1) ->
    (* JSIGHT inside an included file is refused as such *)
    (cs_stack s = [] \/ k <> KJsight) ->
    scan_project (S fuel) s = CErr (ban_error s l k).
  Proof.
    intros [Hn [Hlk [Hv Hk]]] Hb [s1 H1] Hj. rewrite scan_project_S, Hn.
    unfold Core.process_lexeme. simpl cs_sc. rewrite Hlk, Hv. cbn [cbind].
    destruct (beq kw (kind_keyword KInclude)) eqn:Hi.
    - rewrite (include_keyword_kind _ Hi) in Hk. inversion Hk; subst k.
      rewrite H1. cbn [cbind].
      rewrite ban_include_rejected by exact Hb. rewrite (ban_error_flush _ _ _ _ H1).
      rewrite (ban_error_passes _ _ _ _ _ Hn). reflexivity.
    - erewrite ban_keyword_rejected; try eassumption.
      + rewrite (ban_error_passes _ _ _ _ _ Hn). reflexivity.
      + destruct Hj as [Hj|Hj]; [left; exact Hj|right].
        destruct (beq kw (kind_keyword KJsight)) eqn:Hjs; [|reflexivity].
        apply beq_eq in Hjs. subst kw. exfalso. apply Hj. vm_compute in Hk. congruence.
  Qed.

  (* ... and when the directive read just before has no place, ITS diagnostic ends the scan: the
     keyword of the banned kind (INCLUDE as well) is not looked at *)
  Theorem ban_after_misplaced_directive fuel s x1 l kw k e :
    next_keyword s x1 l kw k -> flush_cur (upd_sc s x1) = CErr e ->
    scan_project (S fuel) s = with_scan_trace s (CErr e).
  Proof.
    intros [Hn [Hlk [Hv Hk]]] H1. rewrite scan_project_S, Hn.
    unfold Core.process_lexeme. simpl cs_sc. rewrite Hlk, Hv. cbn [cbind].
    destruct (beq kw (kind_keyword KInclude)).
    - rewrite H1. cbn [cbind]. unfold with_scan_trace. destruct (ce_trace e); reflexivity.
    - unfold Core.process_keyword. rewrite H1. cbn [cbind]. unfold with_scan_trace. destruct (ce_trace e); reflexivity.
  Qed.

  (* without side conditions: a keyword of a banned kind always ends the scan with an error *)
  Theorem ban_never_passes fuel s x1 l kw k s' :
    next_keyword s x1 l kw k -> kind_in k banned = true -> scan_project (S fuel) s <> COk s'.
  Proof.
    intros [Hn [Hlk [Hv Hk]]] Hb. rewrite scan_project_S, Hn.
    unfold Core.process_lexeme. simpl cs_sc. rewrite Hlk, Hv. cbn [cbind].
    destruct (beq kw (kind_keyword KInclude)) eqn:Hi.
    - rewrite (include_keyword_kind _ Hi) in Hk. inversion Hk; subst k.
      destruct (flush_cur (upd_sc s x1)) as [s0|e0|w|]; cbn [cbind]; try discriminate.
      + rewrite ban_include_rejected by exact Hb. simpl. destruct (stack_trace _); discriminate.
      + simpl. destruct (ce_trace e0); discriminate.
    - destruct (ban_keyword_never_accepted (upd_sc s x1) l kw k Hk Hb) as [e [He _]]. rewrite He.
      simpl. destruct (ce_trace e); discriminate.
  Qed.
End Ban.

(* ---- INCLUDE banned: the file system is never consulted ---- *)

Section Reads.
  Variable jsc_len enum_len : bytes -> len_result.
  Variable banned : list kind.
  Hypothesis Hinc : kind_in KInclude banned = true.

  Lemma process_lexeme_no_fs files files' s l :
    Core.process_lexeme jsc_len enum_len files banned s l = Core.process_lexeme jsc_len enum_len files' banned s l.
  Proof.
    unfold Core.process_lexeme, Core.process_include. rewrite Hinc. reflexivity.
  Qed.

  Theorem include_banned_reads_nothing_lemma files files' fuel : forall s,
    Core.scan_project jsc_len enum_len files banned fuel s = Core.scan_project jsc_len enum_len files' banned fuel s.
  Proof.
    induction fuel as [|f IH]; intros s; [reflexivity|].
    rewrite !scan_project_S.
    destruct (Core.sc_next jsc_len enum_len (cs_sc s)) as [[x1 [l|]]| | |]; try reflexivity.
    - rewrite (process_lexeme_no_fs files files').
      destruct (with_scan_trace s _) as [s'| | |]; cbn [cbind]; try reflexivity. apply IH.
    - destruct (with_scan_trace s _) as [s1| | |]; cbn [cbind]; try reflexivity.
      destruct (has_unclosed_explicit _); [reflexivity|].
      destruct (cs_stack s1) as [|[x a] rest]; [reflexivity|]. apply IH.
  Qed.

  (* no scanner is ever suspended: the stack of every state of the run is the one it started with *)
  Lemma process_lexeme_no_push files s l s' :
    Core.process_lexeme jsc_len enum_len files banned s l = COk s' ->
    cs_stack s' = cs_stack s /\ cs_sc s' = cs_sc s.
  Proof.
    intros H. apply process_lexeme_stack in H. destruct H as [[H1 H2]|[kw [s0 [_ [_ [_ [_ H]]]]]]]; [split; assumption|].
    unfold Core.process_include in H. rewrite Hinc in H. discriminate.
  Qed.

  Theorem include_banned_stack_empty_lemma files s s' :
    cs_stack s = [] -> scan_reach jsc_len enum_len files banned s s' ->
    cs_stack s' = [] /\ sc_file (cs_sc s') = sc_file (cs_sc s).
  Proof.
    intros H0 H. induction H as [|s1 s2 _ IH Hstep]; [split; [exact H0|reflexivity]|].
    destruct IH as [IH1 IH2].
    destruct Hstep as [x1 l s2 Hn Hp | x1 s3 x at_ rest Hn Hf Hu Hst].
    - apply process_lexeme_no_push in Hp. destruct Hp as [Hp1 Hp2]. simpl in *.
      destruct (sc_next_same_file _ _ _ _ _ Hn) as [Hfile _].
      rewrite Hp1, Hp2. simpl. split; [exact IH1|congruence].
    - destruct (flush_cur_keeps _ _ Hf) as [_ [Hst1 _]]. simpl in Hst1. congruence.
  Qed.
End Reads.

(* ---- conservativity ---- *)

Section Conservative.
  Variable jsc_len enum_len : bytes -> len_result.
  Variable files : fsys.
  Variable banned : list kind.

  Definition not_allowed_error (r : cres cstate) : Prop :=
    exists e k, r = CErr e /\ ce_kind e = CENotAllowed k.

  Lemma kind_in_nil k : kind_in k [] = false.
  Proof. reflexivity. Qed.

  (* the option changes the outcome of a lexeme only by refusing a keyword of a banned kind *)
  Lemma process_lexeme_ban_cases s l :
    Core.process_lexeme jsc_len enum_len files banned s l = Core.process_lexeme jsc_len enum_len files [] s l \/
    (exists kw k, lexkind_eqb (lk l) LKeyword = true /\ value_of (cs_sc s) l = COk kw /\
                  directive_type kw = Some k /\ kind_in k banned = true /\
                  Core.process_lexeme jsc_len enum_len files banned s l =
                    CErr {| ce_file := sc_file (cs_sc s); ce_idx := lb l; ce_kind := CENotAllowed k;
                            ce_trace := stack_trace (cs_stack s) |}).
  Proof.
    unfold Core.process_lexeme.
    destruct (lexkind_eqb (lk l) LKeyword) eqn:Hlk; [|left; reflexivity].
    destruct (value_of (cs_sc s) l) as [kw| | |] eqn:Hv; cbn [cbind]; try (left; reflexivity).
    destruct (beq kw (kind_keyword KInclude)) eqn:Hi.
    - destruct (flush_cur s) as [s0| | |] eqn:H0; cbn [cbind]; try (left; reflexivity).
      destruct (flush_cur_keeps _ _ H0) as [Hsc0 [Hst0 _]].
      unfold Core.process_include. rewrite kind_in_nil.
      destruct (kind_in KInclude banned) eqn:Hb; [|left; reflexivity].
      right. exists kw, KInclude.
      split; [reflexivity|]. split; [first [exact Hv|reflexivity]|]. split; [apply include_keyword_kind; exact Hi|]. split; [first [exact Hb|reflexivity]|].
      unfold scan_err. rewrite Hsc0, Hst0. reflexivity.
    - unfold Core.process_keyword.
      destruct (flush_cur s) as [s1| | |] eqn:H1; cbn [cbind]; try (left; reflexivity).
      destruct (flush_cur_keeps _ _ H1) as [Hsc [Hst _]].
      destruct (_ && _); [left; reflexivity|].
      destruct (directive_type kw) as [k|] eqn:Hk; [|left; reflexivity].
      rewrite kind_in_nil.
      destruct (kind_in k banned) eqn:Hb; [|left; reflexivity].
      right. exists kw, k. repeat split; try assumption.
      unfold scan_err. rewrite Hsc, Hst. reflexivity.
  Qed.

  (* the run without the option meets a keyword of a banned kind *)
  Definition meets_banned (s : cstate) : Prop :=
    exists s0 x1 l kw k, scan_reach jsc_len enum_len files [] s s0 /\
                         next_keyword jsc_len enum_len s0 x1 l kw k /\ kind_in k banned = true.

  Lemma meets_banned_step s s' :
    scan_step jsc_len enum_len files [] s s' -> meets_banned s' -> meets_banned s.
  Proof.
    intros Hs [s0 [x1 [l [kw [k [Hre H]]]]]]. exists s0, x1, l, kw, k. split; [|exact H].
    clear H. induction Hre; [eapply reach_step; [apply reach_refl|exact Hs]|].
    eapply reach_step; [apply IHHre; exact Hs|assumption].
  Qed.

  (* both directions at once: the two runs agree, or the run with the option is refused as
     'not allowed' and the run without it meets a keyword of a banned kind *)
  Lemma ban_cases fuel : forall s,
    Core.scan_project jsc_len enum_len files banned fuel s = Core.scan_project jsc_len enum_len files [] fuel s \/
    (not_allowed_error (Core.scan_project jsc_len enum_len files banned fuel s) /\ meets_banned s).
  Proof.
    induction fuel as [|f IH]; intros s; [left; reflexivity|].
    rewrite !scan_project_S.
    destruct (Core.sc_next jsc_len enum_len (cs_sc s)) as [[x1 [l|]]| | |] eqn:Hn; try (left; reflexivity).
    - destruct (process_lexeme_ban_cases (upd_sc s x1) l) as [Heq|[kw [k [Hlk [Hv [Hk [Hb Heq]]]]]]].
      + rewrite Heq.
        destruct (Core.process_lexeme jsc_len enum_len files [] (upd_sc s x1) l) as [s'|e|w|] eqn:Hp;
          try (left; reflexivity);
          [|left; unfold with_scan_trace; destruct (ce_trace e); reflexivity].
        cbn [with_scan_trace cbind].
        destruct (IH s') as [H|[H1 H2]]; [left; exact H|right]. split; [exact H1|].
        eapply meets_banned_step; [|exact H2]. eapply step_lexeme; eassumption.
      + right. rewrite Heq. split.
        * unfold with_scan_trace; simpl.
          destruct (stack_trace (cs_stack s)); cbn [cbind]; eexists; eexists; split; reflexivity.
        * exists s, x1, l, kw, k. split; [apply reach_refl|]. split; [|exact Hb].
          repeat split; assumption.
    - destruct (flush_cur (upd_sc s x1)) as [s1|e|w|] eqn:Hfl; try (left; reflexivity);
        [|left; unfold with_scan_trace; destruct (ce_trace e); reflexivity].
      cbn [with_scan_trace cbind].
      destruct (has_unclosed_explicit (cs_frames s1)) eqn:Hu; [left; reflexivity|].
      destruct (cs_stack s1) as [|[x a] rest] eqn:Hst; [left; reflexivity|].
      destruct (IH (upd_stack s1 x rest)) as [H|[H1 H2]]; [left; exact H|right]. split; [exact H1|].
      eapply meets_banned_step; [|exact H2].
      exact (step_pop jsc_len enum_len files [] s x1 s1 x a rest Hn Hfl Hu Hst).
  Qed.

  (* C18: a result that is not a 'not allowed' refusal is exactly the result without the option *)
  Theorem ban_conservative_lemma fuel s :
    (forall e k, Core.scan_project jsc_len enum_len files banned fuel s = CErr e -> ce_kind e <> CENotAllowed k) ->
    Core.scan_project jsc_len enum_len files banned fuel s = Core.scan_project jsc_len enum_len files [] fuel s.
  Proof.
    intros Hno. destruct (ban_cases fuel s) as [H|[[e [k [He Hk]]] _]]; [exact H|].
    exfalso. exact (Hno e k He Hk).
  Qed.

  (* ... and conversely: if the run without the option never comes to a keyword of a banned kind
     (no directive of a banned kind is created, no INCLUDE met while INCLUDE is banned), the option
     changes nothing *)
  Theorem ban_conservative_converse_lemma fuel s :
    ~ meets_banned s ->
    Core.scan_project jsc_len enum_len files banned fuel s = Core.scan_project jsc_len enum_len files [] fuel s.
  Proof.
    intros Hno. destruct (ban_cases fuel s) as [H|[_ Hm]]; [exact H|]. exfalso. exact (Hno Hm).
  Qed.

  (* the option is only ever felt as a 'not allowed' refusal *)
  Theorem ban_only_refuses_lemma fuel s :
    Core.scan_project jsc_len enum_len files banned fuel s <> Core.scan_project jsc_len enum_len files [] fuel s ->
    not_allowed_error (Core.scan_project jsc_len enum_len files banned fuel s) /\ meets_banned s.
  Proof.
    intros Hne. destruct (ban_cases fuel s) as [H|H]; [contradiction|exact H].
  Qed.
End Conservative.

(* ---- small projects, by computation ---- *)

Definition ex_ab : fsys :=
  [(bs "a.jst", FFile (ex_main "INCLUDE b.jst" ++ ex_line "TAG @x")); (bs "b.jst", FFile (ex_line "TAG @y"))].

(* a banned kind inside an included file: refused there, with the include trace *)
Example ex_ban_in_included :
  ex_err (scan_forest ex_len ex_len ex_ab [KTAG] (bs "a.jst")) =
  Some (bs "b.jst", 0, CENotAllowed KTAG, [(bs "a.jst", 11)]).
Proof. vm_compute. reflexivity. Qed.

(* INCLUDE banned: refused at the keyword, whatever the file system holds *)
Example ex_ban_include :
  ex_err (scan_forest ex_len ex_len ex_ab [KInclude] (bs "a.jst")) = Some (bs "a.jst", 11, CENotAllowed KInclude, []) /\
  ex_err (scan_forest ex_len ex_len [(bs "a.jst", FFile (ex_main "INCLUDE b.jst" ++ ex_line "TAG @x"))] [KInclude] (bs "a.jst"))
    = Some (bs "a.jst", 11, CENotAllowed KInclude, []) /\
  ex_err (scan_forest ex_len ex_len [(bs "a.jst", FFile (ex_main "INCLUDE ../../etc/passwd"))] [KInclude] (bs "a.jst"))
    = Some (bs "a.jst", 11, CENotAllowed KInclude, []).
Proof. vm_compute. repeat split. Qed.

(* a banned kind in the body of a macro that is never pasted *)
Example ex_ban_in_macro_body :
  ex_err (scan_forest ex_len ex_len
    [(bs "a.jst", FFile (ex_line "JSIGHT 0.3" ++ ex_line "MACRO @m" ++ ex_line "(" ++ ex_line "  INFO" ++ ex_line ")"))]
    [KInfo] (bs "a.jst")) = Some (bs "a.jst", 24, CENotAllowed KInfo, []).
Proof. vm_compute. reflexivity. Qed.

(* MACRO and PASTE themselves *)
Example ex_ban_macro_paste :
  let doc := ex_line "JSIGHT 0.3" ++ ex_line "MACRO @m" ++ ex_line "(" ++ ex_line "  INFO" ++ ex_line ")" ++ ex_line "PASTE @m" in
  ex_err (scan_forest ex_len ex_len [(bs "a.jst", FFile doc)] [KMacro] (bs "a.jst")) = Some (bs "a.jst", 11, CENotAllowed KMacro, []) /\
  ex_err (scan_forest ex_len ex_len [(bs "a.jst", FFile doc)] [KPaste] (bs "a.jst")) = Some (bs "a.jst", 31, CENotAllowed KPaste, []).
Proof. vm_compute. split; reflexivity. Qed.

(* a ban of kinds that do not occur changes nothing *)
Example ex_ban_absent :
  scan_forest ex_len ex_len ex_ab [KMacro; KPaste; KURL] (bs "a.jst") = scan_forest ex_len ex_len ex_ab [] (bs "a.jst") /\
  ex_kinds (scan_forest ex_len ex_len ex_ab [] (bs "a.jst")) = Some [KJsight; KTAG; KTAG].
Proof. vm_compute. split; reflexivity. Qed.
