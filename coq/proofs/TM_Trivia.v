(* Table metatheory, part 6: no byte is consumed outside a lexeme unless the skip specification allows
   it, for ANY table, typing and skip specification that pass table_ok and trivia_ok (TriviaCheck). *)
From Coq Require Import List NArith ZArith Bool String Lia.
From JV.lib Require Import Bytes.
From JV.gen Require Import ScannerTable.
From JV.model Require Import ScannerSem TableCheck TriviaCheck.
From JV.proofs Require Import TM_Basics TM_Stack TM_Events TM_Dispatch TM_Loop ScanTheorems.
Import ListNotations.
Open Scope N_scope.

Arguments evt_in : simpl never.
Arguments pair_ok : simpl never.

(* ---- the leaf reached by eval_tree, with what the path knows about the previous byte ---- *)
Definition prev_holds (pk : option N) (g : cfg) : Prop :=
  match pk with None => True | Some k => exists r, pre g = k :: r end.

Lemma eval_tree_leaf_prev data size t c g ax : forall pk,
  prev_holds pk g ->
  eval_tree data size t c g = Ok ax ->
  exists pk', In (pk', ax) (leaves_prev t c pk) /\ prev_holds pk' g.
Proof.
  induction t as [acts x | k a IHa b IHb]; intros pk Hp H.
  - simpl in H. injection H as <-. exists pk. split; [left; reflexivity | exact Hp].
  - cbn [eval_tree] in H.
    destruct (eval_cond data size k c g) as [v| | |] eqn:Ec; cbn [obind] in H; try discriminate.
    destruct k as [l| | | | |k0]; cbn [leaves_prev].
    + simpl in Ec. injection Ec as <-. destruct (in_set l c); [apply IHa | apply IHb]; assumption.
    + destruct v; [destruct (IHa pk Hp H) as (q & A & B) | destruct (IHb pk Hp H) as (q & A & B)];
        exists q; (split; [apply in_or_app; auto | exact B]).
    + destruct v; [destruct (IHa pk Hp H) as (q & A & B) | destruct (IHb pk Hp H) as (q & A & B)];
        exists q; (split; [apply in_or_app; auto | exact B]).
    + destruct v; [destruct (IHa pk Hp H) as (q & A & B) | destruct (IHb pk Hp H) as (q & A & B)];
        exists q; (split; [apply in_or_app; auto | exact B]).
    + destruct v; [destruct (IHa pk Hp H) as (q & A & B) | destruct (IHb pk Hp H) as (q & A & B)];
        exists q; (split; [apply in_or_app; auto | exact B]).
    + simpl in Ec. destruct (pre g) as [|b0 r] eqn:Ep; [discriminate|].
      destruct (size <? pos g); [discriminate|]. injection Ec as <-.
      destruct (b0 =? k0) eqn:Eb.
      * apply N.eqb_eq in Eb. subst b0.
        assert (Hp' : prev_holds (Some k0) g) by (simpl; exists r; exact Ep).
        destruct (IHa (Some k0) Hp' H) as (q & A & B). exists q. split; [apply in_or_app; auto | exact B].
      * destruct (IHb pk Hp H) as (q & A & B). exists q. split; [apply in_or_app; auto | exact B].
Qed.

(* ---- the read position as a zipper over THE data ---- *)
Section ZipData.
  Variable data : bytes.

  Definition byte_at (p : N) : N := nth (N.to_nat p) data 0.

  Definition ZD (g : cfg) : Prop :=
    rev (pre g) ++ rest g = data /\ N.of_nat (List.length (pre g)) = pos g.

  Lemma ZD_len g : ZD g -> N.of_nat (List.length (rest g)) + pos g = N.of_nat (List.length data).
  Proof. intros [H1 H2]. rewrite <- H1, app_length, rev_length. lia. Qed.

  Lemma ZD_byte g c r : ZD g -> rest g = c :: r -> byte_at (pos g) = c.
  Proof.
    intros [H1 H2] Hr. unfold byte_at. rewrite <- H1, Hr, <- H2, Nat2N.id.
    rewrite app_nth2; rewrite rev_length; [|lia]. rewrite Nat.sub_diag. reflexivity.
  Qed.

  Lemma ZD_byte_end g : ZD g -> rest g = [] -> byte_at (pos g) = 0.
  Proof.
    intros [H1 H2] Hr. unfold byte_at. rewrite <- H1, Hr, <- H2, Nat2N.id, app_nil_r.
    apply nth_overflow. rewrite rev_length. lia.
  Qed.

  Lemma ZD_prev g k r : ZD g -> pre g = k :: r -> 1 <= pos g /\ byte_at (pos g - 1) = k.
  Proof.
    intros [H1 H2] Hp. rewrite Hp in H1, H2. cbn [rev List.length] in H1, H2. split; [lia|].
    unfold byte_at. rewrite <- H1.
    assert (E : N.to_nat (pos g - 1) = List.length r) by lia. rewrite E.
    rewrite <- app_assoc. rewrite app_nth2 by (rewrite rev_length; lia).
    rewrite rev_length, Nat.sub_diag. reflexivity.
  Qed.

  Lemma advance_ZD g n : ZD g -> n <= N.of_nat (List.length (rest g)) -> ZD (advance g n).
  Proof.
    intros [H1 H2] Hn. unfold advance, ZD. cbn [pre rest pos set_zip].
    destruct (fwd_len (N.to_nat n) (pre g) (rest g)) as [L1 _]; [lia|].
    split; [rewrite fwd_rev; exact H1 | rewrite L1; lia].
  Qed.

  Lemma retreat_ZD g n : ZD g -> n <= pos g -> ZD (retreat g n).
  Proof.
    intros [H1 H2] Hn. unfold retreat, ZD. cbn [pre rest pos set_zip].
    destruct (fwd_len (N.to_nat n) (rest g) (pre g)) as [L1 L2]; [lia|].
    split; [|rewrite L2; lia].
    pose proof (fwd_rev (N.to_nat n) (rest g) (pre g)) as F.
    (* rev (fst) ++ snd = rev (rest g) ++ pre g ; reverse both sides *)
    apply (f_equal (@rev N)) in F. rewrite !rev_app_distr, !rev_involutive in F.
    rewrite F. exact H1.
  Qed.
End ZipData.

(* the state whose leaf ends the handling of the byte (after the re-dispatches) *)
Fixpoint dispatch_st jsc_len enum_len data size (fuel : nat) (c : N) (g : cfg) : state :=
  match fuel with
  | O => reg g
  | S f =>
    match eval_tree data size (step_tree (reg g)) c g with
    | Ok ax =>
      match exec_acts jsc_len enum_len (fst ax) g with
      | Ok g' => match snd ax with XRedo => dispatch_st jsc_len enum_len data size f c g' | _ => reg g end
      | _ => reg g
      end
    | _ => reg g
    end
  end.

Section Trivia.
  Variable ty : typing.
  Hypothesis Hok : table_ok ty = true.
  Variable sp : skipspec.
  Hypothesis Htr : trivia_ok ty sp = true.
  Variable jsc_len enum_len : bytes -> len_result.
  Hypothesis jsc_sane : len_sane jsc_len.
  Hypothesis enum_sane : len_sane enum_len.
  Variable data : bytes.
  Variable size : N.
  Hypothesis Hsize : size = N.of_nat (List.length data).

  Notation byte_at := (byte_at data).
  Notation ZD := (ZD data).

  (* ---- what justifies a byte outside every lexeme: it was consumed (tr = the (position, state)
          pairs of the bytes consumed so far) in a state that may skip it ---- *)
  Definition SJ (tr : list (N * state)) (p : N) : Prop :=
    (exists s, In (p, s) tr /\ skip_ok sp s (byte_at p) = true) \/
    (exists s, In (p + 1, s) tr /\ skip_prev_ok sp s (byte_at p) (byte_at (p + 1)) = true).

  Lemma SJ_incl tr tr' p : incl tr tr' -> SJ tr p -> SJ tr' p.
  Proof.
    intros Hi [(s & A & B)|(s & A & B)]; [left | right]; exists s; (split; [apply Hi; exact A | exact B]).
  Qed.

  (* ---- the intervals of the lexemes the pending events will produce ---- *)
  Definition ev_iv (s : ostate * N) (ev : evt * N) : list (N * N) :=
    if evt_in (fst ev) evt_beginning then []
    else if evt_in (fst ev) evt_ending then
      match fst s with Some (_, qb) => [(qb, snd ev)] | None => [] end
    else if evt_in (fst ev) evt_single then [(snd ev, snd ev)]
    else [].

  Fixpoint ev_ivs (s : ostate * N) (evs : list (evt * N)) : list (N * N) :=
    match evs with
    | [] => []
    | ev :: r => match ev_step size s ev with Some s' => ev_iv s ev ++ ev_ivs s' r | None => [] end
    end.

  Lemma ev_ivs_app s a b s1 :
    ev_run size s a = Some s1 -> ev_ivs s (a ++ b) = ev_ivs s a ++ ev_ivs s1 b.
  Proof.
    revert s. induction a as [|x a IH]; intros s H; simpl in *.
    - injection H as <-. reflexivity.
    - destruct (ev_step size s x) as [s'|]; [|discriminate]. rewrite (IH _ H), app_assoc. reflexivity.
  Qed.

  Lemma ev_run_prefix s a b s2 : ev_run size s (a ++ b) = Some s2 -> exists s1, ev_run size s a = Some s1.
  Proof.
    rewrite ev_run_app. destruct (ev_run size s a) as [s1|]; [eexists; reflexivity | discriminate].
  Qed.

  Lemma ev_run_ost s evs s' : ost_ok s -> ev_run size s evs = Some s' -> ost_ok s'.
  Proof.
    revert s. induction evs as [|x r IH]; intros s Ho H; simpl in H.
    - injection H as <-. exact Ho.
    - destruct (ev_step size s x) as [s1|] eqn:E; [|discriminate].
      destruct (ev_step_props size _ _ _ E) as (Ho1 & _). eapply IH; eassumption.
  Qed.

  Definition inIV (iv : list (N * N)) (p : N) : Prop := exists ab, In ab iv /\ fst ab <= p /\ p <= snd ab.

  Lemma inIV_app_l a b p : inIV a p -> inIV (a ++ b) p.
  Proof. intros (x & A & B). exists x. split; [apply in_or_app; left; exact A | exact B]. Qed.
  Lemma inIV_app_r a b p : inIV b p -> inIV (a ++ b) p.
  Proof. intros (x & A & B). exists x. split; [apply in_or_app; right; exact A | exact B]. Qed.

  (* C = the positions covered by the lexemes handed out so far *)
  Definition Done (C : N -> Prop) (s : ostate * N) (fs : list (evt * N)) (tr : list (N * state)) (p : N) : Prop :=
    C p \/ inIV (ev_ivs s fs) p \/ SJ tr p.

  Definition bound (o1 : ostate) (F1 P : N) : N := match o1 with None => N.max F1 P | Some _ => F1 end.

  (* everything before the read position is inside a lexeme (handed out, pending, or still open) or
     justified *)
  Definition TI (C : N -> Prop) (tr : list (N * state)) (s : ostate * N) (g : cfg) : Prop :=
    exists o1 F1, ev_run size s (finds g) = Some (o1, F1) /\
      (forall p, p < size -> p < bound o1 F1 (pos g) -> Done C s (finds g) tr p) /\
      (* past the end of the file nothing is open but a lexeme that starts there *)
      (size < pos g -> o1 = None \/ size <= F1).

  Lemma Done_mono (C C' : N -> Prop) s fs tr tr' p :
    (forall q, C q -> C' q) -> incl tr tr' -> Done C s fs tr p -> Done C' s fs tr' p.
  Proof.
    intros HC Hi [H|[H|H]]; [left; apply HC; exact H | right; left; exact H | right; right; eapply SJ_incl; eassumption].
  Qed.

  Lemma TI_mono (C C' : N -> Prop) tr tr' s g :
    (forall q, C q -> C' q) -> incl tr tr' -> TI C tr s g -> TI C' tr' s g.
  Proof.
    intros HC Hi (o1 & F1 & A & B & E). exists o1, F1. split; [exact A|]. split; [|exact E].
    intros p P1 P2. eapply Done_mono; [exact HC | exact Hi | apply B; assumption].
  Qed.

  (* ---- concretisation of the abstract leaf state of TriviaCheck ---- *)
  Definition RT (p0 : N) (C : N -> Prop) tr (s00 : ostate * N) (a : tst) (g : cfg) : Prop :=
    exists o1 F1, ev_run size s00 (finds g) = Some (o1, F1) /\
      option_map fst o1 = t_open a /\
      (forall p, p < size -> p < bound o1 F1 p0 -> Done C s00 (finds g) tr p) /\
      (t_cov a = true -> p0 < F1) /\
      (t_new a = true -> exists e, o1 = Some (e, p0)) /\
      (t_rd a = false -> if t_rw a then pos g < p0 else pos g = p0).

  Lemma exec_act_finds y g g1 :
    exec_act jsc_len enum_len y g = Ok g1 -> exists suf, finds g1 = finds g ++ suf.
  Proof.
    destruct y; simpl.
    - destruct (pos g <? back); [discriminate|]. intros H; injection H as <-. simpl. eexists; reflexivity.
    - intros H; injection H as <-. exists []. rewrite app_nil_r. reflexivity.
    - intros H; injection H as <-. exists []. rewrite app_nil_r. reflexivity.
    - intros H; injection H as <-. exists []. rewrite app_nil_r. reflexivity.
    - destruct (sstk g); [discriminate|]. intros H; injection H as <-. exists []. rewrite app_nil_r. reflexivity.
    - destruct (pos g <? n); [discriminate|]. intros H; injection H as <-. exists []. rewrite app_nil_r. reflexivity.
    - unfold read_body. destruct (jsc_len (rest g)); [|discriminate]. intros H; injection H as <-.
      exists []. rewrite app_nil_r. destruct (0 <? n); reflexivity.
    - unfold read_body. destruct (enum_len (rest g)); [|discriminate]. intros H; injection H as <-.
      exists []. rewrite app_nil_r. destruct (0 <? n); reflexivity.
  Qed.

  Lemma exec_acts_finds l : forall g g1,
    exec_acts jsc_len enum_len l g = Ok g1 -> exists suf, finds g1 = finds g ++ suf.
  Proof.
    induction l as [|y l IH]; intros g g1 H; simpl in H.
    - injection H as <-. exists []. rewrite app_nil_r. reflexivity.
    - destruct (exec_act jsc_len enum_len y g) as [g2| | |] eqn:E; simpl in H; try discriminate.
      destruct (exec_act_finds _ _ _ E) as [s1 H1]. destruct (IH _ _ H) as [s2 H2].
      exists (s1 ++ s2). rewrite H2, H1, app_assoc. reflexivity.
  Qed.

  Lemma read_body_tri f p0 C tr s00 a g g1 :
    len_sane f -> RT p0 C tr s00 a g -> ZD g -> t_new a = true ->
    read_body f g = Ok g1 ->
    RT p0 C tr s00 {| t_open := t_open a; t_cov := t_cov a; t_rw := false; t_rd := true; t_new := true |} g1 /\ ZD g1.
  Proof.
    intros Hf (o1 & F1 & R1 & R2 & R3 & R4 & R5 & R6) Hz Hn H.
    unfold read_body in H. specialize (Hf (rest g)).
    destruct (f (rest g)) as [n|q msg]; [|discriminate]. injection H as <-.
    assert (Hfin : finds (if 0 <? n then advance g (n - 1) else g) = finds g) by (destruct (0 <? n); reflexivity).
    split.
    - exists o1, F1. rewrite Hfin. cbn [t_open t_cov t_rw t_rd t_new].
      split; [exact R1|]. split; [exact R2|]. split; [exact R3|]. split; [exact R4|]. split; [intros _; exact (R5 Hn)|].
      intros; discriminate.
    - destruct (0 <? n) eqn:En; [|exact Hz]. apply advance_ZD; [exact Hz | lia].
  Qed.

  Lemma Done_more C s a b tr p s1 :
    ev_run size s a = Some s1 -> Done C s a tr p -> Done C s (a ++ b) tr p.
  Proof.
    intros Hr [H|[H|H]]; [left; exact H | right; left | right; right; exact H].
    rewrite (ev_ivs_app _ _ _ _ Hr). apply inIV_app_l. exact H.
  Qed.

  Lemma ev_ivs_snoc s a ev s1 s2 :
    ev_run size s a = Some s1 -> ev_step size s1 ev = Some s2 ->
    ev_ivs s (a ++ [ev]) = ev_ivs s a ++ ev_iv s1 ev.
  Proof.
    intros H1 H2. rewrite (ev_ivs_app _ _ _ _ H1). simpl. rewrite H2, app_nil_r. reflexivity.
  Qed.

  (* one action *)
  Lemma tstep_sound st c pk x p0 C tr s00 a a1 y g g1 :
    ost_ok s00 -> p0 <= size ->
    byte_at p0 = c ->
    (forall k, pk = Some k -> 1 <= p0 /\ byte_at (p0 - 1) = k) ->
    (x = XNil -> In (p0, st) tr) ->
    RT p0 C tr s00 a g -> ZD g ->
    tstep sp st c pk x a y = Some a1 ->
    exec_act jsc_len enum_len y g = Ok g1 ->
    (exists s1, ev_run size s00 (finds g1) = Some s1) ->
    RT p0 C tr s00 a1 g1 /\ ZD g1.
  Proof.
    intros Hos Hp0 Hc Hpk Hx HR Hz Hs He [sE HE].
    destruct y; cbn [tstep] in Hs; cbn [exec_act] in He.
    - (* AFound *)
      destruct HR as (o1 & F1 & R1 & R2 & R3 & R4 & R5 & R6).
      destruct (t_rw a) eqn:Erw; [discriminate|]. destruct (t_rd a) eqn:Erd; [discriminate|].
      cbn [orb] in Hs. specialize (R6 eq_refl). cbn in R6.
      destruct (pos g <? back) eqn:Eb; [discriminate|]. apply N.ltb_ge in Eb.
      injection He as <-. split; [|exact Hz].
      cbn [finds set_finds] in HE. rewrite ev_run_app, R1 in HE. cbn [ev_run] in HE.
      destruct (ev_step size (o1, F1) (e, pos g - back)) as [s2|] eqn:Est; [|discriminate].
      pose proof (ev_run_ost _ _ _ Hos R1) as Hos1.
      assert (Hivs : ev_ivs s00 (finds g ++ [(e, pos g - back)]) = ev_ivs s00 (finds g) ++ ev_iv (o1, F1) (e, pos g - back))
        by (eapply ev_ivs_snoc; eassumption).
      assert (Hold : forall p, Done C s00 (finds g) tr p -> Done C s00 (finds g ++ [(e, pos g - back)]) tr p)
        by (intros p; eapply Done_more; exact R1).
      unfold RT. cbn [finds set_finds pos]. rewrite ev_run_app, R1. cbn [ev_run]. rewrite Est.
      rewrite R6 in *.
      unfold ev_step in Est. unfold ev_iv in Hivs. cbn [fst snd] in Hivs.
      destruct (evt_in e evt_beginning) eqn:K1.
      { (* a lexeme begins *)
        destruct (t_open a) eqn:Eo; [discriminate|]. injection Hs as <-.
        destruct o1 as [[ob oq]|]; [simpl in R2; discriminate|].
        destruct ((F1 <=? p0 - back) && (p0 - back <=? size)) eqn:E; [|discriminate]. injection Est as <-.
        apply andb_true_iff in E as [E1 E2]. apply N.leb_le in E1, E2.
        eexists _, _. split; [reflexivity|]. cbn [t_open t_cov t_rw t_rd t_new option_map fst].
        split; [reflexivity|].
        split; [intros p P1 P2; apply Hold, R3; [exact P1 | simpl in *; lia]|].
        split; [intros H; specialize (R4 H); lia|].
        split; [intros H; apply N.eqb_eq in H; subst back; exists e; f_equal; f_equal; lia|].
        intros _. reflexivity. }
      destruct (evt_in e evt_ending) eqn:K2.
      { (* the open lexeme ends *)
        destruct (t_open a) as [bg0|] eqn:Eo; [|discriminate].
        destruct o1 as [[ob oq]|]; [|simpl in R2; discriminate].
        unfold ost_ok in Hos1. cbn [fst snd] in Hos1. subst oq.
        destruct (pair_ok ob e && (F1 <=? p0 - back + 1) && (p0 - back + 1 <=? size)) eqn:E; [|discriminate].
        injection Est as <-.
        apply andb_true_iff in E as [E E3]. apply andb_true_iff in E as [_ E2]. apply N.leb_le in E2, E3.
        assert (Hcovered : forall p, F1 <= p -> p <= p0 - back -> Done C s00 (finds g ++ [(e, p0 - back)]) tr p).
        { intros p A B. right; left. rewrite Hivs. apply inIV_app_r. exists (F1, p0 - back). split; [left; reflexivity|]. simpl. lia. }
        assert (Hbefore : forall p, p < size -> p < F1 -> Done C s00 (finds g ++ [(e, p0 - back)]) tr p).
        { intros p A B. apply Hold, R3; [exact A | simpl; exact B]. }
        destruct (back =? 0) eqn:B0.
        { apply N.eqb_eq in B0. subst back. injection Hs as <-.
          eexists _, _. split; [reflexivity|]. cbn [t_open t_cov t_rw t_rd t_new option_map].
          split; [reflexivity|].
          split; [intros p P1 P2; simpl in P2; destruct (N.lt_ge_cases p F1); [apply Hbefore; assumption | apply Hcovered; lia]|].
          split; [intros _; lia|]. split; [intros; discriminate|]. intros _; reflexivity. }
        destruct (back =? 1) eqn:B1.
        { apply N.eqb_eq in B1. subst back. injection Hs as <-.
          eexists _, _. split; [reflexivity|]. cbn [t_open t_cov t_rw t_rd t_new option_map].
          split; [reflexivity|].
          split; [intros p P1 P2; simpl in P2; destruct (N.lt_ge_cases p F1); [apply Hbefore; assumption | apply Hcovered; lia]|].
          split; [intros H; specialize (R4 H); lia|]. split; [intros; discriminate|]. intros _; reflexivity. }
        destruct (back =? 2) eqn:B2; [|discriminate].
        apply N.eqb_eq in B2. subst back.
        destruct pk as [k|]; [|discriminate]. destruct x; try discriminate.
        destruct (skip_prev_ok sp st k c) eqn:Esk; [|discriminate]. injection Hs as <-.
        destruct (Hpk k eq_refl) as [Hp1 Hkb].
        eexists _, _. split; [reflexivity|]. cbn [t_open t_cov t_rw t_rd t_new option_map].
        split; [reflexivity|].
        split.
        { intros p P1 P2. simpl in P2.
          destruct (N.lt_ge_cases p F1); [apply Hbefore; assumption|].
          destruct (N.le_gt_cases p (p0 - 2)); [apply Hcovered; lia|].
          assert (p = p0 - 1) by lia. subst p.
          right; right; right. exists st. replace (p0 - 1 + 1) with p0 by lia.
          split; [apply Hx; reflexivity|]. rewrite Hkb, Hc. exact Esk. }
        split; [intros H; specialize (R4 H); lia|]. split; [intros; discriminate|]. intros _; reflexivity. }
      destruct (evt_in e evt_single) eqn:K3; [|discriminate].
      { destruct (t_open a) eqn:Eo; [discriminate|].
        destruct o1 as [[ob oq]|]; [simpl in R2; discriminate|].
        destruct ((F1 <=? p0 - back) && (p0 - back + 1 <=? size)) eqn:E; [|discriminate]. injection Est as <-.
        apply andb_true_iff in E as [E1 E2]. apply N.leb_le in E1, E2.
        assert (Hcovered : Done C s00 (finds g ++ [(e, p0 - back)]) tr (p0 - back)).
        { right; left. rewrite Hivs. apply inIV_app_r. exists (p0 - back, p0 - back). split; [left; reflexivity|]. simpl. lia. }
        assert (Hbefore : forall p, p < size -> p < N.max F1 p0 -> Done C s00 (finds g ++ [(e, p0 - back)]) tr p).
        { intros p A B. apply Hold, R3; [exact A | simpl; exact B]. }
        destruct (back =? 0) eqn:B0.
        { apply N.eqb_eq in B0. subst back. injection Hs as <-.
          eexists _, _. split; [reflexivity|]. cbn [t_open t_cov t_rw t_rd t_new option_map].
          split; [reflexivity|].
          split; [intros p P1 P2; simpl in P2; destruct (N.eq_dec p (p0 - 0)) as [->|]; [exact Hcovered | apply Hbefore; lia]|].
          split; [intros _; lia|]. split; [intros; discriminate|]. intros _; reflexivity. }
        destruct (back =? 1) eqn:B1; [|discriminate].
        apply N.eqb_eq in B1. subst back. injection Hs as <-.
        eexists _, _. split; [reflexivity|]. rewrite Eo. cbn [option_map].
        split; [reflexivity|].
        split; [intros p P1 P2; simpl in P2; apply Hbefore; lia|].
        split; [intros H; specialize (R4 H); lia|].
        split; [intros H; destruct (R5 H) as [? ?]; discriminate|]. rewrite Erw. intros _; reflexivity. }
    - (* ASetStep *) injection Hs as <-. injection He as <-. split; [exact HR | exact Hz].
    - (* APush *) injection Hs as <-. injection He as <-. split; [exact HR | exact Hz].
    - (* APushCur *) injection Hs as <-. injection He as <-. split; [exact HR | exact Hz].
    - (* APop *) injection Hs as <-. destruct (sstk g); [discriminate|]. injection He as <-. split; [exact HR | exact Hz].
    - (* ARewind *)
      destruct (pos g <? n) eqn:En; [discriminate|]. apply N.ltb_ge in En. injection He as <-.
      split; [|apply retreat_ZD; assumption].
      destruct HR as (o1 & F1 & R1 & R2 & R3 & R4 & R5 & R6).
      destruct (n =? 0) eqn:N0.
      + apply N.eqb_eq in N0. subst n. injection Hs as <-.
        exists o1, F1. unfold retreat. cbn [finds pos set_zip].
        split; [exact R1|]. split; [exact R2|]. split; [exact R3|]. split; [exact R4|]. split; [exact R5|].
        intros H. specialize (R6 H). rewrite N.sub_0_r. exact R6.
      + apply N.eqb_neq in N0. injection Hs as <-.
        exists o1, F1. unfold retreat. cbn [finds pos set_zip t_open t_cov t_rw t_rd t_new].
        split; [exact R1|]. split; [exact R2|]. split; [exact R3|]. split; [exact R4|]. split; [exact R5|].
        intros H. specialize (R6 H). destruct (t_rw a); lia.
    - (* AReadSchema *)
      destruct (t_new a) eqn:En; [|discriminate]. destruct (t_rw a) eqn:Erw; [discriminate|].
      cbn [negb andb] in Hs. injection Hs as <-. exact (read_body_tri jsc_len _ _ _ _ _ _ _ jsc_sane HR Hz En He).
    - (* AReadEnum *)
      destruct (t_new a) eqn:En; [|discriminate]. destruct (t_rw a) eqn:Erw; [discriminate|].
      cbn [negb andb] in Hs. injection Hs as <-. exact (read_body_tri enum_len _ _ _ _ _ _ _ enum_sane HR Hz En He).
  Qed.
  (* the read position never passes the end of the file, except by one on the end-of-file pseudo byte *)
  Lemma exec_act_ZD y g g1 : ZD g -> exec_act jsc_len enum_len y g = Ok g1 -> ZD g1.
  Proof.
    intros Hz He. destruct y; cbn [exec_act] in He.
    - destruct (pos g <? back); [discriminate|]. injection He as <-. exact Hz.
    - injection He as <-. exact Hz.
    - injection He as <-. exact Hz.
    - injection He as <-. exact Hz.
    - destruct (sstk g); [discriminate|]. injection He as <-. exact Hz.
    - destruct (pos g <? n) eqn:En; [discriminate|]. apply N.ltb_ge in En. injection He as <-.
      apply retreat_ZD; assumption.
    - unfold read_body in He. pose proof (jsc_sane (rest g)) as Hf.
      destruct (jsc_len (rest g)); [|discriminate]. injection He as <-.
      destruct (0 <? n) eqn:E0; [|exact Hz]. apply advance_ZD; [exact Hz | lia].
    - unfold read_body in He. pose proof (enum_sane (rest g)) as Hf.
      destruct (enum_len (rest g)); [|discriminate]. injection He as <-.
      destruct (0 <? n) eqn:E0; [|exact Hz]. apply advance_ZD; [exact Hz | lia].
  Qed.

  Definition R7 (p0 : N) (g : cfg) : Prop := pos g <= p0 \/ pos g + 1 <= size.

  Lemma read_body_r7 f p0 g g1 : len_sane f -> ZD g -> read_body f g = Ok g1 -> R7 p0 g -> R7 p0 g1.
  Proof.
    intros Hf Hz He H7. unfold read_body in He. specialize (Hf (rest g)).
    destruct (f (rest g)); [|discriminate]. injection He as <-.
    destruct (0 <? n) eqn:E0; [|exact H7]. apply N.ltb_lt in E0.
    pose proof (ZD_len data g Hz) as Hl. rewrite <- Hsize in Hl.
    right. unfold advance. cbn [pos set_zip]. lia.
  Qed.

  Lemma exec_act_r7 p0 y g g1 : ZD g -> exec_act jsc_len enum_len y g = Ok g1 -> R7 p0 g -> R7 p0 g1.
  Proof.
    intros Hz He H7. destruct y; cbn [exec_act] in He.
    - destruct (pos g <? back); [discriminate|]. injection He as <-. exact H7.
    - injection He as <-. exact H7.
    - injection He as <-. exact H7.
    - injection He as <-. exact H7.
    - destruct (sstk g); [discriminate|]. injection He as <-. exact H7.
    - destruct (pos g <? n) eqn:En; [discriminate|]. apply N.ltb_ge in En. injection He as <-.
      unfold R7, retreat in *. cbn [pos set_zip]. lia.
    - exact (read_body_r7 jsc_len p0 g g1 jsc_sane Hz He H7).
    - exact (read_body_r7 enum_len p0 g g1 enum_sane Hz He H7).
  Qed.

  Lemma exec_acts_r7 p0 l : forall g g1, ZD g -> exec_acts jsc_len enum_len l g = Ok g1 -> R7 p0 g -> R7 p0 g1.
  Proof.
    induction l as [|y l IH]; intros g g1 Hz He H7; cbn [exec_acts] in He.
    - injection He as <-. exact H7.
    - destruct (exec_act jsc_len enum_len y g) as [g2| | |] eqn:E; cbn [obind] in He; try discriminate.
      eapply IH; [eapply exec_act_ZD; eassumption | exact He | eapply exec_act_r7; eassumption].
  Qed.

  Lemma tfold_sound st c pk x p0 C tr s00 :
    ost_ok s00 -> p0 <= size -> byte_at p0 = c ->
    (forall k, pk = Some k -> 1 <= p0 /\ byte_at (p0 - 1) = k) ->
    (x = XNil -> In (p0, st) tr) ->
    forall acts a a' g g',
      RT p0 C tr s00 a g -> ZD g ->
      tfold sp st c pk x a acts = Some a' ->
      exec_acts jsc_len enum_len acts g = Ok g' ->
      (exists s1, ev_run size s00 (finds g') = Some s1) ->
      RT p0 C tr s00 a' g' /\ ZD g'.
  Proof.
    intros Hos Hp0 Hc Hpk Hx. induction acts as [|y acts IH]; intros a a' g g' HR Hz Hf He HE;
      cbn [tfold exec_acts] in Hf, He.
    - injection Hf as <-. injection He as <-. split; assumption.
    - destruct (tstep sp st c pk x a y) as [a1|] eqn:Es; [|discriminate].
      destruct (exec_act jsc_len enum_len y g) as [g1| | |] eqn:Ey; cbn [obind] in He; try discriminate.
      destruct (exec_acts_finds _ _ _ He) as [suf Hsuf].
      assert (HE1 : exists s1, ev_run size s00 (finds g1) = Some s1).
      { destruct HE as [s2 HE]. rewrite Hsuf in HE. eapply ev_run_prefix; exact HE. }
      destruct (tstep_sound st c pk x p0 C tr s00 a a1 y g g1 Hos Hp0 Hc Hpk Hx HR Hz Es Ey HE1) as [HR1 Hz1].
      eapply IH; eassumption.
  Qed.

  Lemma trivia_leaf st c lf :
    c < 256 -> In lf (leaves_prev (step_tree st) c None) -> leaf_triv_ok ty sp st c lf = true.
  Proof.
    intros Hc Hin. unfold trivia_ok in Htr. rewrite forallb_forall in Htr.
    specialize (Htr st (all_states_complete st)). rewrite forallb_forall in Htr.
    specialize (Htr c (all_byte_values_complete c Hc)). rewrite forallb_forall in Htr. apply Htr. exact Hin.
  Qed.

  (* a whole dispatch: the byte at p0 is accounted for when the read position moves past it;
     sf = the state that ends the handling of the byte *)
  Lemma dispatch_tri c s00 C tr p0 sf :
    c < 256 -> ost_ok s00 -> p0 <= size -> byte_at p0 = c ->
    (c = 0 -> p0 = size) -> (c <> 0 -> p0 < size) ->
    forall fuel g g',
      pos g = p0 -> InvTy ty size s00 g -> ZD g ->
      dispatch_st jsc_len enum_len data size fuel c g = sf ->
      TI C (tr ++ [(p0, sf)]) s00 g ->
      dispatch jsc_len enum_len data size fuel c g = Ok g' ->
      TI C (tr ++ [(p0, sf)]) s00 (advance g' 1) /\ (pos g' + 1 <= size -> ZD (advance g' 1)) /\
      (c <> 0 -> pos g' + 1 <= size).
  Proof.
    intros Hc Hos Hp0 Hbyte Hc0 Hc1.
    induction fuel as [|fuel IH]; intros g g' Hpos HI Hz Hsf HT Hd; [discriminate|].
    cbn [dispatch dispatch_st] in Hd, Hsf.
    destruct (eval_tree data size (step_tree (reg g)) c g) as [ax| | |] eqn:Eax; cbn [obind] in Hd; try discriminate.
    destruct ax as [acts x]. cbn [fst snd] in Hd, Hsf.
    destruct (exec_acts jsc_len enum_len acts g) as [g1| | |] eqn:Eex; cbn [obind] in Hd; try discriminate.
    pose proof (eval_tree_leaf data size _ _ _ _ Eax) as Hin.
    assert (Hc0' : c = 0 -> pos g = size) by (rewrite Hpos; exact Hc0).
    assert (Hc1' : c <> 0 -> pos g < size) by (rewrite Hpos; exact Hc1).
    pose proof (leaf_sound ty Hok jsc_len enum_len jsc_sane enum_sane size c s00 g acts x Hc Hc0' Hc1' HI Hin) as Hl.
    rewrite Eex in Hl. destruct Hl as (_ & HEv & Hsz1 & _ & _ & Hx).
    destruct (eval_tree_leaf_prev data size _ c g _ None I Eax) as (pk & Hinp & Hpk).
    pose proof (trivia_leaf (reg g) c _ Hc Hinp) as Hlt. unfold leaf_triv_ok in Hlt. cbn [fst snd] in Hlt.
    destruct (tfold sp (reg g) c pk x (tst0 ty (reg g)) acts) as [a'|] eqn:Etf; [|discriminate].
    (* the start of the leaf *)
    assert (HR0 : RT p0 C (tr ++ [(p0, sf)]) s00 (tst0 ty (reg g)) g).
    { destruct HT as (o1 & F1 & T1 & T2 & _).
      destruct HI as (_ & (o1' & F1' & E1 & E2 & _) & _).
      rewrite T1 in E1. injection E1 as <- <-.
      exists o1, F1. split; [exact T1|]. split; [exact E2|].
      split; [rewrite Hpos in T2; exact T2|]. cbn [tst0 t_cov t_new t_rd t_rw].
      split; [intros; discriminate|]. split; [intros; discriminate|]. intros _. exact Hpos. }
    assert (Hpk' : forall k, pk = Some k -> 1 <= p0 /\ byte_at (p0 - 1) = k).
    { intros k ->. destruct Hpk as [r Hr]. rewrite <- Hpos. eapply ZD_prev; eassumption. }
    assert (Hxn : x = XNil -> In (p0, reg g) (tr ++ [(p0, sf)])).
    { intros ->. subst sf. apply in_or_app. right. left. reflexivity. }
    destruct (tfold_sound (reg g) c pk x p0 C _ s00 Hos Hp0 Hbyte Hpk' Hxn acts _ a' g g1 HR0 Hz Etf Eex HEv) as [HR1 Hz1].
    assert (H71 : R7 p0 g1).
    { eapply exec_acts_r7; [exact Hz | exact Eex | left; lia]. }
    destruct x as [| |e].
    - (* XNil: the byte is consumed here *)
      injection Hd as <-.
      split; [|split].
      2:{ intros Hle. apply advance_ZD; [exact Hz1|]. pose proof (ZD_len data g1 Hz1). lia. }
      2:{ intros Hne. specialize (Hc1 Hne). destruct H71; lia. }
      destruct HR1 as (o1 & F1 & R1 & R2 & R3 & R4 & R5 & R6).
      apply andb_true_iff in Hlt as [Hlt Heof].
      exists o1, F1. unfold advance. cbn [finds pos set_zip]. split; [exact R1|].
      split.
      2:{ (* past the end of the file *)
        intros Hpast.
        assert (Hp0s : p0 = size) by (destruct H71; lia).
        assert (Hg1 : pos g1 = p0) by lia.
        destruct (c =? 0) eqn:Ec0.
        2:{ apply N.eqb_neq in Ec0. specialize (Hc1 Ec0). lia. }
        cbn [negb orb] in Heof. unfold eof_final_ok in Heof.
        unfold final_ok in Hlt. apply andb_true_iff in Hlt as [L1 _].
        pose proof (ev_run_ost _ _ _ Hos R1) as Hos1.
        destruct (t_new a') eqn:En.
        { destruct (R5 eq_refl) as [e0 ->]. right. unfold ost_ok in Hos1. cbn in Hos1. lia. }
        rewrite orb_false_r in L1, Heof. apply negb_true_iff in L1. specialize (R6 L1).
        destruct (t_rw a') eqn:Erw; [lia|]. cbn [orb] in Heof.
        left. destruct o1 as [oq|]; [|reflexivity]. simpl in R2. rewrite <- R2 in Heof. discriminate. }
      intros p P1 P2.
      destruct o1 as [oq|]; [apply R3; [exact P1 | exact P2]|].
      cbn [bound] in P2. simpl in R2.
      unfold final_ok in Hlt. apply andb_true_iff in Hlt as [L1 L2].
      rewrite <- R2 in L2. cbn [is_some orb] in L2.
      assert (Hnew : t_new a' = false).
      { destruct (t_new a') eqn:En; [|reflexivity]. destruct (R5 eq_refl) as [e He]. discriminate. }
      rewrite Hnew, orb_false_r in L1. apply negb_true_iff in L1. specialize (R6 L1).
      destruct (N.lt_ge_cases p (N.max F1 p0)) as [Hlt1|Hge]; [apply R3; [exact P1 | exact Hlt1]|].
      destruct (t_rw a') eqn:Erw; [lia|].
      assert (p = p0) by lia. subst p.
      cbn [orb] in L2.
      destruct (t_cov a') eqn:Ecov; [specialize (R4 eq_refl); lia|]. cbn [orb] in L2.
      destruct (c =? 0) eqn:Ec0; [apply N.eqb_eq in Ec0; specialize (Hc0 Ec0); lia|]. cbn [orb] in L2.
      right; right; left. exists (reg g). split; [apply Hxn; reflexivity|]. rewrite Hbyte. exact L2.
    - (* XRedo *)
      destruct Hx as (HI1 & Hp1 & _).
      eapply (IH g1 g'); try eassumption.
      + rewrite Hp1. exact Hpos.
      + destruct HR1 as (o1 & F1 & R1 & R2 & R3 & _). exists o1, F1. split; [exact R1|].
        rewrite Hp1, Hpos. split; [exact R3 | intros; lia].
    - discriminate.
  Qed.
  (* ---- the driver: the same induction as TM_Loop, with the coverage invariant added ---- *)
  Notation GI := (GI ty size).
  Notation MM := (MM ty size).

  Definition Cadd (C : N -> Prop) (ol : option lexeme) (p : N) : Prop :=
    C p \/ match ol with Some l => lb l <= p /\ p <= le l | None => False end.

  Definition XI (C : N -> Prop) tr (s : ostate * N) (g : cfg) : Prop :=
    GI s g /\ AllB g /\ TI C tr s g /\ (pos g <= size -> ZD g).

  Lemma XI_mono (C C' : N -> Prop) tr tr' s g :
    (forall q, C q -> C' q) -> incl tr tr' -> XI C tr s g -> XI C' tr' s g.
  Proof.
    intros HC Hi (A & B & T & Z). split; [exact A|]. split; [exact B|]. split; [|exact Z].
    eapply TI_mono; eassumption.
  Qed.

  Lemma process_event_iv s ev s1 g g1 ol :
    estk_rel s g -> ev_step size s ev = Some s1 -> process_event ev g = Ok (g1, ol) ->
    ev_iv s ev = match ol with Some l => [(lb l, le l)] | None => [] end.
  Proof.
    destruct s as [o F], ev as [e q]. unfold estk_rel, ev_step, process_event, ev_iv. cbn [fst snd].
    intros Hrel Hst Hpe.
    destruct (evt_in e evt_beginning) eqn:K1.
    { injection Hpe as <- <-. reflexivity. }
    destruct (evt_in e evt_ending) eqn:K2.
    { destruct o as [[b qb]|]; [|discriminate]. rewrite Hrel in Hpe.
      destruct (pair_ok b e); [|discriminate].
      destruct (evt_lexkind e); [|discriminate]. injection Hpe as <- <-. reflexivity. }
    destruct (evt_in e evt_single) eqn:K3; [|discriminate].
    destruct (evt_lexkind e); [|discriminate]. injection Hpe as <- <-. reflexivity.
  Qed.

  (* one pending event is processed *)
  Lemma event_step C tr s g ev fs :
    XI C tr s g -> finds g = ev :: fs ->
    exists s1 g1 ol, process_event ev (set_finds g fs) = Ok (g1, ol) /\ ev_step size s ev = Some s1 /\
      XI (Cadd C ol) tr s1 g1 /\ pos g1 = pos g /\ reg g1 = reg g /\ finds g1 = fs /\
      (MM g1 + 1 <= MM g)%Z /\
      match ol with Some l => lex_inb size l | None => True end.
  Proof.
    intros (HG & HA & HT & HZ) Ef.
    destruct HG as (Hrel & Hos & Hsz & [sEnd Hrun] & HL & HTy).
    rewrite Ef in Hrun. simpl in Hrun.
    destruct (ev_step size s ev) as [s1|] eqn:Est; [|discriminate].
    destruct (ev_step_props size _ _ _ Est) as (Hos1 & Hm1 & Hsz1).
    assert (Hrel' : estk_rel s (set_finds g fs)) by exact Hrel.
    destruct (process_event_sound ty Hok size s ev s1 (set_finds g fs) Hrel' Hos Est) as (g1 & ol & Hpe & Hshape & Hrel1 & Hol).
    exists s1, g1, ol. split; [exact Hpe|]. split; [reflexivity|].
    pose proof (process_event_iv _ _ _ _ _ _ Hrel' Est Hpe) as Hiv.
    assert (HT1 : pos g <= size -> InvTy ty size s1 (set_finds g fs)).
    { intros H. eapply invty_shift; [exact Ef | exact Est | exact (HTy H)]. }
    assert (Hsame : pos g1 = pos g /\ reg g1 = reg g /\ finds g1 = fs /\ lastp g1 = lastp g /\ pre g1 = pre g /\ rest g1 = rest g).
    { destruct Hshape as [->|[e' ->]]; repeat split. }
    destruct Hsame as (Hp1 & Hr1 & Hf1 & Hl1 & Hpre1 & Hrest1).
    assert (HG1 : TM_Loop.GI ty size s1 g1).
    { destruct Hshape as [->|[e' ->]].
      - split; [exact Hrel1|]. split; [exact Hos1|]. split; [exact Hsz1|].
        split; [eexists; exact Hrun|]. split; [exact HL|]. exact HT1.
      - split; [exact Hrel1|]. split; [exact Hos1|]. split; [exact Hsz1|].
        split; [eexists; exact Hrun|]. split; [exact HL|]. exact HT1. }
    assert (HA1 : AllB g1).
    { unfold AllB. rewrite Hpre1, Hrest1. exact HA. }
    split.
    - split; [exact HG1|]. split; [exact HA1|]. split.
      + destruct HT as (o1 & F1 & T1 & T2 & T3). rewrite Ef in T1. simpl in T1. rewrite Est in T1.
        exists o1, F1. rewrite Hf1, Hp1. split; [exact T1|]. split; [|exact T3].
        intros p P1 P2. specialize (T2 p P1 P2). rewrite Ef in T2.
        destruct T2 as [H|[H|H]]; [left; left; exact H | | right; right; exact H].
        simpl in H. rewrite Est in H. destruct H as (ab & Hin & Hab).
        apply in_app_or in Hin. destruct Hin as [Hin|Hin].
        * left. right. rewrite Hiv in Hin. destruct ol as [l|]; [|destruct Hin].
          destruct Hin as [<-|[]]. exact Hab.
        * right. left. exists ab. split; assumption.
      + intros H. rewrite Hp1 in H. specialize (HZ H). unfold TM_Trivia.ZD. rewrite Hpre1, Hrest1, Hp1. exact HZ.
    - split; [exact Hp1|]. split; [exact Hr1|]. split; [exact Hf1|].
      split.
      + unfold TM_Dispatch.MM, TM_Dispatch.PhiR', TM_Dispatch.PhiR. rewrite Hp1, Hr1, Hf1, Ef. simpl List.length. lia.
      + destruct ol as [l|]; [apply Hol | exact I].
  Qed.

  Lemma XI_note C tr s g l :
    XI C tr s g -> lex_inb size l ->
    XI C tr s (note_lexeme l g) /\ pos (note_lexeme l g) = pos g /\ MM (note_lexeme l g) = MM g.
  Proof.
    intros (HG & HA & HT & HZ) Hl.
    assert (Hsame : forall lp, XI C tr s (set_lastp g lp) \/ True) by (intros; right; exact I).
    clear Hsame.
    assert (Hset : forall lp, Forall (lex_inb size) lp -> XI C tr s (set_lastp g lp)).
    { intros lp Hlp. destruct HG as (A & B & C0 & D & E & F).
      split.
      - split; [exact A|]. split; [exact B|]. split; [exact C0|]. split; [exact D|]. split; [exact Hlp|].
        intros H. destruct (F H) as (F1 & F2 & F3 & F4). split; [exact F1|]. split; [exact F2|]. split; [exact F3|]. exact Hlp.
      - split; [exact HA|]. split; [exact HT | exact HZ]. }
    assert (HLg : Forall (lex_inb size) (lastp g)) by (destruct HG as (_ & _ & _ & _ & E & _); exact E).
    unfold note_lexeme.
    destruct (lexkind_eqb (lk l) LParameter).
    - split; [apply Hset; apply Forall_app; split; [exact HLg | constructor; [exact Hl | constructor]]|]. split; reflexivity.
    - destruct (lexkind_eqb (lk l) LKeyword).
      + split; [apply Hset; constructor|]. split; reflexivity.
      + split; [|split; reflexivity]. split; [exact HG|]. split; [exact HA|]. split; [exact HT | exact HZ].
  Qed.

  Lemma Cadd_none (C : N -> Prop) q : Cadd C None q -> C q.
  Proof. intros [H|[]]. exact H. Qed.

  (* ---- the events of one dispatch (third checker, TriviaCheck.pend_ok) ---- *)
  Variable ph : N -> state -> N.
  Hypothesis Hpend : pend_ok ty ph = true.

  Definition is_beg (ev : evt * N) : bool := evt_in (fst ev) evt_beginning.

  Fixpoint phase_of (phi : N) (evs : list (evt * N)) : N :=
    match evs with [] => phi | ev :: r => phase_of (ph_step phi (fst ev)) r end.

  (* every pending Begin is placed at (or after) the end of the file *)
  Definition BG (evs : list (evt * N)) : Prop := Forall (fun ev => is_beg ev = true -> size <= snd ev) evs.

  Lemma ph_step_mono a b e : a <= b -> ph_step a e <= ph_step b e.
  Proof.
    intros H. unfold ph_step. destruct (evt_in e evt_beginning).
    - destruct (N.eqb_spec a 0); destruct (N.eqb_spec b 0); destruct (N.eqb_spec a 1); destruct (N.eqb_spec b 1); lia.
    - destruct (N.leb_spec0 a 1); destruct (N.leb_spec0 b 1); lia.
  Qed.

  Lemma phase_of_mono evs : forall a b, a <= b -> phase_of a evs <= phase_of b evs.
  Proof. induction evs as [|ev r IH]; intros a b H; simpl; [exact H | apply IH, ph_step_mono, H]. Qed.

  Lemma phase_of_app x y a : phase_of a (x ++ y) = phase_of (phase_of a x) y.
  Proof. revert a. induction x as [|ev r IH]; intros a; simpl; [reflexivity | apply IH]. Qed.

  Lemma phase_of_3 evs : phase_of 3 evs = 3.
  Proof. induction evs as [|ev r IH]; simpl; [reflexivity|]. unfold ph_step. simpl. destruct (evt_in (fst ev) evt_beginning); exact IH. Qed.

  Lemma phase_of_2 evs : phase_of 2 evs <= 2 -> evs = [].
  Proof.
    destruct evs as [|ev r]; [reflexivity|]. simpl. unfold ph_step. simpl.
    destruct (evt_in (fst ev) evt_beginning); rewrite phase_of_3; lia.
  Qed.

  Lemma BG_app a b : BG a -> BG b -> BG (a ++ b).
  Proof. intros A B. apply Forall_app. split; assumption. Qed.

  Lemma ph_acts_sound c p0 : forall l g g' a a',
    exec_acts jsc_len enum_len l g = Ok g' -> ph_acts c a l = Some a' ->
    (snd a = false -> pos g = p0) ->
    exists new, finds g' = finds g ++ new /\ phase_of (fst a) new = fst a' /\
      (c = 0 -> Forall (fun ev => is_beg ev = true -> snd ev = p0) new) /\
      (snd a' = false -> pos g' = p0).
  Proof.
    induction l as [|y l IH]; intros g g' a a' He Hp Hpos; cbn [exec_acts] in He.
    - injection He as <-. cbn in Hp. injection Hp as <-. exists []. rewrite app_nil_r.
      split; [reflexivity|]. split; [reflexivity|]. split; [intros; constructor | exact Hpos].
    - destruct (exec_act jsc_len enum_len y g) as [g1| | |] eqn:Ey; cbn [obind] in He; try discriminate.
      assert (Hother : forall a1, (snd a1 = false -> pos g1 = p0) -> finds g1 = finds g -> ph_acts c a1 l = Some a' -> fst a1 = fst a ->
                exists new, finds g' = finds g ++ new /\ phase_of (fst a) new = fst a' /\
                  (c = 0 -> Forall (fun ev => is_beg ev = true -> snd ev = p0) new) /\ (snd a' = false -> pos g' = p0)).
      { intros a1 H1 H2 H3 H4. destruct (IH g1 g' a1 a' He H3 H1) as (new & N1 & N2 & N3 & N4).
        exists new. rewrite N1, H2, <- H4. auto. }
      destruct y; cbn [ph_acts] in Hp; cbn [exec_act] in Ey.
      + (* AFound *)
        destruct (pos g <? back); [discriminate|]. injection Ey as <-.
        destruct ((c =? 0) && evt_in e evt_beginning && (snd a || negb (back =? 0))) eqn:Eg; [discriminate|].
        destruct (IH _ g' _ a' He Hp Hpos) as (new & N1 & N2 & N3 & N4).
        exists ((e, pos g - back) :: new). cbn [finds set_finds] in N1. rewrite N1, <- app_assoc.
        split; [reflexivity|]. split; [exact N2|]. split; [|exact N4].
        intros Hc0. constructor; [|apply N3; exact Hc0].
        unfold is_beg. cbn [fst snd]. intros Hb. subst c. rewrite Hb in Eg. cbn in Eg.
        apply orb_false_iff in Eg as [E1 E2]. apply negb_false_iff, N.eqb_eq in E2. subst back.
        rewrite (Hpos E1). lia.
      + injection Ey as <-. apply (Hother a); auto.
      + injection Ey as <-. apply (Hother a); auto.
      + injection Ey as <-. apply (Hother a); auto.
      + destruct (sstk g); [discriminate|]. injection Ey as <-. apply (Hother a); auto.
      + destruct (pos g <? n); [discriminate|]. injection Ey as <-.
        apply (Hother (fst a, true)); auto. cbn. intros; discriminate.
      + unfold read_body in Ey. destruct (jsc_len (rest g)); [|discriminate]. injection Ey as <-.
        apply (Hother (fst a, true)); auto; [cbn; intros; discriminate | destruct (0 <? n); reflexivity].
      + unfold read_body in Ey. destruct (enum_len (rest g)); [|discriminate]. injection Ey as <-.
        apply (Hother (fst a, true)); auto; [cbn; intros; discriminate | destruct (0 <? n); reflexivity].
  Qed.

  Lemma pend_leaf st c lf : c < 256 -> In lf (leaves_for (step_tree st) c) -> leaf_pend_ok ty ph st c lf = true.
  Proof.
    intros Hc Hin. unfold pend_ok in Hpend. rewrite forallb_forall in Hpend.
    specialize (Hpend st (all_states_complete st)). rewrite forallb_forall in Hpend.
    specialize (Hpend c (all_byte_values_complete c Hc)). rewrite forallb_forall in Hpend. apply Hpend. exact Hin.
  Qed.

  Lemma pend_dispatch c s00 p0 :
    c < 256 -> (c = 0 -> p0 = size) -> (c <> 0 -> p0 < size) ->
    forall fuel g g',
      pos g = p0 -> InvTy ty size s00 g ->
      phase_of 0 (finds g) <= ph c (reg g) -> (c = 0 -> BG (finds g)) ->
      dispatch jsc_len enum_len data size fuel c g = Ok g' ->
      (c = 0 -> BG (finds g')) /\ (pos g' + 1 <= size -> phase_of 0 (finds g') <= 2).
  Proof.
    intros Hc Hc0 Hc1. induction fuel as [|fuel IH]; intros g g' Hpos HI Hph Hbg Hd; [discriminate|].
    cbn [dispatch] in Hd.
    destruct (eval_tree data size (step_tree (reg g)) c g) as [ax| | |] eqn:Eax; cbn [obind] in Hd; try discriminate.
    destruct ax as [acts x]. cbn [fst snd] in Hd.
    destruct (exec_acts jsc_len enum_len acts g) as [g1| | |] eqn:Eex; cbn [obind] in Hd; try discriminate.
    pose proof (eval_tree_leaf data size _ _ _ _ Eax) as Hin.
    assert (Hc0' : c = 0 -> pos g = size) by (rewrite Hpos; exact Hc0).
    assert (Hc1' : c <> 0 -> pos g < size) by (rewrite Hpos; exact Hc1).
    pose proof (leaf_sound ty Hok jsc_len enum_len jsc_sane enum_sane size c s00 g acts x Hc Hc0' Hc1' HI Hin) as Hl.
    rewrite Eex in Hl. destruct Hl as (_ & _ & Hsz1 & _ & _ & Hx).
    pose proof (pend_leaf (reg g) c _ Hc Hin) as Hlp. unfold leaf_pend_ok in Hlp. cbn [fst snd] in Hlp.
    destruct (ph_acts c (ph c (reg g), false) acts) as [a'|] eqn:Epa; [|discriminate].
    destruct (ph_acts_sound c p0 acts g g1 _ a' Eex Epa (fun _ => Hpos)) as (new & N1 & N2 & N3 & N4).
    cbn [fst] in N2.
    assert (Hphase : phase_of 0 (finds g1) <= fst a').
    { rewrite N1, phase_of_app, <- N2. apply phase_of_mono. exact Hph. }
    assert (Hbg1 : c = 0 -> BG (finds g1)).
    { intros E. rewrite N1. apply BG_app; [apply Hbg; exact E|].
      specialize (N3 E). unfold BG. eapply Forall_impl; [|exact N3]. cbn. intros ev H Hb. rewrite (H Hb), (Hc0 E). lia. }
    (* the stack pass, for the targets of a re-dispatch and the lower bound of the read position *)
    pose proof (ok_leaf ty Hok (reg g) c (acts, x) Hc Hin) as Hlk.
    destruct HI as (Hv & HE & HZ & HL).
    unfold leaf_ok in Hlk. cbn [fst snd] in Hlk.
    destruct (sfold ty (reg g) (reg g, SE_none) acts) as [sa|] eqn:Esf; [|discriminate].
    destruct (efold c (ast0 ty (reg g)) acts) as [ea|] eqn:Eef; [|discriminate].
    assert (HS0 : RS ty (reg g) (sstk g) (reg g, SE_none) g) by (split; reflexivity).
    pose proof (fold_sound ty jsc_len enum_len jsc_sane enum_sane size c (pos g) s00 (reg g) (sstk g) Hc0' Hc1' Hv acts _ _ g sa ea HS0 HE HZ Esf Eef) as Hf.
    rewrite Eex in Hf. destruct Hf as (HS' & _ & _ & _ & Hposlb & _).
    destruct x as [| |e].
    - injection Hd as <-. split; [exact Hbg1|].
      intros Hle. apply orb_true_iff in Hlp. destruct Hlp as [Hlp|Hlp].
      + apply andb_true_iff in Hlp as [E0 Er]. apply N.eqb_eq in E0. apply Z.eqb_eq in Er.
        specialize (Hc0' E0). rewrite Er in Hposlb. lia.
      + apply N.leb_le in Hlp. lia.
    - destruct Hx as (HI1 & Hp1 & _).
      pose proof (targets_sound ty (reg g) (sstk g) sa g1 HS' Hv) as Htin.
      rewrite forallb_forall in Hlp. specialize (Hlp _ Htin). apply N.leb_le in Hlp.
      apply (IH g1 g'); try assumption; [rewrite Hp1; exact Hpos | lia].
    - discriminate.
  Qed.

  Lemma process_event_beg ev g g1 ol :
    process_event ev g = Ok (g1, ol) ->
    (is_beg ev = true /\ ol = None) \/ (is_beg ev = false /\ exists l, ol = Some l).
  Proof.
    destruct ev as [e q]. unfold process_event, is_beg. cbn [fst]. intros H.
    destruct (evt_in e evt_beginning); [left; injection H as _ <-; auto|]. right. split; [reflexivity|].
    destruct (evt_in e evt_ending).
    { destruct (estk g) as [|[se sq] r]; [discriminate|]. destruct (pair_ok se e); [|discriminate].
      destruct (evt_lexkind e); [|discriminate]. injection H as _ <-. eexists; reflexivity. }
    destruct (evt_in e evt_single); [|discriminate].
    destruct (evt_lexkind e); [|discriminate]. injection H as _ <-. eexists; reflexivity.
  Qed.

  Lemma ev_step_beg s ev s1 : is_beg ev = true -> ev_step size s ev = Some s1 -> snd s1 = snd ev.
  Proof.
    destruct s as [o F], ev as [e q]. unfold is_beg, ev_step. cbn [fst snd]. intros ->.
    destruct o; [discriminate|]. destruct ((F <=? q) && (q <=? size)); [|discriminate].
    intros H; injection H as <-. reflexivity.
  Qed.

  (* between calls of Next(): a pending Begin is the last pending event; past the end of the file: every pending Begin
     is placed at the end of the file.  PI 0 = inside a call (nothing handed out yet), PI 1 = between calls *)
  Definition PI (k : N) (g : cfg) : Prop :=
    (pos g <= size -> phase_of k (finds g) <= 2) /\ (size < pos g -> BG (finds g)).

  Lemma note_lexeme_same l g :
    finds (note_lexeme l g) = finds g /\ pos (note_lexeme l g) = pos g.
  Proof.
    unfold note_lexeme. destruct (lexkind_eqb (lk l) LParameter); [split; reflexivity|].
    destruct (lexkind_eqb (lk l) LKeyword); split; reflexivity.
  Qed.

  Lemma drain_tri n : forall C tr s g g' ol,
    XI C tr s g -> PI 0 g -> (n <= List.length (finds g))%nat ->
    drain n g = Ok (g', ol) ->
    exists s', XI (Cadd C ol) tr s' g' /\ pos g' = pos g /\
      match ol with
      | Some _ => (MM g' + 1 <= MM g)%Z /\ PI 1 g'
      | None => (MM g' <= MM g)%Z /\ (n = List.length (finds g) -> finds g' = [])
      end.
  Proof.
    induction n as [|n IH]; intros C tr s g g' ol HX HP Hn Hd; cbn [drain] in Hd.
    - injection Hd as <- <-. exists s. split; [|split; [reflexivity | split; [lia|]]].
      + eapply XI_mono; [| apply incl_refl | exact HX]. intros q H; left; exact H.
      + intros H. destruct (finds g); [reflexivity | discriminate].
    - destruct (finds g) as [|ev fs] eqn:Ef; [discriminate|].
      destruct (event_step C tr s g ev fs HX Ef) as (s1 & g1 & ol1 & Hpe & Hst & HX1 & Hp1 & Hr1 & Hf1 & HM1 & Hol1).
      rewrite Hpe in Hd. cbn [obind fst snd] in Hd.
      destruct HP as [HP1 HP2]. rewrite Ef in HP1, HP2.
      destruct (process_event_beg _ _ _ _ Hpe) as [[Hb ->]|[Hb [l ->]]].
      + assert (HP' : PI 0 g1).
        { split; rewrite Hp1, Hf1.
          - intros H. specialize (HP1 H). cbn [phase_of] in HP1. unfold ph_step, is_beg in *. rewrite Hb in HP1. exact HP1.
          - intros H. specialize (HP2 H). inversion HP2; assumption. }
        assert (Hn1 : (n <= List.length (finds g1))%nat) by (rewrite Hf1; simpl in Hn; lia).
        destruct (IH _ tr s1 g1 g' ol HX1 HP' Hn1 Hd) as (s' & A & B & D).
        exists s'. split; [|split; [lia|]].
        * eapply XI_mono; [| apply incl_refl | exact A].
          intros q [H|H]; [left; apply Cadd_none; exact H | right; exact H].
        * destruct ol; [destruct D; split; [lia | assumption]|].
          destruct D as [D1 D2]. split; [lia|]. intros H. apply D2. rewrite Hf1. simpl in H. lia.
      + injection Hd as <- <-.
        destruct (XI_note _ _ _ _ l HX1 Hol1) as (HXn & Hpn & HMn).
        destruct (note_lexeme_same l g1) as [Nf Np].
        exists s1. split; [exact HXn|]. split; [lia|]. split; [lia|].
        split; rewrite Np, Nf, Hp1, Hf1.
        * intros H. specialize (HP1 H). cbn [phase_of] in HP1. unfold ph_step, is_beg in *. rewrite Hb in HP1. exact HP1.
        * intros H. specialize (HP2 H). inversion HP2; assumption.
  Qed.

  (* the event stack is not touched by dispatch *)
  Lemma exec_acts_estk l : forall g gx, exec_acts jsc_len enum_len l g = Ok gx -> estk gx = estk g.
  Proof.
    induction l as [|a l IHl]; intros g gx Ex; simpl in Ex.
    - injection Ex as <-. reflexivity.
    - destruct (exec_act jsc_len enum_len a g) as [gy| | |] eqn:Ea; simpl in Ex; try discriminate.
      rewrite (IHl _ _ Ex).
      destruct a; simpl in Ea.
      + destruct (pos g <? back); [discriminate|]. injection Ea as <-. reflexivity.
      + injection Ea as <-. reflexivity.
      + injection Ea as <-. reflexivity.
      + injection Ea as <-. reflexivity.
      + destruct (sstk g); [discriminate|]. injection Ea as <-. reflexivity.
      + destruct (pos g <? n); [discriminate|]. injection Ea as <-. reflexivity.
      + unfold read_body in Ea. destruct (jsc_len (rest g)); [|discriminate]. injection Ea as <-. destruct (0 <? n); reflexivity.
      + unfold read_body in Ea. destruct (enum_len (rest g)); [|discriminate]. injection Ea as <-. destruct (0 <? n); reflexivity.
  Qed.

  Lemma dispatch_estk c : forall f g g1, dispatch jsc_len enum_len data size f c g = Ok g1 -> estk g1 = estk g.
  Proof.
    induction f as [|f IHf]; intros g g1 Ed; cbn [dispatch] in Ed; [discriminate|].
    destruct (eval_tree data size (step_tree (reg g)) c g) as [ax| | |]; cbn [obind] in Ed; try discriminate.
    destruct (exec_acts jsc_len enum_len (fst ax) g) as [gx| | |] eqn:Ex; cbn [obind] in Ed; try discriminate.
    pose proof (exec_acts_estk _ _ _ Ex) as Hx.
    destruct (snd ax).
    - injection Ed as <-. exact Hx.
    - rewrite (IHf _ _ Ed). exact Hx.
    - discriminate.
  Qed.

  (* the (position, state) pairs of the bytes consumed by the byte loop of Next() *)
  Fixpoint loop_trace (fuel : nat) (g : cfg) : list (N * state) :=
    match fuel with
    | O => []
    | S f =>
      if pos g <=? size then
        match (if pos g =? size then Some 0 else hd_error (rest g)) with
        | None => []
        | Some c =>
          if (c =? 0) && negb (pos g =? size) then []
          else
            match dispatch jsc_len enum_len data size redo_fuel c g with
            | Ok g1 =>
              (pos g, dispatch_st jsc_len enum_len data size redo_fuel c g) ::
              match drain (List.length (finds (advance g1 1))) (advance g1 1) with
              | Ok (g3, None) => loop_trace f g3
              | _ => []
              end
            | _ => []
            end
        end
      else []
    end.

  Definition next_trace (fuel : nat) (g : cfg) : list (N * state) :=
    match finds g with
    | ev :: fs =>
      match process_event ev (set_finds g fs) with
      | Ok (g1, None) => loop_trace fuel g1
      | _ => []
      end
    | [] => loop_trace fuel g
    end.

  Fixpoint scan_all_trace (fuel : nat) (g : cfg) : list (N * state) :=
    match fuel with
    | O => []
    | S f =>
      next_trace fuel g ++
      match next jsc_len enum_len data size fuel g with
      | Ok (g', Some _) => scan_all_trace f g'
      | _ => []
      end
    end.

  Lemma main_loop_tri fuel : forall C tr s g g' ol,
    XI C tr s g -> (pos g <= size -> finds g = []) ->
    (MM g < Z.of_nat fuel)%Z ->
    main_loop jsc_len enum_len data size fuel g = Ok (g', ol) ->
    exists s', XI (Cadd C ol) (tr ++ loop_trace fuel g) s' g' /\
      match ol with
      | Some _ => (MM g' + 1 <= MM g)%Z /\ PI 1 g'
      | None => size < pos g' /\ (MM g' <= MM g)%Z /\ (finds g' = [] \/ (g' = g /\ s' = s))
      end.
  Proof.
    induction fuel as [|fuel IH]; intros C tr s g g' ol HX Hnof Hfuel Hm; [discriminate|].
    cbn [main_loop loop_trace] in *.
    destruct (pos g <=? size) eqn:Epos.
    2:{ apply N.leb_gt in Epos. injection Hm as <- <-. exists s. rewrite app_nil_r.
        split; [|split; [exact Epos | split; [lia | right; split; reflexivity]]].
        eapply XI_mono; [| apply incl_refl | exact HX]. intros q H; left; exact H. }
    apply N.leb_le in Epos. specialize (Hnof Epos).
    destruct HX as (HG & HA & HT & HZ). specialize (HZ Epos).
    destruct HG as (Hrel & Hos & Hsz & HEv & HL & HTy).
    pose proof (HTy Epos) as HI.
    pose proof (ZD_len data g HZ) as Hlen. rewrite <- Hsize in Hlen.
    assert (Hbyte : exists c, (if pos g =? size then Some 0 else hd_error (rest g)) = Some c /\ c < 256 /\
                              (pos g = size -> c = 0) /\ byte_at (pos g) = c).
    { destruct (pos g =? size) eqn:E.
      - exists 0. apply N.eqb_eq in E. repeat split; try reflexivity; try lia.
        apply ZD_byte_end; [exact HZ|]. destruct (rest g); [reflexivity | cbn [List.length] in Hlen; lia].
      - apply N.eqb_neq in E.
        destruct (rest g) as [|c r] eqn:Er; [cbn [List.length] in Hlen; lia|].
        exists c. destruct HA as [_ HAr]. rewrite Er in HAr. inversion HAr; subst.
        repeat split; try reflexivity; try assumption; [intros; lia|]. eapply ZD_byte; eassumption. }
    destruct Hbyte as (c & Hc & Hc256 & Hcz & Hcb).
    rewrite Hc in *.
    destruct ((c =? 0) && negb (pos g =? size)) eqn:Enul; [discriminate|].
    assert (Hc0 : c = 0 -> pos g = size).
    { intros ->. simpl in Enul. destruct (pos g =? size) eqn:E; [apply N.eqb_eq; exact E | discriminate]. }
    assert (Hc1 : c <> 0 -> pos g < size).
    { intros Hne. destruct (N.eq_dec (pos g) size) as [E|E]; [specialize (Hcz E); contradiction | lia]. }
    assert (Hrf : (rho ty (reg g) < Z.of_nat redo_fuel)%Z).
    { destruct (ok_sane ty Hok (reg g)) as (_ & H & _). unfold RHO_MAX in H. unfold redo_fuel. lia. }
    pose proof (dispatch_sound ty Hok jsc_len enum_len jsc_sane enum_sane data size c s Hc256 redo_fuel g Hc0 Hc1 HI Hrf) as Hd.
    destruct (dispatch jsc_len enum_len data size redo_fuel c g) as [g1|q e| |] eqn:Ed; cbn [obind] in Hm; try discriminate.
    destruct Hd as (HZ1 & HEv1 & Hsz1 & HLp1 & HI2 & HMM2).
    pose proof (dispatch_allb jsc_len enum_len data size _ _ _ _ Ed HA) as HA1.
    set (sf := dispatch_st jsc_len enum_len data size redo_fuel c g) in *.
    set (tr1 := tr ++ [(pos g, sf)]).
    assert (HT0 : TI C tr1 s g).
    { eapply TI_mono; [intros q H; exact H | | exact HT]. apply incl_appl, incl_refl. }
    destruct (dispatch_tri c s C tr (pos g) sf Hc256 Hos Epos Hcb Hc0 Hc1 redo_fuel g g1 eq_refl HI HZ eq_refl HT0 Ed) as (HT2 & HZ2 & Hne2).
    assert (Hph0 : phase_of 0 (finds g) <= ph c (reg g)) by (rewrite Hnof; simpl; lia).
    assert (Hbg0 : c = 0 -> BG (finds g)) by (intros _; rewrite Hnof; constructor).
    destruct (pend_dispatch c s (pos g) Hc256 Hc0 Hc1 redo_fuel g g1 eq_refl HI Hph0 Hbg0 Ed) as [Hbg1 Hph1].
    set (g2 := advance g1 1) in *.
    assert (HP2 : PI 0 g2).
    { unfold g2, advance, PI. cbn [finds pos set_zip]. split; [exact Hph1|].
      intros H. apply Hbg1. destruct (N.eq_dec c 0) as [E|E]; [exact E | specialize (Hne2 E); lia]. }
    assert (HA2 : AllB g2) by (apply advance_allb; exact HA1).
    assert (Hrel2 : estk_rel s g2).
    { unfold g2, advance, estk_rel. cbn [estk set_zip]. rewrite (dispatch_estk _ _ _ _ Ed). exact Hrel. }
    assert (HX2 : XI C tr1 s g2).
    { split.
      - split; [exact Hrel2|]. split; [exact Hos|]. split; [exact Hsz|].
        split; [exact HEv1|]. split; [unfold g2, advance; simpl; rewrite HLp1; exact HL|].
        intros H. apply HI2. unfold g2, advance in H. simpl in H. exact H.
      - split; [exact HA2|]. split; [exact HT2|]. intros H. apply HZ2. unfold g2, advance in H. simpl in H. exact H. }
    destruct (drain (List.length (finds g2)) g2) as [[g3 ol3]|q e| |] eqn:Edr; cbn [obind fst snd] in Hm; try discriminate.
    destruct (drain_tri _ C tr1 s g2 g3 ol3 HX2 HP2 (le_n _) Edr) as (s3 & HX3 & Hp3 & HM3).
    destruct ol3 as [l|].
    - injection Hm as <- <-. exists s3.
      replace (tr ++ [(pos g, sf)]) with tr1 by reflexivity.
      split; [exact HX3|]. fold g2 in HMM2. destruct HM3 as [HM3 HP3]. split; [lia | exact HP3].
    - destruct HM3 as [HM3 Hemp]. specialize (Hemp eq_refl).
      assert (Hfuel3 : (MM g3 < Z.of_nat fuel)%Z) by (fold g2 in HMM2; lia).
      destruct (IH _ tr1 s3 g3 g' ol HX3 (fun _ => Hemp) Hfuel3 Hm) as (s4 & A & B).
      exists s4. split.
      + replace (tr ++ (pos g, sf) :: loop_trace fuel g3) with (tr1 ++ loop_trace fuel g3)
          by (unfold tr1; rewrite <- app_assoc; reflexivity).
        eapply XI_mono; [| apply incl_refl | exact A].
        intros q [H|H]; [left; apply Cadd_none; exact H | right; exact H].
      + fold g2 in HMM2. destruct ol; [destruct B; split; [lia | assumption]|].
        destruct B as (B1 & B2 & B3). split; [exact B1|]. split; [lia|].
        left. destruct B3 as [B3|[-> _]]; [exact B3 | exact Hemp].
  Qed.

  Lemma next_tri fuel C tr s g g' ol :
    XI C tr s g -> PI 1 g -> (MM g < Z.of_nat fuel)%Z ->
    next jsc_len enum_len data size fuel g = Ok (g', ol) ->
    exists s', XI (Cadd C ol) (tr ++ next_trace fuel g) s' g' /\
      match ol with
      | Some _ => (MM g' + 1 <= MM g)%Z /\ PI 1 g'
      | None => size < pos g' /\ (finds g' = [] \/ size <= snd s')
      end.
  Proof.
    intros HX HP Hfuel Hn. unfold next, next_trace in *.
    destruct (finds g) as [|ev fs] eqn:Ef.
    - destruct (main_loop_tri fuel C tr s g g' ol HX (fun _ => Ef) Hfuel Hn) as (s' & A & B).
      exists s'. split; [exact A|]. destruct ol; [exact B|].
      destruct B as (B1 & _ & B3). split; [exact B1|]. left. destruct B3 as [B3|[-> _]]; [exact B3 | exact Ef].
    - destruct (event_step C tr s g ev fs HX Ef) as (s1 & g1 & ol1 & Hpe & Hst & HX1 & Hp1 & Hr1 & Hf1 & HM1 & Hol1).
      rewrite Hpe in *. cbn [obind fst snd] in Hn.
      destruct HP as [HP1 HP2]. rewrite Ef in HP1, HP2.
      destruct (process_event_beg _ _ _ _ Hpe) as [[Hb ->]|[Hb [l ->]]].
      + assert (Hfuel1 : (MM g1 < Z.of_nat fuel)%Z) by lia.
        assert (Hnof : pos g1 <= size -> finds g1 = []).
        { rewrite Hp1, Hf1. intros H. specialize (HP1 H). cbn [phase_of] in HP1.
          unfold ph_step, is_beg in *. rewrite Hb in HP1. cbn in HP1. apply phase_of_2. exact HP1. }
        destruct (main_loop_tri fuel _ tr s1 g1 g' ol HX1 Hnof Hfuel1 Hn) as (s' & A & B).
        exists s'. split.
        * eapply XI_mono; [| apply incl_refl | exact A].
          intros q [H|H]; [left; apply Cadd_none; exact H | right; exact H].
        * destruct ol; [destruct B; split; [lia | assumption]|].
          destruct B as (B1 & _ & B3). split; [exact B1|].
          destruct B3 as [B3|[-> ->]]; [left; exact B3|]. right.
          rewrite Hp1 in B1. specialize (HP2 B1). inversion HP2 as [|? ? Hev _]; subst.
          rewrite (ev_step_beg _ _ _ Hb Hst). apply Hev. exact Hb.
      + injection Hn as <- <-. exists s1. rewrite app_nil_r. split; [exact HX1|]. split; [exact HM1|].
        split; rewrite Hp1, Hf1.
        * intros H. specialize (HP1 H). cbn [phase_of] in HP1. unfold ph_step, is_beg in *. rewrite Hb in HP1. exact HP1.
        * intros H. specialize (HP2 H). inversion HP2; assumption.
  Qed.

  Definition covered (lexs : list lexeme) (p : N) : Prop := exists l, In l lexs /\ lb l <= p /\ p <= le l.

  Lemma scan_all_tri fuel : forall C tr s g acc lexs g',
    XI C tr s g -> PI 1 g -> (MM g < Z.of_nat fuel)%Z ->
    (forall p, C p -> covered acc p) ->
    scan_all jsc_len enum_len data size fuel g acc = (lexs, SEof, g') ->
    exists s' C', XI C' (tr ++ scan_all_trace fuel g) s' g' /\ size < pos g' /\
                  (finds g' = [] \/ size <= snd s') /\
                  (forall p, C' p -> covered lexs p).
  Proof.
    induction fuel as [|fuel IH]; intros C tr s g acc lexs g' HX HP Hfuel HC Hs; [discriminate|].
    cbn [scan_all scan_all_trace] in *.
    destruct (next jsc_len enum_len data size (S fuel) g) as [[g1 ol]|q e|w|] eqn:En; try discriminate.
    destruct (next_tri (S fuel) C tr s g g1 ol HX HP Hfuel En) as (s1 & HX1 & HM1).
    destruct ol as [l|].
    - destruct HM1 as [HM1 HP1].
      assert (Hfuel1 : (MM g1 < Z.of_nat fuel)%Z) by lia.
      assert (HC1 : forall p, Cadd C (Some l) p -> covered (l :: acc) p).
      { intros p [H|H]; [destruct (HC p H) as (x & A & B); exists x; split; [right; exact A | exact B]|].
        exists l. split; [left; reflexivity | exact H]. }
      destruct (IH _ _ s1 g1 (l :: acc) lexs g' HX1 HP1 Hfuel1 HC1 Hs) as (s' & C' & A & B & D & E).
      exists s', C'. rewrite app_assoc. split; [exact A|]. split; [exact B|]. split; [exact D | exact E].
    - injection Hs as <- <-. exists s1, (Cadd C None). rewrite app_nil_r.
      destruct HM1 as [HM1 HF1].
      split; [exact HX1|]. split; [exact HM1|]. split; [exact HF1|].
      intros p H. apply Cadd_none in H. destruct (HC p H) as (x & A & B). exists x. split; [apply in_rev in A; exact A | exact B].
  Qed.

  (* once the frontier has reached the end of the file, the pending events produce no lexeme that covers a byte *)
  Lemma past_run evs : forall s s1,
    ost_ok s -> size <= snd s -> ev_run size s evs = Some s1 ->
    size <= snd s1 /\ forall p, p < size -> ~ inIV (ev_ivs s evs) p.
  Proof.
    induction evs as [|ev r IH]; intros s s1 Ho Hs Hr; cbn [ev_run ev_ivs] in *.
    - injection Hr as <-. split; [exact Hs|]. intros p _ (ab & [] & _).
    - destruct (ev_step size s ev) as [s2|] eqn:Est; [|discriminate].
      destruct (ev_step_props size _ _ _ Est) as (Ho2 & Hm2 & _).
      destruct (IH s2 s1 Ho2 ltac:(lia) Hr) as [A B]. split; [exact A|].
      intros p Hp (ab & Hin & Hab). apply in_app_or in Hin. destruct Hin as [Hin|Hin].
      + destruct s as [o F], ev as [e q]. unfold ev_iv in Hin. cbn [fst snd] in *.
        unfold ev_step in Est.
        destruct (evt_in e evt_beginning); [destruct Hin|].
        destruct (evt_in e evt_ending).
        { destruct o as [[b qb]|]; [|destruct Hin]. unfold ost_ok in Ho. cbn in Ho. subst qb.
          destruct Hin as [<-|[]]. cbn in Hab. lia. }
        destruct (evt_in e evt_single); [|destruct Hin].
        destruct o; [discriminate|].
        destruct ((F <=? q) && (q + 1 <=? size)) eqn:E; [|discriminate].
        apply andb_true_iff in E as [E1 _]. apply N.leb_le in E1.
        destruct Hin as [<-|[]]. cbn in Hab. lia.
      + apply (B p Hp). exists ab. split; assumption.
  Qed.
End Trivia.

(* ---- the whole scan ---- *)
Definition consume_trace (jsc_len enum_len : bytes -> len_result) (data : bytes) : list (N * state) :=
  scan_all_trace jsc_len enum_len data (N.of_nat (List.length data)) (scan_fuel data) (init_cfg data).

Section Whole.
  Variable ty : typing.
  Variable sp : skipspec.
  Variable ph : N -> state -> N.
  Hypothesis Hok : table_ok ty = true.
  Hypothesis Htr : trivia_ok ty sp = true.
  Hypothesis Hpend : pend_ok ty ph = true.
  Variable jsc_len enum_len : bytes -> len_result.
  Hypothesis Hj : len_sane jsc_len.
  Hypothesis He : len_sane enum_len.
  Variable data : bytes.
  Hypothesis Hb : Forall isb data.

  (* the state of the world when the scan reports the end of the file *)
  Lemma scan_end_state lexs g :
    scan jsc_len enum_len data = (lexs, SEof, g) ->
    let size := N.of_nat (List.length data) in
    exists s' C', XI ty sp data size C' (consume_trace jsc_len enum_len data) s' g /\ size < pos g /\
                  (finds g = [] \/ size <= snd s') /\ (forall p, C' p -> covered lexs p).
  Proof.
    intros Hs size.
    destruct (ScanTheorems.init_GI ty Hok data Hb) as [HG HA]. fold size in HG.
    pose proof (ScanTheorems.init_MM ty Hok data) as HM. fold size in HM.
    assert (HX : XI ty sp data size (fun _ => False) [] (None, 0) (init_cfg data)).
    { split; [exact HG|]. split; [exact HA|]. split.
      - exists None, 0. split; [reflexivity|]. split; [intros q _ Hq; simpl in Hq; lia | simpl; intros; lia].
      - intros _. split; reflexivity. }
    assert (HP : PI size 1 (init_cfg data)).
    { split; [intros _; simpl; lia | intros _; constructor]. }
    unfold scan in Hs. fold size in Hs.
    exact (scan_all_tri ty Hok sp Htr jsc_len enum_len Hj He data size eq_refl ph Hpend (scan_fuel data)
              (fun _ => False) [] (None, 0) (init_cfg data) [] lexs g HX HP HM (fun _ F => match F with end) Hs).
  Qed.

  Theorem scan_cover_generic lexs g :
    scan jsc_len enum_len data = (lexs, SEof, g) ->
    forall p, p < N.of_nat (List.length data) ->
      covered lexs p \/ SJ sp data (consume_trace jsc_len enum_len data) p.
  Proof.
    intros Hs p Hp.
    destruct (scan_end_state lexs g Hs) as (s' & C' & (HG' & _ & HT' & _) & Hpos & Hfin & HC').
    set (size := N.of_nat (List.length data)) in *.
    destruct HG' as (Hrel & Hos & _).
    destruct HT' as (o1 & F1 & T1 & T2 & T3). specialize (T3 Hpos).
    assert (Hbnd : p < bound o1 F1 (pos g)).
    { destruct T3 as [->|T3]; [simpl; lia|]. destruct o1; simpl; lia. }
    destruct (T2 p Hp Hbnd) as [H|[H|H]].
    - left. apply HC'. exact H.
    - exfalso. destruct Hfin as [Hf|Hf].
      + rewrite Hf in H. destruct H as (ab & [] & _).
      + destruct (past_run data size eq_refl _ _ _ Hos Hf T1) as [_ Hno]. exact (Hno p Hp H).
    - right. exact H.
  Qed.

  (* at the end of the file the event stack is empty or holds one Begin placed AT the end of the file (the lexeme
     it opens covers no byte) *)
  Theorem scan_eof_stack_generic lexs g :
    scan jsc_len enum_len data = (lexs, SEof, g) ->
    estk g = [] \/ exists e, estk g = [(e, N.of_nat (List.length data))].
  Proof.
    intros Hs.
    destruct (scan_end_state lexs g Hs) as (s' & C' & (HG' & _ & HT' & _) & Hpos & Hfin & _).
    set (size := N.of_nat (List.length data)) in *.
    destruct HG' as (Hrel & Hos & Hsz & _).
    destruct s' as [[[e q]|] F]; unfold estk_rel in Hrel; cbn [fst] in Hrel; [|left; exact Hrel].
    right. exists e. rewrite Hrel. unfold ost_ok in Hos. cbn in Hos, Hsz. subst F.
    assert (size <= q); [|repeat f_equal; lia].
    destruct Hfin as [Hf|Hf]; [|exact Hf].
    destruct HT' as (o1 & F1 & T1 & _ & T3). rewrite Hf in T1. cbn in T1. injection T1 as <- <-.
    destruct (T3 Hpos) as [?|?]; [discriminate | assumption].
  Qed.
End Whole.
