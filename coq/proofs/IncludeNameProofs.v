(* C08: the regenerated include-name validator only accepts names that cannot
   leave the directory of the including file. *)
From Coq Require Import List NArith Bool String Lia.
From JV.lib Require Import Bytes.
From JV.gen Require Import IncludeName.
From JV.proofs Require Import BytesLemmas.
Import ListNotations.
Open Scope N_scope.

Definition slash : N := 47.
Definition dot : bytes := [46].
Definition dotdot : bytes := [46; 46].
Definition components (s : bytes) : list bytes := split_byte slash s.

Definition name_safe (s : bytes) : Prop :=
  s <> [] /\ hd_error s <> Some slash /\ ~ In 92 s /\
  (s = dot \/ s = dotdot \/ forall c, In c (components s) -> c <> dot /\ c <> dotdot).

Lemma contains_false_no sub s pre post : contains sub s = false -> s <> pre ++ sub ++ post.
Proof. intros H E. subst s. rewrite contains_app in H. discriminate. Qed.

Lemma orb_false6 a b c d e f :
  (((((a || b) || c) || d) || e) || f) = false ->
  a = false /\ b = false /\ c = false /\ d = false /\ e = false /\ f = false.
Proof. destruct a, b, c, d, e, f; simpl; intros H; try discriminate; repeat split. Qed.

Lemma include_name_safe_lemma s : validateIncludeFileName s = GOk None -> name_safe s.
Proof.
  unfold validateIncludeFileName, gidx.
  destruct s as [|b0 s']; [simpl; discriminate|].
  remember (b0 :: s') as s eqn:Es.
  replace (nth_error s 0) with (Some b0) by (subst s; reflexivity).
  cbn [gbind].
  destruct (b0 =? 47) eqn:Eb; [discriminate|].
  cbv zeta.
  match goal with |- context [if ?c then _ else _] => destruct c eqn:Eforb end; [discriminate|].
  destruct (contains_byte 92 s) eqn:Ebs; [discriminate|].
  intros _.
  (* only the two clauses "./" and "/." are needed: "../", "/..", "/./", "/../" are subsumed *)
  assert (Hall : contains (bs "./") s = false /\ contains (bs "/.") s = false).
  { clear -Eforb.
    repeat (apply orb_false_iff in Eforb; destruct Eforb as [Eforb ?]).
    repeat split; assumption. }
  destruct Hall as (Hds & Hsd).
  split; [subst s; discriminate|].
  split; [subst s; simpl; intros H; injection H as ->; discriminate|].
  split; [intros Hin; apply contains_byte_spec in Hin; congruence|].
  (* components *)
  assert (Hcomp : forall c, In c (components s) -> c = dot \/ c = dotdot -> s = c).
  { intros c Hin Hc. unfold components in Hin.
    destruct (split_byte slash s) as [|p ps] eqn:Esp; [destruct Hin|].
    destruct Hin as [<-|Hin].
    - destruct (split_head _ _ _ _ Esp) as (post & Hs & [->|[post' ->]] & _).
      + rewrite app_nil_r in Hs. exact Hs.
      + exfalso. destruct Hc as [->| ->].
        * eapply (contains_false_no _ _ [] post' Hds). rewrite Hs. reflexivity.
        * eapply (contains_false_no _ _ [46] post' Hds). rewrite Hs. reflexivity.
    - exfalso. destruct (split_tail _ _ _ _ _ Esp Hin) as (pre & post & Hs & _).
      destruct Hc as [->| ->].
      + eapply (contains_false_no _ _ pre post Hsd). rewrite Hs. reflexivity.
      + eapply (contains_false_no _ _ pre (46 :: post) Hsd). rewrite Hs. reflexivity. }
  destruct (beq s dot) eqn:E1; [left; apply beq_eq; exact E1|].
  destruct (beq s dotdot) eqn:E2; [right; left; apply beq_eq; exact E2|].
  right; right. intros c Hin. split; intros ->.
  - rewrite (Hcomp dot Hin (or_introl eq_refl)), beq_refl in E1. discriminate.
  - rewrite (Hcomp dotdot Hin (or_intror eq_refl)), beq_refl in E2. discriminate.
Qed.

(* the empty name is the one input on which the Go function panics (s[0]) *)
Lemma include_name_empty_panics : exists w, validateIncludeFileName [] = GPanic w.
Proof. eexists. reflexivity. Qed.

Lemma include_name_total_nonempty s : s <> [] -> exists r, validateIncludeFileName s = GOk r.
Proof.
  destruct s as [|b s']; [congruence|]. intros _.
  unfold validateIncludeFileName, gidx. cbn [nth_error gbind]. cbv zeta.
  repeat match goal with |- context [if ?c then _ else _] => destruct c end; eexists; reflexivity.
Qed.
