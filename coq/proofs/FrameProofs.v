(* Frame properties of the catalog fold: which collections a step reads and writes.
   Used for C20 (b) (a declaration inserted at an arbitrary top-level position) and C10 (moving a declaration). *)
From Coq Require Import List NArith Bool String Lia Permutation.
From JV.lib Require Import Bytes.
From JV.gen Require Import DirectiveTables TagName.
From JV.model Require Import ScannerSem Core Description PathParams TagTitle Catalog.
From JV.proofs Require Import BytesLemmas TagNameProofs CatalogProofs FaithfulProofs LocalityProofs.
Import ListNotations.
Open Scope N_scope.

Definition cmap (f : bstate -> bstate) (r : cres bstate) : cres bstate :=
  match r with COk b => COk (f b) | CErr e => CErr e | CPanic w => CPanic w | CFuel => CFuel end.

(* replace one collection of the state *)
Definition set_srv (S : list (bytes * server)) (b : bstate) : bstate :=
  {| b_cat := upd_servers (b_cat b) S; b_urls := b_urls b; b_similar := b_similar b; b_protocols := b_protocols b |}.
Definition set_typ (S : list (bytes * utype)) (b : bstate) : bstate :=
  {| b_cat := upd_types (b_cat b) S; b_urls := b_urls b; b_similar := b_similar b; b_protocols := b_protocols b |}.
Definition set_enum (S : list (bytes * bytes)) (b : bstate) : bstate :=
  {| b_cat := upd_enums (b_cat b) S; b_urls := b_urls b; b_similar := b_similar b; b_protocols := b_protocols b |}.

Ltac fnorm :=
  cbn [b_cat b_urls b_similar b_protocols set_srv set_typ set_enum with_cat cmap
       c_jsight c_info c_servers c_types c_enums c_inters c_tags
       upd_servers upd_inters upd_tags upd_info upd_types upd_enums upd_jsight].

(* walk an equation  (match X with ..) = cmap f (match X with ..)  by destructing the common scrutinee *)
Ltac ewalk1 :=
  fnorm; cbv beta iota zeta; fnorm;
  lazymatch goal with
  | |- (match ?X with _ => _ end) = _ => head_disc X ltac:(fun Z => destruct Z eqn:?)
  end; cbv beta iota zeta; fnorm.
Ltac ewalk := repeat ewalk1; try reflexivity.

Ltac frame_kinds rw :=
  repeat match goal with
         | |- context [kind_eqb ?a ?b] =>
           let v := eval vm_compute in (kind_eqb a b) in
           lazymatch v with true => idtac | false => idtac end; change (kind_eqb a b) with v
         | |- context [is_http_method ?a] =>
           let v := eval vm_compute in (is_http_method a) in
           lazymatch v with true => idtac | false => idtac end; change (is_http_method a) with v
         end; cbv beta iota delta [orb];
  unfold kerr, berr, get_http, get_rpc, upd_http, upd_rpc, cbind;
  repeat first [ rw
               | match goal with |- context [check_path ?d ?bb ?p] => destruct (check_path d bb p) eqn:?; fnorm; cbv beta iota zeta; fnorm end
               | ewalk1 ];
  try reflexivity.

Section Frame.
  Variable body_text : coords -> bytes.
  Variable banned : list kind.

  Lemma check_path_srv S d b p : check_path d (set_srv S b) p = cmap (set_srv S) (check_path d b p).
  Proof. unfold check_path, kerr. ewalk. Qed.

  Lemma add_request_srv S d anc b : add_request d anc (set_srv S b) = cmap (set_srv S) (add_request d anc b).
  Proof.
    unfold add_request, kerr, get_http, upd_http. cbv zeta. destruct (kind_eqb (d_kind d) KRequest); ewalk.
  Qed.

  Lemma add_response_srv S d anc b : add_response d anc (set_srv S b) = cmap (set_srv S) (add_response d anc b).
  Proof.
    unfold add_response, kerr, get_http, upd_http, cbind. cbv zeta. ewalk.
  Qed.

  (* no step except SERVER and BaseUrl reads or writes the servers *)
  Lemma add_directive_srv S t anc b :
    dk t <> KServer -> dk t <> KBaseURL ->
    add_directive body_text banned t anc (set_srv S b) = cmap (set_srv S) (add_directive body_text banned t anc b).
  Proof.
    unfold dk. intros H1 H2. unfold add_directive. cbv zeta.
    destruct (kind_in (d_kind (tree_dir t)) banned); [reflexivity|].
    destruct (d_kind (tree_dir t)) eqn:Hk; try congruence;
      frame_kinds ltac:(progress rewrite ?check_path_srv, ?add_request_srv, ?add_response_srv).
  Qed.

  Lemma check_path_typ S d b p : check_path d (set_typ S b) p = cmap (set_typ S) (check_path d b p).
  Proof. unfold check_path, kerr. ewalk. Qed.
  Lemma add_request_typ S d anc b : add_request d anc (set_typ S b) = cmap (set_typ S) (add_request d anc b).
  Proof. unfold add_request, kerr, get_http, upd_http. cbv zeta. destruct (kind_eqb (d_kind d) KRequest); ewalk. Qed.
  Lemma add_response_typ S d anc b : add_response d anc (set_typ S b) = cmap (set_typ S) (add_response d anc b).
  Proof. unfold add_response, kerr, get_http, upd_http, cbind. cbv zeta. ewalk. Qed.

  (* no step except TYPE reads or writes the user types *)
  Lemma add_directive_typ S t anc b :
    dk t <> KType ->
    add_directive body_text banned t anc (set_typ S b) = cmap (set_typ S) (add_directive body_text banned t anc b).
  Proof.
    unfold dk. intros H1. unfold add_directive. cbv zeta.
    destruct (kind_in (d_kind (tree_dir t)) banned); [reflexivity|].
    destruct (d_kind (tree_dir t)) eqn:Hk; try congruence;
      frame_kinds ltac:(progress rewrite ?check_path_typ, ?add_request_typ, ?add_response_typ).
  Qed.

  Lemma check_path_enum S d b p : check_path d (set_enum S b) p = cmap (set_enum S) (check_path d b p).
  Proof. unfold check_path, kerr. ewalk. Qed.
  Lemma add_request_enum S d anc b : add_request d anc (set_enum S b) = cmap (set_enum S) (add_request d anc b).
  Proof. unfold add_request, kerr, get_http, upd_http. cbv zeta. destruct (kind_eqb (d_kind d) KRequest); ewalk. Qed.
  Lemma add_response_enum S d anc b : add_response d anc (set_enum S b) = cmap (set_enum S) (add_response d anc b).
  Proof. unfold add_response, kerr, get_http, upd_http, cbind. cbv zeta. ewalk. Qed.

  (* no step at all reads or writes the enums *)
  Lemma add_directive_enum S t anc b :
    add_directive body_text banned t anc (set_enum S b) = cmap (set_enum S) (add_directive body_text banned t anc b).
  Proof.
    unfold add_directive. cbv zeta.
    destruct (kind_in (d_kind (tree_dir t)) banned); [reflexivity|].
    destruct (d_kind (tree_dir t)) eqn:Hk;
      frame_kinds ltac:(progress rewrite ?check_path_enum, ?add_request_enum, ?add_response_enum).
  Qed.
End Frame.
