(* C16: Each / EachReverse with a callback that returns an error (the usual way to stop at the first match and
   the way every diagnostic produced inside a callback leaves the loop), and Find.  Statements about every
   collection state and every callback. *)
From Coq Require Import List NArith Bool Lia String.
From JV.lib Require Import Bytes.
From JV.model Require Import OrderedMap.
From JV.proofs Require Import OrderedMapProofs.
Import ListNotations.

Lemma existsb_rev' {A} (f : A -> bool) (l : list A) : existsb f (rev l) = existsb f l.
Proof.
  induction l as [|x l IH]; cbn [rev existsb]; [reflexivity|].
  rewrite existsb_app. cbn [existsb]. rewrite IH. destruct (f x), (existsb f l); reflexivity.
Qed.

Lemma NoDup_prefix {A} (l r : list A) : NoDup (l ++ r) -> NoDup l.
Proof.
  induction l as [|x l IH]; cbn; intros H; [constructor|].
  inversion H as [|? ? Hni Hnd]; subst. constructor; [|apply IH; exact Hnd].
  intros Hi. apply Hni. apply in_or_app. left. exact Hi.
Qed.

Section EachProofs.
  Variable K V : Type.
  Variable keq : K -> K -> bool.
  Variable vzero : V.

  Local Notation until := (until_loop K V).
  Local Notation findl := (find_loop K V).
  Local Notation each := (om_each K V keq vzero).
  Local Notation each_rev := (om_each_reverse K V keq vzero).

  Definition stops (stop : K -> V -> bool) (kv : K * V) : bool := stop (fst kv) (snd kv).

  (* the visited entries are a prefix of the listing; nothing before the last visited entry stops; the call
     returns an error exactly when the last visited entry stops; without an error everything was visited *)
  Lemma until_loop_spec (stop : K -> V -> bool) (kvs : list (K * V)) :
    let (vis, st) := until stop kvs in
    (exists rest, kvs = vis ++ rest) /\
    (st = true -> exists pre kv, vis = pre ++ [kv] /\ stops stop kv = true /\ forallb (fun x => negb (stops stop x)) pre = true) /\
    (st = false -> vis = kvs /\ forallb (fun x => negb (stops stop x)) kvs = true).
  Proof.
    induction kvs as [|[k v] r IH]; cbn [until_loop].
    - split; [exists []; reflexivity|]. split; [discriminate|]. intros _. split; reflexivity.
    - destruct (stop k v) eqn:Hs.
      + split; [exists r; reflexivity|]. split.
        * intros _. exists [], (k, v). split; [reflexivity|]. split; [exact Hs|reflexivity].
        * discriminate.
      + destruct (until stop r) as [vis st] eqn:Hr.
        destruct IH as [[rest Hrest] [Ht Hf]].
        split; [exists rest; cbn; rewrite <- Hrest; reflexivity|]. split.
        * intros Hst. destruct (Ht Hst) as [pre [kv [Hv [Hk Hp]]]].
          exists ((k, v) :: pre), kv. split; [cbn; rewrite Hv; reflexivity|]. split; [exact Hk|].
          cbn [forallb]. unfold stops at 1. cbn [fst snd]. rewrite Hs. cbn. exact Hp.
        * intros Hst. destruct (Hf Hst) as [Hv Hp]. split; [rewrite Hv; reflexivity|].
          cbn [forallb]. unfold stops at 1. cbn [fst snd]. rewrite Hs. cbn. exact Hp.
  Qed.

  Lemma until_stopped_iff (stop : K -> V -> bool) (kvs : list (K * V)) :
    snd (until stop kvs) = existsb (stops stop) kvs.
  Proof.
    induction kvs as [|[k v] r IH]; cbn [until_loop existsb]; [reflexivity|].
    unfold stops at 1. cbn [fst snd]. destruct (stop k v); [reflexivity|].
    destruct (until stop r) as [vis st]. cbn in *. exact IH.
  Qed.

  (* a callback that never fails sees every entry once, in order: this is Each as the listing *)
  Lemma until_never (kvs : list (K * V)) : until (fun _ _ => false) kvs = (kvs, false).
  Proof.
    induction kvs as [|[k v] r IH]; cbn [until_loop]; [reflexivity|]. rewrite IH. reflexivity.
  Qed.

  (* Find is Each with the predicate as the stop condition: it returns the last visited entry *)
  Lemma find_is_until (p : K -> V -> bool) (kvs : list (K * V)) :
    match findl p kvs with
    | Some kv => exists pre, fst (until p kvs) = pre ++ [kv] /\ snd (until p kvs) = true
    | None => until p kvs = (kvs, false)
    end.
  Proof.
    induction kvs as [|[k v] r IH]; cbn [find_loop until_loop]; [reflexivity|].
    destruct (p k v) eqn:Hp.
    - exists []. split; reflexivity.
    - destruct (findl p r) as [kv|] eqn:Hf.
      + destruct IH as [pre [Hv Hs]]. destruct (until p r) as [vis st]. cbn in *.
        exists ((k, v) :: pre). split; [rewrite Hv; reflexivity|exact Hs].
      + rewrite IH. reflexivity.
  Qed.

  (* Find returns the FIRST entry of the listing that satisfies the predicate, and none only when none does *)
  Lemma find_first (p : K -> V -> bool) (kvs : list (K * V)) :
    match findl p kvs with
    | Some kv => exists pre post, kvs = pre ++ kv :: post /\ stops p kv = true /\
                                  forallb (fun x => negb (stops p x)) pre = true
    | None => forallb (fun x => negb (stops p x)) kvs = true
    end.
  Proof.
    induction kvs as [|[k v] r IH]; cbn [find_loop]; [reflexivity|].
    destruct (p k v) eqn:Hp.
    - exists [], r. split; [reflexivity|]. split; [exact Hp|reflexivity].
    - destruct (findl p r) as [kv|].
      + destruct IH as [pre [post [Hr [Hk Hpre]]]]. exists ((k, v) :: pre), post.
        split; [rewrite Hr; reflexivity|]. split; [exact Hk|].
        cbn [forallb]. unfold stops at 1. cbn [fst snd]. rewrite Hp. exact Hpre.
      + cbn [forallb]. unfold stops at 1. cbn [fst snd]. rewrite Hp. exact IH.
  Qed.

  (* ---- the statements about the collection ---- *)

  Lemma each_until_spec_lemma (stop : K -> V -> bool) (m : omap K V) :
    let r := om_each_until K V keq vzero stop m in
    (exists rest, each m = fst r ++ rest) /\
    snd r = existsb (stops stop) (each m) /\
    (snd r = true -> exists pre kv, fst r = pre ++ [kv] /\ stops stop kv = true /\
                                    forallb (fun x => negb (stops stop x)) pre = true) /\
    (snd r = false -> fst r = each m).
  Proof.
    unfold om_each_until. pose proof (until_loop_spec stop (each m)) as H.
    pose proof (until_stopped_iff stop (each m)) as Hs.
    destruct (until stop (each m)) as [vis st]. cbn [fst snd] in *.
    destruct H as [Hp [Ht Hf]]. split; [exact Hp|]. split; [exact Hs|]. split; [exact Ht|].
    intros Hst. exact (proj1 (Hf Hst)).
  Qed.

  Lemma each_reverse_until_spec_lemma (stop : K -> V -> bool) (m : omap K V) :
    let r := om_each_reverse_until K V keq vzero stop m in
    (exists rest, rev (each m) = fst r ++ rest) /\
    snd r = existsb (stops stop) (each m) /\
    (snd r = true -> exists pre kv, fst r = pre ++ [kv] /\ stops stop kv = true /\
                                    forallb (fun x => negb (stops stop x)) pre = true) /\
    (snd r = false -> fst r = rev (each m)).
  Proof.
    unfold om_each_reverse_until, om_each_reverse.
    pose proof (until_loop_spec stop (rev (each m))) as H.
    pose proof (until_stopped_iff stop (rev (each m))) as Hs.
    destruct (until stop (rev (each m))) as [vis st]. cbn [fst snd] in *.
    destruct H as [Hp [Ht Hf]]. split; [exact Hp|]. split.
    - rewrite Hs. rewrite existsb_rev'. reflexivity.
    - split; [exact Ht|]. intros Hst. exact (proj1 (Hf Hst)).
  Qed.

  Lemma each_never_fails_is_listing_lemma (m : omap K V) :
    om_each_until K V keq vzero (fun _ _ => false) m = (each m, false) /\
    om_each_reverse_until K V keq vzero (fun _ _ => false) m = (rev (each m), false).
  Proof.
    unfold om_each_until, om_each_reverse_until, om_each_reverse. rewrite !until_never. split; reflexivity.
  Qed.

  Lemma find_first_match_lemma (p : K -> V -> bool) (m : omap K V) :
    match om_find K V keq vzero p m with
    | Some kv => exists pre post, each m = pre ++ kv :: post /\ stops p kv = true /\
                                  forallb (fun x => negb (stops p x)) pre = true
    | None => forallb (fun x => negb (stops p x)) (each m) = true
    end.
  Proof. unfold om_find. apply find_first. Qed.

  Lemma find_is_each_until_lemma (p : K -> V -> bool) (m : omap K V) :
    match om_find K V keq vzero p m with
    | Some kv => exists pre, fst (om_each_until K V keq vzero p m) = pre ++ [kv] /\
                             snd (om_each_until K V keq vzero p m) = true
    | None => om_each_until K V keq vzero p m = (each m, false)
    end.
  Proof. unfold om_find, om_each_until. apply find_is_until. Qed.
End EachProofs.

(* in a reachable state a stopped Each has visited every key at most once, and the key it stopped at is a key
   of the collection whose value is the one Get returns *)
Lemma each_until_reachable_lemma :
  forall (K V : Type) (keq : K -> K -> bool), (forall a b, keq a b = true <-> a = b) ->
  forall (vzero : V) (ops : list (mop K V)) (stop : K -> V -> bool),
  let m := om_run K V keq vzero ops in
  let r := om_each_until K V keq vzero stop m in
  NoDup (map fst (fst r)) /\
  (forall k v, In (k, v) (fst r) -> om_get K V keq m k = Some v).
Proof.
  intros K V keq Hk vzero ops stop m r.
  pose proof (marshal_each_key_once_lemma K V keq Hk vzero ops) as Hm. cbv zeta in Hm.
  fold m in Hm. destruct Hm as [Ho [Hnd [Hin _]]].
  pose proof (each_until_spec_lemma K V keq vzero stop m) as Hs. cbv zeta in Hs. fold r in Hs.
  destruct Hs as [[rest Hrest] _]. unfold om_marshal in *.
  split.
  - rewrite Hrest, map_app in Hnd. apply NoDup_prefix in Hnd. exact Hnd.
  - intros k v Hi. apply Hin. rewrite Hrest. apply in_or_app. left. exact Hi.
Qed.

(* non-vacuity and the shape of the results on a concrete collection *)
Example ex_each_until :
  let m := om_run bytes bytes beq [] [OSet (bk "a") (bk "1"); OSet (bk "b") (bk "2"); OSet (bk "c") (bk "3")] in
  om_each_until _ _ beq [] (fun k _ => beq k (bk "b")) m = ([(bk "a", bk "1"); (bk "b", bk "2")], true) /\
  om_each_reverse_until _ _ beq [] (fun k _ => beq k (bk "b")) m = ([(bk "c", bk "3"); (bk "b", bk "2")], true) /\
  om_each_until _ _ beq [] (fun k _ => beq k (bk "z")) m = ([(bk "a", bk "1"); (bk "b", bk "2"); (bk "c", bk "3")], false) /\
  om_find _ _ beq [] (fun _ v => beq v (bk "3")) m = Some (bk "c", bk "3").
Proof. vm_compute. repeat split; reflexivity. Qed.
