(* C09 at the level of the JSON text: the keys of the five ordered maps as encoding/json writes them
   (model/JsonString.v json_quote: catalog/*_gen.go MarshalJSON writes every key with json.Marshal(k)).

   The byte-level uniqueness of the keys (CatalogProofs.keys_unique_lemma,
   json_keys_unique_partial_lemma) is carried through json_quote, which is injective on valid UTF-8
   (JsonStringProofs.json_quote_injective_on_valid_utf8) and on nothing more:
   json_text_keys_unique_refuted is an accepted forest with two interactions, two different Go keys and
   ONE JSON key. *)
From Coq Require Import List NArith Bool String Ascii.
From JV.lib Require Import Bytes.
From JV.gen Require Import DirectiveTables TagName.
From JV.model Require Import ScannerSem Core TagTitle Catalog JsonString.
From JV.proofs Require Import CatalogProofs JsonStringProofs.
Import ListNotations.
Open Scope N_scope.

Lemma json_text_map_keys_unique {V : Type} (l : list (bytes * V)) :
  NoDup (map fst l) ->
  (forall n x, In (n, x) l -> valid_utf8 n = true) ->
  NoDup (map (fun e => json_quote (fst e)) l).
Proof.
  intros Hn Hv. rewrite <- (map_map fst json_quote).
  apply NoDup_map_json_quote; [exact Hn|].
  intros k Hk. apply in_map_iff in Hk as [[n x] [E Hin]]. cbn [fst] in E. subst k.
  exact (Hv n x Hin).
Qed.

Lemma json_text_keys_unique_partial_lemma : forall pp bt banned post c,
  build pp bt banned post = COk c ->
  (forall i x, In (i, x) (c_inters c) -> i_proto i = PRpc -> ~ In 32 (i_method i)) ->
  (forall i x, In (i, x) (c_inters c) -> valid_utf8 (iid_string i) = true) ->
  NoDup (map (fun e => json_quote (iid_string (fst e))) (c_inters c)).
Proof.
  intros pp bt banned post c Hb Hsp Hv.
  rewrite <- (map_map (fun e => iid_string (fst e)) json_quote).
  apply NoDup_map_json_quote; [exact (json_keys_unique_partial_lemma _ _ _ _ _ Hb Hsp)|].
  intros k Hk. apply in_map_iff in Hk as [[i x] [E Hin]]. cbn [fst] in E. subst k.
  exact (Hv i x Hin).
Qed.

(* the guard on the parts of the id: method name and path (the protocol prefix and the blanks are ASCII) *)
Lemma iid_string_valid_utf8 i :
  valid_utf8 (i_method i) = true -> valid_utf8 (i_path i) = true -> valid_utf8 (iid_string i) = true.
Proof.
  intros Hm Hp. unfold iid_string.
  apply valid_utf8_app; [destruct (i_proto i); reflexivity|].
  apply valid_utf8_app; [exact Hm|]. apply (valid_utf8_app [32]); [reflexivity|exact Hp].
Qed.

Lemma json_text_keys_unique_by_parts_lemma : forall pp bt banned post c,
  build pp bt banned post = COk c ->
  (forall i x, In (i, x) (c_inters c) -> i_proto i = PRpc -> ~ In 32 (i_method i)) ->
  (forall i x, In (i, x) (c_inters c) -> valid_utf8 (i_method i) = true /\ valid_utf8 (i_path i) = true) ->
  NoDup (map (fun e => json_quote (iid_string (fst e))) (c_inters c)).
Proof.
  intros pp bt banned post c Hb Hsp Hv.
  apply (json_text_keys_unique_partial_lemma _ _ _ _ _ Hb Hsp).
  intros i x Hin. destruct (Hv i x Hin) as [Hm Hp]. apply iid_string_valid_utf8; assumption.
Qed.

Lemma json_text_server_keys_unique_lemma : forall pp bt banned post c,
  build pp bt banned post = COk c ->
  (forall n x, In (n, x) (c_servers c) -> valid_utf8 n = true) ->
  NoDup (map (fun e => json_quote (fst e)) (c_servers c)).
Proof.
  intros pp bt banned post c Hb. apply json_text_map_keys_unique.
  exact (proj1 (keys_unique_lemma _ _ _ _ _ Hb)).
Qed.

Lemma json_text_type_keys_unique_lemma : forall pp bt banned post c,
  build pp bt banned post = COk c ->
  (forall n x, In (n, x) (c_types c) -> valid_utf8 n = true) ->
  NoDup (map (fun e => json_quote (fst e)) (c_types c)).
Proof.
  intros pp bt banned post c Hb. apply json_text_map_keys_unique.
  exact (proj1 (proj2 (keys_unique_lemma _ _ _ _ _ Hb))).
Qed.

Lemma json_text_enum_keys_unique_lemma : forall pp bt banned post c,
  build pp bt banned post = COk c ->
  (forall n x, In (n, x) (c_enums c) -> valid_utf8 n = true) ->
  NoDup (map (fun e => json_quote (fst e)) (c_enums c)).
Proof.
  intros pp bt banned post c Hb. apply json_text_map_keys_unique.
  exact (proj1 (proj2 (proj2 (keys_unique_lemma _ _ _ _ _ Hb)))).
Qed.

Lemma json_text_tag_keys_unique_lemma : forall pp bt banned post c,
  build pp bt banned post = COk c ->
  (forall n x, In (n, x) (c_tags c) -> valid_utf8 n = true) ->
  NoDup (map (fun e => json_quote (fst e)) (c_tags c)).
Proof.
  intros pp bt banned post c Hb. apply json_text_map_keys_unique.
  exact (proj1 (proj2 (proj2 (proj2 (keys_unique_lemma _ _ _ _ _ Hb))))).
Qed.

(* ---- the guard "valid UTF-8" is needed ----
   JSIGHT 0.3 / GET /a\xff { 200 any } / GET /a\xfe { 200 any } *)
Local Open Scope string_scope.
Definition ex_path_ff : string := String "/" (String "a" (String "255" EmptyString)).
Definition ex_path_fe : string := String "/" (String "a" (String "254" EmptyString)).

Definition ex_utf8_forest : list dtree :=
  [ DNode (ex_dir KJsight "JSIGHT" 0 [("Version", "0.3")] [] "") [];
    DNode (ex_dir KGet "GET" 11 [("Path", ex_path_ff)] [] "")
      [ DNode (ex_dir KHTTPResponseCode "200" 21 [("SchemaNotation", "any")] [] "") [] ];
    DNode (ex_dir KGet "GET" 29 [("Path", ex_path_fe)] [] "")
      [ DNode (ex_dir KHTTPResponseCode "200" 39 [("SchemaNotation", "any")] [] "") [] ] ].

Definition ex_id_ff : iid := {| i_proto := PHttp; i_method := bs "GET"; i_path := [47; 97; 255] |}.
Definition ex_id_fe : iid := {| i_proto := PHttp; i_method := bs "GET"; i_path := [47; 97; 254] |}.

Lemma utf8_json_key_repeated :
  exists c x1 x2, ex_build ex_utf8_forest = COk c /\
    c_inters c = [(ex_id_ff, x1); (ex_id_fe, x2)] /\
    ex_id_ff <> ex_id_fe /\ iid_string ex_id_ff <> iid_string ex_id_fe /\
    map (fun e => json_quote (iid_string (fst e))) (c_inters c) =
      [bs """http GET /a\ufffd"""; bs """http GET /a\ufffd"""].
Proof.
  eexists. eexists. eexists. split; [vm_compute; reflexivity|].
  split; [vm_compute; reflexivity|]. split; [discriminate|]. split; [vm_compute; discriminate|].
  vm_compute. reflexivity.
Qed.
