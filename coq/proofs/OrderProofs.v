(* C10 (declaration order is free), the parts that do not need the schema library *)
From Coq Require Import List NArith Bool String Lia Permutation.
From JV.lib Require Import Bytes.
From JV.gen Require Import DirectiveTables TagName.
From JV.model Require Import ScannerSem Core Description PathParams TagTitle Catalog.
From JV.proofs Require Import BytesLemmas TagNameProofs CatalogProofs FaithfulProofs LocalityProofs.
Import ListNotations.
Open Scope N_scope.

Lemma Permutation_filter {A} (f : A -> bool) l l' : Permutation l l' -> Permutation (filter f l) (filter f l').
Proof.
  induction 1 as [|x l l' _ IH|x y l|l l' l'' _ IH1 _ IH2]; simpl.
  - constructor.
  - destruct (f x); [constructor; exact IH | exact IH].
  - destruct (f x), (f y); try apply Permutation_refl. apply perm_swap.
  - eapply Permutation_trans; eassumption.
Qed.

(* ---- a pass that collects names and rejects a bad node or a repeated name: when does it succeed ---- *)
Inductive cls : Set := Skip | Bad | Name (n : bytes).

Section Generic.
  Variable f : dtree -> cls.

  Fixpoint gcoll (ts : list dtree) (seen : list bytes) : bool :=
    match ts with
    | [] => true
    | t :: r =>
      match f t with
      | Skip => gcoll r seen
      | Bad => false
      | Name n => if existsb (beq n) seen then false else gcoll r (n :: seen)
      end
    end.

  Definition gnames (ts : list dtree) : list bytes :=
    flat_map (fun t => match f t with Name n => [n] | _ => [] end) ts.

  Lemma existsb_beq_in n l : existsb (beq n) l = true <-> In n l.
  Proof.
    rewrite existsb_exists. split.
    - intros [m [A B]]. apply beq_eq in B. subst; exact A.
    - intro H. exists n. split; [exact H | apply beq_refl].
  Qed.

  Lemma gcoll_ok ts : forall seen,
    gcoll ts seen = true <->
    (forall t, In t ts -> f t <> Bad) /\ NoDup (gnames ts) /\ (forall n, In n (gnames ts) -> ~ In n seen).
  Proof.
    unfold gnames. induction ts as [|t r IH]; intro seen; simpl.
    - split; [intros _; repeat split; [intros t [] | constructor | intros n []] | reflexivity].
    - destruct (f t) as [| |n] eqn:Ef; simpl.
      + rewrite IH. split; intros [A [B C]]; (split; [|split; assumption]).
        * intros x [<-|Hx]; [congruence | exact (A x Hx)].
        * intros x Hx. exact (A x (or_intror Hx)).
      + split; [discriminate|]. intros [A _]. exfalso. exact (A t (or_introl eq_refl) Ef).
      + destruct (existsb (beq n) seen) eqn:Ex.
        * split; [discriminate|]. intros [_ [_ C]]. exfalso. apply (C n (or_introl eq_refl)). apply existsb_beq_in; exact Ex.
        * rewrite IH. split.
          -- intros [A [B C]]. split; [|split].
             ++ intros x [<-|Hx]; [congruence | exact (A x Hx)].
             ++ constructor; [|exact B]. intro Hin. apply (C n Hin). left; reflexivity.
             ++ intros m [<-|Hm]; [intro Hin; apply existsb_beq_in in Hin; congruence|].
                intro Hin. apply (C m Hm). right; exact Hin.
          -- intros [A [B C]]. inversion B; subst. split; [|split].
             ++ intros x Hx. exact (A x (or_intror Hx)).
             ++ assumption.
             ++ intros m Hm [<-|Hin]; [contradiction | exact (C m (or_intror Hm) Hin)].
  Qed.

  Lemma gnames_perm ts ts' : Permutation ts ts' -> Permutation (gnames ts) (gnames ts').
  Proof.
    unfold gnames. induction 1 as [|x l l' _ IH|x y l|l l' l'' _ IH1 _ IH2]; simpl.
    - constructor.
    - apply Permutation_app_head; exact IH.
    - rewrite !app_assoc. apply Permutation_app_tail. apply Permutation_app_comm.
    - eapply Permutation_trans; eassumption.
  Qed.

  (* the verdict does not depend on the order of the trees, nor on the order of the names already seen *)
  Lemma gcoll_perm ts ts' seen seen' :
    Permutation ts ts' -> (forall n, In n seen <-> In n seen') -> gcoll ts seen = gcoll ts' seen'.
  Proof.
    intros Hp Hs.
    assert (H : gcoll ts seen = true <-> gcoll ts' seen' = true).
    { rewrite !gcoll_ok. pose proof (gnames_perm _ _ Hp) as Hn. split; intros [A [B C]]; (split; [|split]).
      - intros t Ht. apply A. eapply Permutation_in; [apply Permutation_sym; exact Hp | exact Ht].
      - eapply Permutation_NoDup; eassumption.
      - intros n Hin Hse. apply (C n); [eapply Permutation_in; [apply Permutation_sym; exact Hn | exact Hin] | apply Hs; exact Hse].
      - intros t Ht. apply A. eapply Permutation_in; [exact Hp | exact Ht].
      - eapply Permutation_NoDup; [apply Permutation_sym; exact Hn | exact B].
      - intros n Hin Hse. apply (C n); [eapply Permutation_in; [exact Hn | exact Hin] | apply Hs; exact Hse]. }
    destruct (gcoll ts seen), (gcoll ts' seen'); try reflexivity; destruct H as [H1 H2];
      [discriminate (H1 eq_refl) | discriminate (H2 eq_refl)].
  Qed.
End Generic.

(* the three passes as instances *)
Definition f_enum (t : dtree) : cls :=
  if kind_eqb (dk t) KEnum then
    if beq (named (tree_dir t) (bs "Name")) [] then Bad
    else match d_body (tree_dir t) with Some _ => Name (named (tree_dir t) (bs "Name")) | None => Skip end
  else Skip.
Definition f_tag (t : dtree) : cls :=
  if kind_eqb (dk t) KTAG then
    if beq (named (tree_dir t) (bs "TagName")) [] then Bad else Name (named (tree_dir t) (bs "TagName"))
  else Skip.
Definition f_type (t : dtree) : cls :=
  if kind_eqb (dk t) KType then
    if beq (named (tree_dir t) (bs "Name")) [] then Skip else Name (named (tree_dir t) (bs "Name"))
  else Skip.

Definition is_ok {A} (r : cres A) : bool := match r with COk _ => true | _ => false end.

Lemma collect_enums_gcoll : forall ts acc, is_ok (collect_enums ts acc) = gcoll f_enum ts (map fst acc).
Proof.
  induction ts as [|t r IH]; intro acc; [reflexivity|]. cbn [collect_enums gcoll]. unfold f_enum, dk, kerr.
  destruct (kind_eqb (d_kind (tree_dir t)) KEnum); [|apply IH].
  destruct (beq (named (tree_dir t) (bs "Name")) []); [reflexivity|].
  destruct (d_body (tree_dir t)); [|apply IH].
  rewrite existsb_beq_keys. destruct (om_has beq acc (named (tree_dir t) (bs "Name"))); [reflexivity|].
  rewrite IH. apply gcoll_perm; [apply Permutation_refl|].
  intro n. rewrite map_app. simpl. rewrite in_app_iff. simpl. tauto.
Qed.

Lemma collect_tags_gcoll : forall ts acc, is_ok (collect_tags ts acc) = gcoll f_tag ts (map fst acc).
Proof.
  induction ts as [|t r IH]; intro acc; [reflexivity|]. cbn [collect_tags gcoll]. unfold f_tag, dk, kerr.
  destruct (kind_eqb (d_kind (tree_dir t)) KTAG); [|apply IH].
  destruct (beq (named (tree_dir t) (bs "TagName")) []); [reflexivity|].
  rewrite existsb_beq_keys. destruct (om_has beq acc (named (tree_dir t) (bs "TagName"))); [reflexivity|].
  rewrite IH. apply gcoll_perm; [apply Permutation_refl|].
  intro n. rewrite map_app. simpl. rewrite in_app_iff. simpl. tauto.
Qed.

Lemma check_dup_types_gcoll : forall ts seen, is_ok (check_dup_types ts seen) = gcoll f_type ts seen.
Proof.
  induction ts as [|t r IH]; intro seen; [reflexivity|]. cbn [check_dup_types gcoll]. unfold f_type, dk, kerr.
  destruct (kind_eqb (d_kind (tree_dir t)) KType); [|apply IH].
  destruct (beq (named (tree_dir t) (bs "Name")) []); [apply IH|].
  destruct (existsb (beq (named (tree_dir t) (bs "Name"))) seen); [reflexivity | apply IH].
Qed.

(* C10, the three collect passes: the verdict is the same for every order of the top-level trees, and the
   collected entries are the same up to order *)
Theorem collect_passes_order_free_lemma ts ts' :
  Permutation ts ts' ->
  is_ok (collect_enums ts []) = is_ok (collect_enums ts' []) /\
  is_ok (collect_tags ts []) = is_ok (collect_tags ts' []) /\
  is_ok (check_dup_types ts []) = is_ok (check_dup_types ts' []) /\
  (forall en en', collect_enums ts [] = COk en -> collect_enums ts' [] = COk en' -> Permutation en en') /\
  (forall tg tg', collect_tags ts [] = COk tg -> collect_tags ts' [] = COk tg' -> Permutation tg tg').
Proof.
  intro Hp. rewrite !collect_enums_gcoll, !collect_tags_gcoll, !check_dup_types_gcoll.
  split; [apply gcoll_perm; [exact Hp | tauto]|]. split; [apply gcoll_perm; [exact Hp | tauto]|].
  split; [apply gcoll_perm; [exact Hp | tauto]|]. split.
  - intros en en' H H'. apply collect_enums_exact in H. apply collect_enums_exact in H'. simpl in H, H'. subst.
    apply Permutation_map. apply Permutation_filter. exact Hp.
  - intros tg tg' H H'. apply collect_tags_exact in H. apply collect_tags_exact in H'. simpl in H, H'. subst.
    apply Permutation_map. apply Permutation_filter. exact Hp.
Qed.

(* ---- the fold over a forest of DECLARATIONS only (childless SERVER / TYPE / TAG / ENUM nodes) ---- *)
Definition decl_leaf (t : dtree) : Prop :=
  tree_kids t = [] /\ (dk t = KServer \/ dk t = KType \/ dk t = KTAG \/ dk t = KEnum).

Definition type_local_ok (t : dtree) : bool :=
  let d := tree_dir t in
  match norm_notation (named d (bs "SchemaNotation")) with
  | Some nt => negb ((beq nt (bs "jsight") || beq nt (bs "regex")) && (match d_body d with None => true | Some _ => false end))
  | None => false
  end.

Definition f_srv (banned : list kind) (t : dtree) : cls :=
  if kind_in (dk t) banned then Bad
  else if kind_eqb (dk t) KServer then (if beq (named (tree_dir t) (bs "Name")) [] then Bad else Name (named (tree_dir t) (bs "Name")))
  else Skip.
Definition f_typ (banned : list kind) (t : dtree) : cls :=
  if kind_in (dk t) banned then Bad
  else if kind_eqb (dk t) KType then
    (if beq (named (tree_dir t) (bs "Name")) [] then Bad
     else if type_local_ok t then Name (named (tree_dir t) (bs "Name")) else Bad)
  else Skip.

Definition srv_entry (t : dtree) : bytes * server :=
  (named (tree_dir t) (bs "Name"), {| s_annot := d_annot (tree_dir t); s_base := [] |}).
Definition typ_entry (t : dtree) : bytes * utype :=
  let d := tree_dir t in
  (named d (bs "Name"),
   {| ut_annot := d_annot d;
      ut_notation := match norm_notation (named d (bs "SchemaNotation")) with Some nt => nt | None => [] end;
      ut_schema := schema_of d |}).
Definition is_srv (t : dtree) : bool := kind_eqb (dk t) KServer.
Definition is_typ (t : dtree) : bool := kind_eqb (dk t) KType.

Lemma add_directive_noop bt banned t anc b :
  dk t = KTAG \/ dk t = KEnum ->
  add_directive bt banned t anc b = if kind_in (dk t) banned then CErr (kw_err (tree_dir t) (CENotAllowed (dk t))) else COk b.
Proof. unfold dk. intros [Hk|Hk]; unfold add_directive; cbv zeta; rewrite Hk; reflexivity. Qed.

Section DeclFold.
  Variable body_text : coords -> bytes.
  Variable banned : list kind.
  Notation add_all := (add_all body_text banned).
  Notation add_directive := (add_directive body_text banned).

  Lemma add_all_leaf_cons t r b : tree_kids t = [] ->
    add_all (t :: r) b = add_directive t [] b >>=c add_all r.
  Proof.
    intro Hl. cbn [Catalog.add_all]. rewrite add_branch_eq, Hl. simpl.
    destruct (add_directive t [] b); reflexivity.
  Qed.

  (* verdict and effect of the fold over declarations *)
  Lemma decl_fold ts : Forall decl_leaf ts -> forall b,
    is_ok (add_all ts b) =
      gcoll (f_srv banned) ts (map fst (c_servers (b_cat b))) && gcoll (f_typ banned) ts (map fst (c_types (b_cat b))) /\
    forall b', add_all ts b = COk b' ->
      c_servers (b_cat b') = c_servers (b_cat b) ++ map srv_entry (filter is_srv ts) /\
      c_types (b_cat b') = c_types (b_cat b) ++ map typ_entry (filter is_typ ts) /\
      c_jsight (b_cat b') = c_jsight (b_cat b) /\ c_info (b_cat b') = c_info (b_cat b) /\
      c_enums (b_cat b') = c_enums (b_cat b) /\ c_tags (b_cat b') = c_tags (b_cat b) /\
      c_inters (b_cat b') = c_inters (b_cat b).
  Proof.
    induction 1 as [|t r [Hl Hkind] _ IH]; intro b.
    - simpl. split; [reflexivity|]. intros b' H. inversion H; subst. rewrite !app_nil_r. repeat split; reflexivity.
    - rewrite (add_all_leaf_cons t r b Hl). cbn [gcoll filter]. unfold f_srv at 1, f_typ at 1, is_srv at 1, is_typ at 1.
      destruct Hkind as [Hk|[Hk|Hk]].
      + (* SERVER *)
        rewrite (add_directive_server _ _ _ _ _ Hk). cbv zeta. rewrite Hk.
        change (kind_eqb KServer KServer) with true. change (kind_eqb KServer KType) with false. cbv iota. unfold kerr.
        destruct (kind_in KServer banned); [split; [reflexivity | intros b' H; discriminate H]|].
        destruct (beq (named (tree_dir t) (bs "Name")) []); [split; [reflexivity | intros b' H; discriminate H]|].
        rewrite existsb_beq_keys.
        destruct (om_has beq (c_servers (b_cat b)) (named (tree_dir t) (bs "Name"))); [split; [reflexivity | intros b' H; discriminate H]|].
        unfold cbind. destruct (IH (with_cat b (upd_servers (b_cat b) (c_servers (b_cat b) ++ [srv_entry t])))) as [V E].
        split.
        * unfold srv_entry in V. rewrite V, b_cat_with_cat. simpl c_servers. simpl c_types. f_equal.
          apply gcoll_perm; [apply Permutation_refl|]. intro n. rewrite map_app, in_app_iff. simpl. tauto.
        * intros b' H. unfold srv_entry in E. destruct (E b' H) as [A [B [C [D [F [G I]]]]]].
          rewrite b_cat_with_cat in *. simpl in *. rewrite A, <- app_assoc. repeat split; assumption.
      + (* TYPE *)
        rewrite (add_directive_type _ _ _ _ _ Hk). cbv zeta. rewrite Hk.
        change (kind_eqb KType KServer) with false. change (kind_eqb KType KType) with true. cbv iota. unfold kerr.
        destruct (kind_in KType banned); [split; [rewrite andb_false_r; reflexivity | intros b' H; discriminate H]|].
        destruct (beq (named (tree_dir t) (bs "Name")) []); [split; [rewrite andb_false_r; reflexivity | intros b' H; discriminate H]|].
        cbn [map]. unfold type_local_ok. unfold typ_entry at 1. cbv zeta.
        destruct (norm_notation (named (tree_dir t) (bs "SchemaNotation"))) as [nt|].
        2:{ split; [rewrite andb_false_r; destruct (om_has beq (c_types (b_cat b)) (named (tree_dir t) (bs "Name"))); reflexivity
                   | intros b' H; destruct (om_has beq (c_types (b_cat b)) (named (tree_dir t) (bs "Name"))); discriminate H]. }
        destruct ((beq nt (bs "jsight") || beq nt (bs "regex")) && match d_body (tree_dir t) with None => true | Some _ => false end);
          cbn [negb].
        { split; [rewrite andb_false_r; destruct (om_has beq (c_types (b_cat b)) (named (tree_dir t) (bs "Name"))); reflexivity
                 | intros b' H; destruct (om_has beq (c_types (b_cat b)) (named (tree_dir t) (bs "Name"))); discriminate H]. }
        rewrite existsb_beq_keys.
        destruct (om_has beq (c_types (b_cat b)) (named (tree_dir t) (bs "Name"))) eqn:Eh;
          [split; [rewrite andb_false_r; reflexivity | intros b' H; discriminate H]|].
        unfold cbind.
        destruct (IH (with_cat b (upd_types (b_cat b) (c_types (b_cat b) ++
                   [(named (tree_dir t) (bs "Name"), {| ut_annot := d_annot (tree_dir t); ut_notation := nt; ut_schema := schema_of (tree_dir t) |})])))) as [V E].
        split.
        * rewrite V, b_cat_with_cat. simpl c_servers. simpl c_types. f_equal.
          apply gcoll_perm; [apply Permutation_refl|]. intro n. rewrite map_app, in_app_iff. simpl. tauto.
        * intros b' H. destruct (E b' H) as [A [B [C [D [F [G I]]]]]].
          rewrite b_cat_with_cat in *. simpl in *. rewrite B, <- app_assoc. repeat split; try assumption; reflexivity.
      + (* TAG / ENUM *)
        rewrite (add_directive_noop _ _ _ _ _ Hk).
        assert (Hs : kind_eqb (dk t) KServer = false) by (destruct Hk as [-> | ->]; reflexivity).
        assert (Ht : kind_eqb (dk t) KType = false) by (destruct Hk as [-> | ->]; reflexivity).
        rewrite Hs, Ht. destruct (kind_in (dk t) banned); [split; [reflexivity | intros b' H; discriminate H]|].
        unfold cbind. exact (IH b).
  Qed.
End DeclFold.

(* C10 (partial), the fold over DECLARATIONS: for every order of the declarations the fold gives the same
   verdict, and the same servers / types up to order; nothing else changes *)
Theorem decl_fold_order_free_lemma bt banned ts ts' b b' :
  Forall decl_leaf ts -> Permutation ts ts' ->
  add_all bt banned ts b = COk b' ->
  exists b'', add_all bt banned ts' b = COk b'' /\
    Permutation (c_servers (b_cat b')) (c_servers (b_cat b'')) /\
    Permutation (c_types (b_cat b')) (c_types (b_cat b'')) /\
    c_jsight (b_cat b'') = c_jsight (b_cat b') /\ c_info (b_cat b'') = c_info (b_cat b') /\
    c_enums (b_cat b'') = c_enums (b_cat b') /\ c_tags (b_cat b'') = c_tags (b_cat b') /\
    c_inters (b_cat b'') = c_inters (b_cat b').
Proof.
  intros Hd Hp H.
  assert (Hd' : Forall decl_leaf ts').
  { rewrite Forall_forall in *. intros x Hx. apply Hd. eapply Permutation_in; [apply Permutation_sym; exact Hp | exact Hx]. }
  destruct (decl_fold bt banned ts Hd b) as [V E]. destruct (decl_fold bt banned ts' Hd' b) as [V' E'].
  rewrite H in V. simpl in V.
  rewrite (gcoll_perm _ _ _ _ (map fst (c_servers (b_cat b))) Hp), (gcoll_perm _ _ _ _ (map fst (c_types (b_cat b))) Hp) in V; try tauto.
  rewrite <- V' in V.
  destruct (add_all bt banned ts' b) as [b''| | |] eqn:E2; try discriminate V.
  exists b''. split; [reflexivity|].
  destruct (E b' H) as [A [B [C [D [F [G I]]]]]]. destruct (E' b'' eq_refl) as [A' [B' [C' [D' [F' [G' I']]]]]].
  rewrite A, A', B, B'. repeat split; try congruence.
  - apply Permutation_app_head. apply Permutation_map. apply Permutation_filter. exact Hp.
  - apply Permutation_app_head. apply Permutation_map. apply Permutation_filter. exact Hp.
Qed.
