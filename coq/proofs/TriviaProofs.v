(* C05 - surface syntax: what the scanner table (regenerated from scanner/steps*.go on every run) does with
   line ends, blanks and comments.  Finite facts about the table are decided by evaluation over all states and
   lifted to statements about the step semantics (ScannerSem) for every configuration, input and oracle. *)
From Coq Require Import List NArith Bool String Lia.
Import ListNotations.
From JV.lib Require Import Bytes.
From JV.gen Require Import ScannerTable.
From JV.model Require Import ScannerSem.
From JV.proofs Require Import TM_Basics.
Open Scope N_scope.

(* ---------------------------------------------------------------------------------------------- *)
(* two bytes that no state can tell apart *)

Fixpoint same_on (a b : N) (t : tree) : bool :=
  match t with
  | Leaf _ _ => true
  | Node (CByteIn l) t e =>
    if in_set l a then (if in_set l b then same_on a b t else false)
    else (if in_set l b then false else same_on a b e)
  | Node _ t e => same_on a b t && same_on a b e
  end.

Lemma eval_cond_byte_free data size k a b g :
  (match k with CByteIn _ => False | _ => True end) -> eval_cond data size k a g = eval_cond data size k b g.
Proof. destruct k; intros H; try contradiction; reflexivity. Qed.

Lemma same_on_eval data size a b t g :
  same_on a b t = true -> eval_tree data size t a g = eval_tree data size t b g.
Proof.
  induction t as [acts x | c t1 IH1 t2 IH2]; intros H; [reflexivity|].
  cbn [eval_tree].
  destruct c as [l| | | | |k]; cbn [same_on] in H.
  - cbn [eval_cond obind]. destruct (in_set l a) eqn:Ea; destruct (in_set l b) eqn:Eb; try discriminate; auto.
  - apply andb_true_iff in H as [H1 H2]. rewrite (eval_cond_byte_free data size CIsDirective a b g I).
    destruct (eval_cond data size CIsDirective b g) as [v| | |]; cbn [obind]; auto. destruct v; auto.
  - apply andb_true_iff in H as [H1 H2]. rewrite (eval_cond_byte_free data size CHasTypeOrAnyOrEmpty a b g I).
    destruct (eval_cond data size CHasTypeOrAnyOrEmpty b g) as [v| | |]; cbn [obind]; auto. destruct v; auto.
  - apply andb_true_iff in H as [H1 H2]. rewrite (eval_cond_byte_free data size CHasAnyOrEmpty a b g I).
    destruct (eval_cond data size CHasAnyOrEmpty b g) as [v| | |]; cbn [obind]; auto. destruct v; auto.
  - apply andb_true_iff in H as [H1 H2]. rewrite (eval_cond_byte_free data size CHasRegex a b g I).
    destruct (eval_cond data size CHasRegex b g) as [v| | |]; cbn [obind]; auto. destruct v; auto.
  - apply andb_true_iff in H as [H1 H2]. rewrite (eval_cond_byte_free data size (CPrevIs k) a b g I).
    destruct (eval_cond data size (CPrevIs k) b g) as [v| | |]; cbn [obind]; auto. destruct v; auto.
Qed.

Lemma cr_lf_table : forallb (fun s => same_on 10 13 (step_tree s)) all_states = true.
Proof. vm_compute. reflexivity. Qed.
Lemma space_tab_table : forallb (fun s => same_on 32 9 (step_tree s)) all_states = true.
Proof. vm_compute. reflexivity. Qed.

(* one call of the step function: the decision and the actions, before any re-dispatch *)
Definition one_step jsc enum data size (c : N) (g : cfg) : outcome (cfg * exit) :=
  obind (eval_tree data size (step_tree (reg g)) c g) (fun ax =>
  obind (exec_acts jsc enum (fst ax) g) (fun g' => Ok (g', snd ax))).

Lemma dispatch_one_step jsc enum data size f c g :
  dispatch jsc enum data size (S f) c g =
  obind (one_step jsc enum data size c g) (fun r =>
    match snd r with
    | XNil => Ok (fst r)
    | XRedo => dispatch jsc enum data size f c (fst r)
    | XErr e => Err (pos (fst r)) (EStep e)
    end).
Proof.
  unfold one_step. cbn [dispatch].
  destruct (eval_tree data size (step_tree (reg g)) c g) as [ax| | |]; cbn [obind]; try reflexivity.
  destruct (exec_acts jsc enum (fst ax) g); cbn [obind fst snd]; reflexivity.
Qed.

Lemma cr_lf_one_step jsc enum data size g :
  one_step jsc enum data size 10 g = one_step jsc enum data size 13 g.
Proof.
  unfold one_step. rewrite (same_on_eval data size 10 13); [reflexivity|].
  pose proof cr_lf_table as H. rewrite forallb_forall in H. apply H, all_states_complete.
Qed.
Lemma space_tab_one_step jsc enum data size g :
  one_step jsc enum data size 32 g = one_step jsc enum data size 9 g.
Proof.
  unfold one_step. rewrite (same_on_eval data size 32 9); [reflexivity|].
  pose proof space_tab_table as H. rewrite forallb_forall in H. apply H, all_states_complete.
Qed.

(* a whole dispatch (with its re-dispatches) cannot tell CR from LF, nor a blank from a tab *)
Lemma dispatch_same jsc enum data size a b :
  (forall g, one_step jsc enum data size a g = one_step jsc enum data size b g) ->
  forall f g, dispatch jsc enum data size f a g = dispatch jsc enum data size f b g.
Proof.
  intros H f. induction f as [|f IH]; intros g; [reflexivity|].
  rewrite !dispatch_one_step, H.
  destruct (one_step jsc enum data size b g) as [r| | |]; cbn [obind]; try reflexivity.
  destruct (snd r); auto.
Qed.

Lemma cr_lf_dispatch_lemma jsc enum data size f g :
  dispatch jsc enum data size f 10 g = dispatch jsc enum data size f 13 g.
Proof. apply dispatch_same. intros; apply cr_lf_one_step. Qed.
Lemma space_tab_dispatch_lemma jsc enum data size f g :
  dispatch jsc enum data size f 32 g = dispatch jsc enum data size f 9 g.
Proof. apply dispatch_same. intros; apply space_tab_one_step. Qed.

(* ---------------------------------------------------------------------------------------------- *)
(* every leaf a byte can reach, whatever the oracles answer *)

Fixpoint leaves_on (c : N) (t : tree) (p : list act -> exit -> bool) : bool :=
  match t with
  | Leaf a x => p a x
  | Node (CByteIn l) t e => if in_set l c then leaves_on c t p else leaves_on c e p
  | Node _ t e => leaves_on c t p && leaves_on c e p
  end.

Lemma leaves_on_eval data size c t p g ax :
  leaves_on c t p = true -> eval_tree data size t c g = Ok ax -> p (fst ax) (snd ax) = true.
Proof.
  induction t as [acts x | k t1 IH1 t2 IH2]; intros H E.
  - cbn in E. injection E as <-. exact H.
  - cbn [eval_tree] in E.
    destruct k as [l| | | | |k]; cbn [leaves_on] in H.
    + cbn [eval_cond obind] in E. destruct (in_set l c); auto.
    + apply andb_true_iff in H as [H1 H2].
      destruct (eval_cond data size CIsDirective c g) as [v| | |]; cbn [obind] in E; try discriminate. destruct v; auto.
    + apply andb_true_iff in H as [H1 H2].
      destruct (eval_cond data size CHasTypeOrAnyOrEmpty c g) as [v| | |]; cbn [obind] in E; try discriminate. destruct v; auto.
    + apply andb_true_iff in H as [H1 H2].
      destruct (eval_cond data size CHasAnyOrEmpty c g) as [v| | |]; cbn [obind] in E; try discriminate. destruct v; auto.
    + apply andb_true_iff in H as [H1 H2].
      destruct (eval_cond data size CHasRegex c g) as [v| | |]; cbn [obind] in E; try discriminate. destruct v; auto.
    + apply andb_true_iff in H as [H1 H2].
      destruct (eval_cond data size (CPrevIs k) c g) as [v| | |]; cbn [obind] in E; try discriminate. destruct v; auto.
Qed.

(* blanks and line ends that change nothing: the states in which a space, tab, CR or LF is read and nothing
   happens (no event, no state change) *)
Definition inert_leaf (a : list act) (x : exit) : bool :=
  match a, x with [], XNil => true | _, _ => false end.
Definition blank_bytes : list N := [32; 9; 10; 13].
Definition blank_inert_states : list state :=
  [StBodyBody; StCommentBlock; StDescriptionTextBegin; StDescriptionTextBracketsInnerNewLine; StDescriptionTextNewline;
   StEnumBody; StExpectKeyword; StHeaderBody; StMultilineAnnotation; StParamsBody; StPathBody; StQueryBodyOrKeyword;
   StRegexBody; StRequestBody; StResponseBody; StResultBody; StRoot; StTypeBody].

Lemma blank_inert_table :
  forallb (fun s => forallb (fun c => leaves_on c (step_tree s) inert_leaf) blank_bytes) blank_inert_states = true.
Proof. vm_compute. reflexivity. Qed.

Lemma blank_inert_lemma jsc enum data size f c g g' :
  In (reg g) blank_inert_states -> In c blank_bytes ->
  dispatch jsc enum data size (S f) c g = Ok g' -> g' = g.
Proof.
  intros Hs Hc H. rewrite dispatch_one_step in H. unfold one_step in H.
  destruct (eval_tree data size (step_tree (reg g)) c g) as [ax| | |] eqn:E; cbn [obind] in H; try discriminate.
  pose proof blank_inert_table as T. rewrite forallb_forall in T. specialize (T _ Hs).
  rewrite forallb_forall in T. specialize (T _ Hc).
  pose proof (leaves_on_eval _ _ _ _ _ _ _ T E) as P.
  destruct ax as [acts x]. cbn [fst snd] in *. unfold inert_leaf in P.
  destruct acts; [|discriminate]. destruct x; try discriminate.
  cbn in H. injection H as <-. reflexivity.
Qed.

(* ---------------------------------------------------------------------------------------------- *)
(* comments *)

Definition comment_states : list state :=
  [StCommentStarted; StCommentDouble; StSingleComment; StCommentBlock; StCommentOnceClosed; StCommentTwiceClosed].
Definition state_eqb (a b : state) : bool := state_idx a =? state_idx b.
Definition in_states (s : state) (l : list state) : bool := existsb (state_eqb s) l.

(* the states from which '#' opens a comment: the current state is saved, nothing else happens *)
Definition comment_entry_leaf (a : list act) (x : exit) : bool :=
  match a, x with [APushCur; ASetStep StCommentStarted], XNil => true | _, _ => false end.
Definition comment_entry_states : list state :=
  [StBodyEnded; StContextClosed; StContextOpenedOnNewline; StEnumBody; StEnumBodyEnded; StExpectKeyword; StHeaderBody;
   StParameterOrAnnotation; StParameterOrAnnotationAfterFirstSpace; StParamsBody; StPathBody; StQueryBodyOrKeyword;
   StRequestBody; StResponseBody; StResultBody; StRoot].

Lemma comment_entry_table :
  forallb (fun s => leaves_on 35 (step_tree s) comment_entry_leaf) comment_entry_states = true.
Proof. vm_compute. reflexivity. Qed.

Lemma comment_entry_leaf_inv a x :
  comment_entry_leaf a x = true -> a = [APushCur; ASetStep StCommentStarted] /\ x = XNil.
Proof.
  unfold comment_entry_leaf. destruct a as [|a1 r1]; [discriminate|].
  destruct a1; try discriminate. destruct r1 as [|a2 r2]; [discriminate|].
  destruct a2 as [? ?|s2|?| | |?| |]; try discriminate.
  destruct s2; try discriminate. destruct r2; [|discriminate]. destruct x; try discriminate. auto.
Qed.

Lemma comment_entry_lemma jsc enum data size g r :
  In (reg g) comment_entry_states ->
  one_step jsc enum data size 35 g = Ok r ->
  r = (set_reg (set_sstk g (reg g :: sstk g)) StCommentStarted, XNil).
Proof.
  intros Hs H. unfold one_step in H.
  destruct (eval_tree data size (step_tree (reg g)) 35 g) as [ax| | |] eqn:E; cbn [obind] in H; try discriminate.
  pose proof comment_entry_table as T. rewrite forallb_forall in T. specialize (T _ Hs).
  pose proof (leaves_on_eval _ _ _ _ _ _ _ T E) as P.
  destruct ax as [acts x]. cbn [fst snd] in *. apply comment_entry_leaf_inv in P as [-> ->].
  cbn in H. injection H as <-. reflexivity.
Qed.

(* inside a comment: every action is "go to another comment state" or "return to the saved state" *)
Definition quiet_act (a : act) : bool :=
  match a with ASetStep s => in_states s comment_states | APop => true | _ => false end.
Fixpoint all_leaves (t : tree) (p : list act -> exit -> bool) : bool :=
  match t with Leaf a x => p a x | Node _ t e => all_leaves t p && all_leaves e p end.
(* at most one APop, and it is the last action *)
Fixpoint pop_last (l : list act) : bool :=
  match l with
  | [] => true
  | [APop] => true
  | APop :: _ => false
  | _ :: r => pop_last r
  end.
Definition comment_leaf (a : list act) (x : exit) : bool := forallb quiet_act a && pop_last a.

Lemma comment_table : forallb (fun s => all_leaves (step_tree s) comment_leaf) comment_states = true.
Proof. vm_compute. reflexivity. Qed.

Lemma all_leaves_eval data size c t p g ax :
  all_leaves t p = true -> eval_tree data size t c g = Ok ax -> p (fst ax) (snd ax) = true.
Proof.
  induction t as [acts x | k t1 IH1 t2 IH2]; intros H E.
  - cbn in E. injection E as <-. exact H.
  - cbn [all_leaves] in H. apply andb_true_iff in H as [H1 H2]. cbn [eval_tree obind] in E.
    destruct (eval_cond data size k c g) as [v| | |]; cbn in E; try discriminate. destruct v; auto.
Qed.

(* what a configuration keeps through a comment: everything but the state register and the state stack *)
Definition same_but_state (g g' : cfg) : Prop :=
  pos g' = pos g /\ pre g' = pre g /\ rest g' = rest g /\ finds g' = finds g /\ estk g' = estk g /\ lastp g' = lastp g.

Lemma same_but_state_refl g : same_but_state g g.
Proof. repeat split. Qed.

(* the effect of a list of quiet actions *)
Inductive quiet_result (g : cfg) : cfg -> Prop :=
| QStay g' : same_but_state g g' -> sstk g' = sstk g -> In (reg g') comment_states \/ reg g' = reg g -> quiet_result g g'
| QPop g' s r : same_but_state g g' -> sstk g = s :: r -> reg g' = s -> sstk g' = r -> quiet_result g g'.

Lemma in_states_In s l : in_states s l = true -> In s l.
Proof.
  unfold in_states. rewrite existsb_exists. intros [x [Hx E]]. unfold state_eqb in E.
  apply N.eqb_eq in E. assert (s = x) as ->; [|exact Hx].
  rewrite <- (state_of_idx_idx s), <- (state_of_idx_idx x), E. reflexivity.
Qed.

Lemma exec_quiet jsc enum acts : forall g g',
  forallb quiet_act acts = true -> pop_last acts = true ->
  exec_acts jsc enum acts g = Ok g' -> quiet_result g g'.
Proof.
  induction acts as [|a r IH]; intros g g' Hq Hp E.
  - cbn in E. injection E as <-. apply QStay; [apply same_but_state_refl|reflexivity|right; reflexivity].
  - cbn [forallb] in Hq. apply andb_true_iff in Hq as [Ha Hr].
    destruct a; try discriminate.
    + (* ASetStep *)
      cbn [exec_acts exec_act obind] in E.
      assert (Hp' : pop_last r = true) by (destruct r; auto).
      specialize (IH _ _ Hr Hp' E). cbn [quiet_act] in Ha. apply in_states_In in Ha.
      destruct IH as [g1 S1 K1 R1|g1 s1 r1 S1 K1 R1 T1].
      * apply QStay; [exact S1|exact K1|]. destruct R1 as [R1|R1]; [left; exact R1|left; rewrite R1; exact Ha].
      * eapply QPop; eauto.
    + (* APop: must be last *)
      destruct r; [|discriminate].
      cbn [exec_acts exec_act obind] in E. destruct (sstk g) as [|s1 r1] eqn:K; [discriminate|].
      cbn in E. injection E as <-. eapply QPop; [|exact K|reflexivity|reflexivity]. repeat split.
Qed.

Lemma comment_step_lemma jsc enum data size c g g' x :
  In (reg g) comment_states ->
  one_step jsc enum data size c g = Ok (g', x) ->
  same_but_state g g' /\
  ((In (reg g') comment_states /\ sstk g' = sstk g) \/ (exists s r, sstk g = s :: r /\ reg g' = s /\ sstk g' = r)).
Proof.
  intros Hs H. unfold one_step in H.
  destruct (eval_tree data size (step_tree (reg g)) c g) as [ax| | |] eqn:E; cbn [obind] in H; try discriminate.
  destruct (exec_acts jsc enum (fst ax) g) as [g1| | |] eqn:X; cbn [obind] in H; try discriminate.
  injection H as <- <-.
  pose proof comment_table as T. rewrite forallb_forall in T. specialize (T _ Hs).
  pose proof (all_leaves_eval _ _ _ _ _ _ _ T E) as P. unfold comment_leaf in P.
  apply andb_true_iff in P as [P1 P2].
  pose proof (exec_quiet _ _ _ _ _ P1 P2 X) as Q.
  destruct Q as [g2 S2 K2 R2|g2 s2 r2 S2 K2 R2 T2].
  - split; [exact S2|]. left. split; [|exact K2]. destruct R2 as [R2|R2]; [exact R2|rewrite R2; exact Hs].
  - split; [exact S2|]. right. exists s2, r2. auto.
Qed.

(* a line comment "# text" up to, not including, its line end: scanned from a state that admits comments, it leaves
   the scanner in stateSingleComment with the interrupted state on top of the state stack and NOTHING else changed
   but the read position; the line end then returns to the interrupted state and is handed to it *)
Definition plain_comment_byte (c : N) : bool := negb (in_set [0; 10; 13; 35] c).

Definition step_over jsc enum data size (c : N) (g : cfg) : outcome cfg :=
  obind (dispatch jsc enum data size 2 c g) (fun g1 => Ok (advance g1 1)).

Fixpoint feed jsc enum data size (cs : list N) (g : cfg) : outcome cfg :=
  match cs with
  | [] => Ok g
  | c :: r => obind (step_over jsc enum data size c g) (feed jsc enum data size r)
  end.

Lemma single_comment_table :
  leaves_on 35 (step_tree StCommentStarted) (fun a x => match a, x with [ASetStep StCommentDouble], XNil => true | _, _ => false end) = true /\
  (forall c, plain_comment_byte c = true ->
     eval_tree [] 0 (step_tree StCommentStarted) c (init_cfg []) = Ok ([ASetStep StSingleComment], XNil) /\
     eval_tree [] 0 (step_tree StSingleComment) c (init_cfg []) = Ok ([], XNil)).
Proof.
  split; [vm_compute; reflexivity|].
  intros c H. unfold plain_comment_byte, in_set in H. cbn [existsb] in H.
  rewrite !orb_false_r in H. apply negb_true_iff in H.
  apply orb_false_iff in H as [H0 H]. apply orb_false_iff in H as [H10 H]. apply orb_false_iff in H as [H13 H35].
  cbn [step_tree eval_tree eval_cond obind in_set existsb].
  rewrite ?H0, ?H10, ?H13, ?H35. cbn. split; reflexivity.
Qed.

Lemma eval_tree_bytes_only data size t c g g0 :
  (fix only_bytes (t : tree) : bool := match t with Leaf _ _ => true | Node (CByteIn _) a b => only_bytes a && only_bytes b | Node _ _ _ => false end) t = true ->
  eval_tree data size t c g = eval_tree [] 0 t c g0.
Proof.
  induction t as [a x|k t1 IH1 t2 IH2]; intros H; [reflexivity|].
  destruct k; try discriminate. apply andb_true_iff in H as [H1 H2].
  cbn [eval_tree eval_cond obind]. destruct (in_set l c); auto.
Qed.

Definition in_comment (g : cfg) (s : state) (k : list state) : Prop :=
  sstk g = s :: k /\ (reg g = StCommentStarted \/ reg g = StSingleComment).

Lemma plain_byte_in_comment jsc enum data size c g s k :
  plain_comment_byte c = true -> in_comment g s k ->
  step_over jsc enum data size c g = Ok (advance (set_reg g StSingleComment) 1).
Proof.
  intros Hc [K R]. unfold step_over. rewrite dispatch_one_step. unfold one_step.
  destruct (single_comment_table) as [_ T]. destruct (T c Hc) as [T1 T2].
  destruct R as [R|R]; rewrite R.
  - rewrite (eval_tree_bytes_only data size _ c g (init_cfg [])) by reflexivity. rewrite T1. cbn. reflexivity.
  - rewrite (eval_tree_bytes_only data size _ c g (init_cfg [])) by reflexivity. rewrite T2. cbn.
    destruct g; cbn in *; subst; reflexivity.
Qed.

Fixpoint advance_n (g : cfg) (n : nat) : cfg := match n with O => g | S k => advance_n (advance g 1) k end.

Lemma advance_keeps g : reg (advance g 1) = reg g /\ sstk (advance g 1) = sstk g /\ finds (advance g 1) = finds g /\
                         estk (advance g 1) = estk g /\ lastp (advance g 1) = lastp g.
Proof. unfold advance, set_zip. cbn. repeat split. Qed.

Lemma advance_set_reg g s : advance (set_reg g s) 1 = set_reg (advance g 1) s.
Proof. unfold advance, set_reg, set_zip. cbn. reflexivity. Qed.

Lemma comment_text_lemma jsc enum data size : forall (text : list N) g s k,
  forallb plain_comment_byte text = true -> in_comment g s k -> text <> [] ->
  feed jsc enum data size text g = Ok (set_reg (advance_n g (List.length text)) StSingleComment).
Proof.
  induction text as [|c r IH]; intros g s k Hall Hin Hne; [contradiction|].
  cbn [forallb] in Hall. apply andb_true_iff in Hall as [Hc Hr].
  cbn [feed]. rewrite (plain_byte_in_comment _ _ _ _ _ _ _ _ Hc Hin). cbn [obind].
  destruct r as [|c2 r2].
  - cbn [feed List.length advance_n]. rewrite advance_set_reg. reflexivity.
  - rewrite (IH (advance (set_reg g StSingleComment) 1) s k Hr); [| |discriminate].
    + cbn [List.length advance_n]. rewrite advance_set_reg.
      f_equal. generalize (List.length r2). intros n.
      assert (G : forall m h, set_reg (advance_n (set_reg h StSingleComment) m) StSingleComment = set_reg (advance_n h m) StSingleComment).
      { induction m as [|m IHm]; intros h; cbn [advance_n]; [destruct h; reflexivity|]. rewrite advance_set_reg. apply IHm. }
      cbn [advance_n]. rewrite advance_set_reg. apply G.
    + destruct Hin as [K R]. split; [|right; reflexivity].
      destruct (advance_keeps (set_reg g StSingleComment)) as [_ [K2 _]]. rewrite K2. cbn. exact K.
Qed.

(* the whole of "#" + text, from a state that admits a comment *)
Theorem line_comment_skipped_lemma jsc enum data size (text : list N) g :
  In (reg g) comment_entry_states -> forallb plain_comment_byte text = true -> text <> [] ->
  forall g1, step_over jsc enum data size 35 g = Ok g1 ->
  feed jsc enum data size text g1 =
  Ok (set_reg (set_sstk (advance_n g (S (List.length text))) (reg g :: sstk g)) StSingleComment).
Proof.
  intros Hs Hall Hne g1 H1. unfold step_over in H1. rewrite dispatch_one_step in H1.
  destruct (one_step jsc enum data size 35 g) as [r| | |] eqn:E; cbn [obind] in H1; try discriminate.
  pose proof (comment_entry_lemma _ _ _ _ _ _ Hs E) as ->. cbn [fst snd obind] in H1. injection H1 as <-.
  rewrite (comment_text_lemma _ _ _ _ text _ (reg g) (sstk g) Hall); [|split; [reflexivity|left; reflexivity]|exact Hne].
  f_equal. cbn [advance_n].
  assert (G : forall m h a b, set_reg (advance_n (set_reg (set_sstk h a) b) m) StSingleComment = set_reg (set_sstk (advance_n h m) a) StSingleComment).
  { induction m as [|m IHm]; intros h a b; cbn [advance_n]; [destruct h; reflexivity|].
    replace (advance (set_reg (set_sstk h a) b) 1) with (set_reg (set_sstk (advance h 1) a) b) by (unfold advance, set_reg, set_sstk, set_zip; reflexivity).
    apply IHm. }
  replace (advance (set_reg (set_sstk g (reg g :: sstk g)) StCommentStarted) 1)
    with (set_reg (set_sstk (advance g 1) (reg g :: sstk g)) StCommentStarted) by (unfold advance, set_reg, set_sstk, set_zip; reflexivity).
  apply G.
Qed.

(* ...and its line end: the interrupted state is restored and the line end is handed to it *)
Theorem line_comment_end_lemma jsc enum data size f c g s k :
  (c = 10 \/ c = 13 \/ c = 0) -> reg g = StSingleComment -> sstk g = s :: k ->
  dispatch jsc enum data size (S f) c g = dispatch jsc enum data size f c (set_reg (set_sstk g k) s).
Proof.
  intros Hc R K. rewrite dispatch_one_step. unfold one_step. rewrite R.
  rewrite (eval_tree_bytes_only data size _ c g (init_cfg [])) by reflexivity.
  assert (E : eval_tree [] 0 (step_tree StSingleComment) c (init_cfg []) = Ok ([APop], XRedo))
    by (destruct Hc as [->|[->| ->]]; vm_compute; reflexivity).
  rewrite E. cbn [obind fst snd exec_acts exec_act]. rewrite K. cbn. reflexivity.
Qed.

(* non-vacuity: a concrete run *)
Example line_comment_example :
  let data := bs "# note" ++ [10] in
  let g := init_cfg data in
  In (reg g) comment_entry_states /\
  exists g1, step_over (fun _ => LenOk 0) (fun _ => LenOk 0) data 7 35 g = Ok g1 /\
             feed (fun _ => LenOk 0) (fun _ => LenOk 0) data 7 (bs " note") g1 =
             Ok (set_reg (set_sstk (advance_n g 6) [StRoot]) StSingleComment).
Proof.
  cbn zeta. split; [vm_compute; auto 20|]. eexists. split; [vm_compute; reflexivity|]. vm_compute. reflexivity.
Qed.
