(* C14, second half - no user content is silently dropped: instantiation of the metatheory of
   proofs/TM_Trivia.v with the table REGENERATED from /repo/scanner, the typing inferred by go2coq and the
   hand-written skip specification below. *)
From Coq Require Import List NArith ZArith Bool String Lia.
From JV.lib Require Import Bytes.
From JV.gen Require Import ScannerTable ScannerTyping.
From JV.model Require Import ScannerSem TableCheck TriviaCheck.
From JV.proofs Require Import TM_Basics TM_Events TM_Loop ScanTheorems TM_Trivia.
Import ListNotations.
Open Scope N_scope.

(* ---------------------------------------------------------------------------------------------- *)
(* THE SKIP SPECIFICATION: per state, the bytes the state may consume without any lexeme covering them.
   9 = tab, 10 = LF, 13 = CR, 32 = blank, 35 = '#', 42 = '*', 47 = '/'.  Keyword-prefix states, parameter,
   description-text, regex, schema and enum states skip nothing: what they consume is inside their lexeme. *)
Definition gen_skip_ok (s : state) (c : N) : bool :=
  match s with
  (* between lexemes: blanks, line ends, and the '#' that opens a comment *)
  | StBodyEnded | StContextClosed | StContextOpenedOnNewline | StEnumBody | StEnumBodyEnded | StExpectKeyword
  | StHeaderBody | StParamsBody | StPathBody | StQueryBodyOrKeyword | StRequestBody | StResponseBody
  | StResultBody | StRoot => in_set [9; 10; 13; 32; 35] c
  (* between lexemes where a comment cannot start: blanks and line ends *)
  | StBodyBody | StTypeBody => in_set [9; 10; 13; 32] c
  (* the blank or line end that ends a schema / an enum (the lexeme was closed one byte back) *)
  | StEnumBodyClose | StSchemaClosed => in_set [9; 10; 13; 32] c
  (* after a keyword or a parameter: blanks, the line end, '#', and the first '/' of an annotation *)
  | StParameterOrAnnotation | StParameterOrAnnotationAfterFirstSpace => in_set [9; 10; 13; 32; 35; 47] c
  (* the second delimiter byte of an annotation: '//' or '/*' *)
  | StAnnotationSign2 => in_set [42; 47] c
  (* the '/' of the closing '*/' (its '*' is skip_prev below) *)
  | StMultilineAnnotation => c =? 47
  (* the '#' that ends a '//' annotation and starts a comment *)
  | StAnnotation | StAnnotationTextStart => c =? 35
  (* comment text: after '#' or '##' anything up to (not including) the line end ... *)
  | StCommentStarted | StCommentDouble | StSingleComment => negb (in_set [0; 10; 13] c)
  (* ... between '###' and '###' anything ... *)
  | StCommentBlock => negb (c =? 0)
  (* ... and the 2nd and 3rd '#' of the closing '###' *)
  | StCommentOnceClosed | StCommentTwiceClosed => c =? 35
  | _ => false
  end.

(* the '*' of the '*/' that closes a multi-line annotation: the lexeme ends before it *)
Definition gen_skip_prev_ok (s : state) (k c : N) : bool :=
  match s with StMultilineAnnotation => (k =? 42) && (c =? 47) | _ => false end.

Definition gen_skip : skipspec := {| skip_ok := gen_skip_ok; skip_prev_ok := gen_skip_prev_ok |}.

(* the finite obligation, decided by evaluation over every (state, byte, reachable leaf) *)
Lemma gen_trivia_ok : trivia_ok gen_typing gen_skip = true.
Proof. vm_compute. reflexivity. Qed.

(* the specification is the SMALLEST one that passes: every pair it allows is needed by the table (with
   nothing allowed, exactly these pairs are reported by the checker) *)
Definition skip_nothing : skipspec := {| skip_ok := fun _ _ => false; skip_prev_ok := gen_skip_prev_ok |}.
Lemma gen_skip_minimal :
  forallb (fun st => forallb (fun c =>
    Bool.eqb (gen_skip_ok st c)
             (negb (forallb (leaf_triv_ok gen_typing skip_nothing st c) (leaves_prev (step_tree st) c None))))
    (filter (fun c => negb (c =? 0)) all_byte_values)) all_states = true.
Proof. vm_compute. reflexivity. Qed.

(* the third finite obligation: the events one dispatch emits (TriviaCheck.pend_ok); the phase typing is inferred by
   evaluation (untrusted) and then checked *)
Definition gen_ph_tbl : list (list N) := Eval vm_compute in infer_ph gen_typing.
Definition gen_ph : N -> state -> N := ph_of gen_ph_tbl.
Lemma gen_pend_ok : pend_ok gen_typing gen_ph = true.
Proof. vm_compute. reflexivity. Qed.

(* ---------------------------------------------------------------------------------------------- *)
(* the theorem: when the scan reaches the end of the file, every byte of the input is inside a lexeme, or was consumed
   in a state that may skip it (consume_trace = the (position, state) pairs the byte loop of Next() went through), or
   is the '*' of a closing '*/' *)
Definition skipped (jsc_len enum_len : bytes -> len_result) (data : bytes) (p : N) : Prop :=
  SJ gen_skip data (consume_trace jsc_len enum_len data) p.

Theorem no_content_dropped_lemma jsc_len enum_len data :
  len_sane jsc_len -> len_sane enum_len -> Forall isb data ->
  forall lexs g, scan jsc_len enum_len data = (lexs, SEof, g) ->
  forall p, p < N.of_nat (List.length data) ->
    (exists l, In l lexs /\ lb l <= p /\ p <= le l) \/ skipped jsc_len enum_len data p.
Proof.
  intros H1 H2 H3 lexs g Hs p Hp.
  exact (scan_cover_generic gen_typing gen_skip gen_ph gen_table_ok gen_trivia_ok gen_pend_ok
           jsc_len enum_len H1 H2 data H3 lexs g Hs p Hp).
Qed.

(* what is left on the event stack at the end of the file: nothing, or one Begin placed AT the end of the file, whose
   lexeme covers no byte (it is never handed out: after "Description // x" at the very end of the file the empty Text
   lexeme that a final line end would produce is missing; no byte of the input is lost with it) *)
Theorem eof_stack_covers_nothing_lemma jsc_len enum_len data :
  len_sane jsc_len -> len_sane enum_len -> Forall isb data ->
  forall lexs g, scan jsc_len enum_len data = (lexs, SEof, g) ->
  estk g = [] \/ exists e, estk g = [(e, N.of_nat (List.length data))].
Proof.
  intros H1 H2 H3 lexs g Hs.
  exact (scan_eof_stack_generic gen_typing gen_skip gen_ph gen_table_ok gen_trivia_ok gen_pend_ok
           jsc_len enum_len H1 H2 data H3 lexs g Hs).
Qed.

(* what a skipped byte can be, independently of the scanner state: a blank, a line end, '#', an annotation
   delimiter byte '/' or '*', or any byte but a line end while the scanner is inside a comment *)
Definition comment_text_states : list state :=
  [StCommentStarted; StCommentDouble; StSingleComment; StCommentBlock].
Definition trivia_byte (c : N) : bool := in_set [9; 10; 13; 32; 35; 42; 47] c.

Lemma skip_ok_class s c :
  gen_skip_ok s c = true -> trivia_byte c = true \/ In s comment_text_states.
Proof.
  unfold comment_text_states.
  destruct s; cbn [gen_skip_ok]; intros H; try discriminate;
    try (right; cbn; tauto);
    left; unfold trivia_byte, in_set in *; cbn [existsb] in *;
    repeat match goal with
           | H : (_ || _) = true |- _ => apply orb_true_iff in H; destruct H as [H|H]
           | H : (c =? _) = true |- _ => apply N.eqb_eq in H; subst c; reflexivity
           | H : false = true |- _ => discriminate
           end.
Qed.

Lemma skip_prev_ok_class s k c : gen_skip_prev_ok s k c = true -> s = StMultilineAnnotation /\ k = 42 /\ c = 47.
Proof.
  destruct s; cbn; intros H; try discriminate. apply andb_true_iff in H as [A B].
  apply N.eqb_eq in A, B. auto.
Qed.

Theorem skipped_is_trivia_lemma jsc_len enum_len data p :
  skipped jsc_len enum_len data p ->
  trivia_byte (byte_at data p) = true \/
  exists s, In (p, s) (consume_trace jsc_len enum_len data) /\ In s comment_text_states.
Proof.
  intros [(s & A & B)|(s & A & B)].
  - destruct (skip_ok_class _ _ B) as [H|H]; [left; exact H | right; exists s; split; assumption].
  - destruct (skip_prev_ok_class _ _ _ B) as (_ & -> & _). left. reflexivity.
Qed.

(* ---------------------------------------------------------------------------------------------- *)
(* computable versions, for the examples *)
Definition coveredb (lexs : list lexeme) (p : N) : bool := existsb (fun l => (lb l <=? p) && (p <=? le l)) lexs.
Definition positions (data : bytes) : list N := map N.of_nat (seq 0 (List.length data)).
Definition uncovered (lexs : list lexeme) (data : bytes) : list N := filter (fun p => negb (coveredb lexs p)) (positions data).
Definition skippedb (tr : list (N * state)) (data : bytes) (p : N) : bool :=
  existsb (fun ps => (fst ps =? p) && gen_skip_ok (snd ps) (byte_at data p)) tr ||
  existsb (fun ps => (fst ps =? p + 1) && gen_skip_prev_ok (snd ps) (byte_at data p) (byte_at data (p + 1))) tr.

Definition no_body (_ : bytes) : len_result := LenOk 0.

(* a comment, a directive with a parameter and a '//' annotation, a response with a '/* */' annotation and a regex
   body: the scan ends at the end of the file with nothing open or pending; the bytes outside the lexemes are exactly
   the comment, the blanks and line ends, and the annotation delimiters *)
Definition ex_data : bytes :=
  bs "# hi" ++ [10] ++ bs "GET /a // note" ++ [10] ++ bs "200 regex /* m */" ++ [10] ++ bs "/ab/ # end" ++ [10].

Example no_content_dropped_example :
  let r := scan no_body no_body ex_data in
  let lexs := fst (fst r) in
  snd (fst r) = SEof /\ estk (snd r) = [] /\ finds (snd r) = [] /\
  map (fun l => (lb l, le l)) lexs = [(5, 7); (9, 10); (14, 18); (20, 22); (24, 28); (32, 34); (38, 41)] /\
  uncovered lexs ex_data = [0; 1; 2; 3; 4; 8; 11; 12; 13; 19; 23; 29; 30; 31; 35; 36; 37; 42; 43; 44; 45; 46; 47; 48] /\
  forallb (skippedb (consume_trace no_body no_body ex_data) ex_data) (uncovered lexs ex_data) = true.
Proof. vm_compute. repeat split; reflexivity. Qed.

(* ---------------------------------------------------------------------------------------------- *)
(* The hypothesis "no lexeme half open at the end of the file": over every leaf the end-of-file byte reaches, no state
   accepts the end of the file while a lexeme that covers real bytes is open (table fact).  Until the repair 6fb0755
   there was one such state, stateRegexBodyAfterSlash: a regex body whose last byte is a backslash at the end of the
   file was dropped without a diagnostic ("GET /a / 200 regex / /ab\": no Text lexeme, no error). *)
Lemma eof_open_states_table_partial : eof_open_states gen_typing gen_skip = [].
Proof. vm_compute. reflexivity. Qed.

Definition dropped_regex_data : bytes := bs "GET /a" ++ [10] ++ bs "200 regex" ++ [10] ++ bs "/ab" ++ [92].

Example regex_backslash_at_eof_rejected :
  match snd (fst (scan no_body no_body dropped_regex_data)) with SErr _ _ => True | _ => False end.
Proof. vm_compute. exact I. Qed.

(* the events lost at the end of the file: "URL /a / Description // x" without a final line end.  The end of the file
   ends the annotation and re-dispatches to the description state, which opens and closes an EMPTY Text lexeme at the
   end of the file; Next() hands out the annotation, then pushes the pending TextBegin and reports the end of the file
   with the TextEnd still pending.  Nothing is lost: the lexemes and the skipped bytes cover the whole input.  The real
   scanner: harness `lex 55524c202f610a4465736372697074696f6e202f2f2078` -> `0:0:2,1:4:5,0:7:17,2:21:22|eof`. *)
Definition lost_begin_data : bytes := bs "URL /a" ++ [10] ++ bs "Description // x".

Example lost_begin_at_eof_example :
  let r := scan no_body no_body lost_begin_data in
  let lexs := fst (fst r) in
  snd (fst r) = SEof /\ estk (snd r) = [(TextBegin, 23)] /\ finds (snd r) = [(TextEnd, 22)] /\
  map (fun l => (lb l, le l)) lexs = [(0, 2); (4, 5); (7, 17); (21, 22)] /\
  uncovered lexs lost_begin_data = [3; 6; 18; 19; 20] /\
  forallb (skippedb (consume_trace no_body no_body lost_begin_data) lost_begin_data) (uncovered lexs lost_begin_data) = true.
Proof. vm_compute. repeat split; reflexivity. Qed.
