(* C15 — proofs about the text normalisers modelled in model/Description.v *)
From Coq Require Import List NArith PeanoNat Bool String Lia.
From JV.lib Require Import Bytes.
From JV.proofs Require Import BytesLemmas.
From JV.model Require Import Description.
Import ListNotations.
Open Scope N_scope.

(* ================================================================================== *)
(* 1. generic list facts *)

Lemma last_snoc (A : Type) (l : list A) (x d : A) : last (l ++ [x]) d = x.
Proof. apply last_last. Qed.

Lemma snoc_cases (A : Type) (l : list A) : l = [] \/ exists l' x, l = l' ++ [x].
Proof.
  destruct l as [|a l]; [left; reflexivity | right].
  destruct (exists_last (l := a :: l)) as (l' & x & E); [discriminate|]. exists l', x. exact E.
Qed.

Lemma hd_rev_last (l : bytes) d : hd d (rev l) = last l d.
Proof.
  destruct (snoc_cases _ l) as [->|(l' & x & ->)]; [reflexivity|].
  rewrite rev_app_distr, last_snoc. reflexivity.
Qed.

Lemma last_app_nonempty (A : Type) (a b : list A) d : b <> [] -> last (a ++ b) d = last b d.
Proof.
  intros Hb. destruct (snoc_cases _ b) as [->|(b' & x & ->)]; [contradiction|].
  rewrite app_assoc, !last_snoc. reflexivity.
Qed.

Lemma last_map (A B : Type) (f : A -> B) (l : list A) d : last (map f l) (f d) = f (last l d).
Proof.
  induction l as [|a l IH]; [reflexivity|].
  destruct l as [|b l]; [reflexivity|]. exact IH.
Qed.

(* ---- has_prefix ---- *)
Lemma has_prefix_refl p : has_prefix p p = true.
Proof. induction p as [|x p IH]; simpl; [reflexivity|]. rewrite N.eqb_refl. exact IH. Qed.

Lemma has_prefix_nil_r p : has_prefix p [] = true -> p = [].
Proof. destruct p; [reflexivity | discriminate]. Qed.

Lemma has_prefix_trans a b c : has_prefix a b = true -> has_prefix b c = true -> has_prefix a c = true.
Proof.
  intros H1 H2. apply has_prefix_spec in H1 as [r1 ->]. apply has_prefix_spec in H2 as [r2 ->].
  rewrite <- app_assoc. apply has_prefix_app.
Qed.

Lemma has_prefix_app_r p s r : has_prefix p s = true -> has_prefix p (s ++ r) = true.
Proof. intros H. apply has_prefix_spec in H as [r1 ->]. rewrite <- app_assoc. apply has_prefix_app. Qed.

Lemma has_prefix_length p s : has_prefix p s = true -> (List.length p <= List.length s)%nat.
Proof. intros H. apply has_prefix_spec in H as [r ->]. rewrite app_length. lia. Qed.

Lemma trim_prefix_app p r : trim_prefix p (p ++ r) = r.
Proof.
  unfold trim_prefix. rewrite has_prefix_app.
  induction p as [|x p IH]; [reflexivity | exact IH].
Qed.

Lemma trim_prefix_nil s : trim_prefix [] s = s.
Proof. reflexivity. Qed.

Lemma trim_prefix_of_nil p : trim_prefix p [] = [].
Proof. unfold trim_prefix. destruct (has_prefix p []); [apply skipn_nil | reflexivity]. Qed.

Lemma trim_prefix_suffix p s : exists pre, s = pre ++ trim_prefix p s.
Proof.
  unfold trim_prefix. destruct (has_prefix p s).
  - exists (firstn (List.length p) s). symmetry. apply firstn_skipn.
  - exists []. reflexivity.
Qed.

(* ---- infix ---- *)
Definition infix (a s : bytes) : Prop := exists pre post, s = pre ++ a ++ post.

Lemma infix_refl s : infix s s.
Proof. exists [], []. rewrite app_nil_r. reflexivity. Qed.

Lemma infix_trans a b c : infix a b -> infix b c -> infix a c.
Proof.
  intros (p1 & q1 & ->) (p2 & q2 & ->). exists (p2 ++ p1), (q1 ++ q2).
  rewrite <- !app_assoc. reflexivity.
Qed.

Lemma infix_suffix pre s : infix s (pre ++ s).
Proof. exists pre, []. rewrite app_nil_r. reflexivity. Qed.

Lemma infix_prefix s post : infix s (s ++ post).
Proof. exists [], post. reflexivity. Qed.

Lemma infix_In a s c : infix a s -> In c a -> In c s.
Proof. intros (p & q & ->) H. apply in_or_app. right. apply in_or_app. left. exact H. Qed.

Lemma infix_contains sub a s : infix a s -> contains sub a = true -> contains sub s = true.
Proof.
  intros (p & q & ->) H. apply contains_spec in H as (p1 & q1 & ->).
  apply contains_spec. exists (p ++ p1), (q1 ++ q). rewrite <- !app_assoc. reflexivity.
Qed.

(* ---- trim_left / trim_right ---- *)
Lemma trim_left_suffix cut s : exists pre, s = pre ++ trim_left cut s /\ forallb cut pre = true.
Proof.
  induction s as [|c s (pre & E & Hp)]; simpl.
  - exists []. split; reflexivity.
  - destruct (cut c) eqn:Ec.
    + exists (c :: pre). simpl. rewrite Ec, Hp. split; [f_equal; exact E | reflexivity].
    + exists []. split; reflexivity.
Qed.

Lemma trim_left_hd cut s : trim_left cut s = [] \/ cut (hd 0 (trim_left cut s)) = false.
Proof.
  induction s as [|c s IH]; simpl; [left; reflexivity|].
  destruct (cut c) eqn:Ec; [exact IH | right; exact Ec].
Qed.

Lemma trim_left_id cut s : s = [] \/ cut (hd 0 s) = false -> trim_left cut s = s.
Proof. intros [->|H]; [reflexivity|]. destruct s as [|c s]; [reflexivity|]. simpl in *. rewrite H. reflexivity. Qed.

Lemma trim_left_all cut s : forallb cut s = true -> trim_left cut s = [].
Proof.
  induction s as [|c s IH]; simpl; [reflexivity|]. intros H. apply andb_true_iff in H as [H1 H2].
  rewrite H1. exact (IH H2).
Qed.

Lemma trim_left_app_nonempty cut s r : trim_left cut s <> [] -> trim_left cut (s ++ r) = trim_left cut s ++ r.
Proof.
  induction s as [|c s IH]; simpl; [contradiction|].
  destruct (cut c); [exact IH | reflexivity].
Qed.

Lemma trim_left_sub cut1 cut2 s :
  (forall c, cut1 c = true -> cut2 c = true) -> trim_left cut2 (trim_left cut1 s) = trim_left cut2 s.
Proof.
  intros Hsub. induction s as [|c s IH]; simpl; [reflexivity|].
  destruct (cut1 c) eqn:E1; [rewrite (Hsub _ E1); exact IH | reflexivity].
Qed.

Lemma trim_right_prefix cut s : exists post, s = trim_right cut s ++ post /\ forallb cut post = true.
Proof.
  unfold trim_right. destruct (trim_left_suffix cut (rev s)) as (pre & E & Hp).
  exists (rev pre). split.
  - rewrite <- rev_app_distr, <- E, rev_involutive. reflexivity.
  - rewrite forallb_forall in *. intros x Hx. apply Hp. apply in_rev. exact Hx.
Qed.

Lemma trim_right_last cut s : trim_right cut s = [] \/ cut (last (trim_right cut s) 0) = false.
Proof.
  unfold trim_right. destruct (trim_left_hd cut (rev s)) as [E|E].
  - left. rewrite E. reflexivity.
  - right. rewrite <- hd_rev_last, rev_involutive. exact E.
Qed.

Lemma trim_right_id cut s : s = [] \/ cut (last s 0) = false -> trim_right cut s = s.
Proof.
  intros H. unfold trim_right. rewrite trim_left_id; [apply rev_involutive|].
  destruct H as [->|H]; [left; reflexivity | right; rewrite hd_rev_last; exact H].
Qed.

Lemma trim_right_all cut s : forallb cut s = true -> trim_right cut s = [].
Proof.
  intros H. unfold trim_right. rewrite trim_left_all; [reflexivity|].
  rewrite forallb_forall in *. intros x Hx. apply H. apply in_rev. exact Hx.
Qed.

Lemma trim_right_snoc cut s c : cut c = true -> trim_right cut (s ++ [c]) = trim_right cut s.
Proof. intros H. unfold trim_right. rewrite rev_app_distr. simpl. rewrite H. reflexivity. Qed.

Lemma trim_right_sub cut1 cut2 s :
  (forall c, cut1 c = true -> cut2 c = true) -> trim_right cut2 (trim_right cut1 s) = trim_right cut2 s.
Proof. intros Hsub. unfold trim_right. rewrite rev_involutive, trim_left_sub; [reflexivity | exact Hsub]. Qed.

Lemma trim_right_hd cut s : trim_right cut s <> [] -> hd 0 (trim_right cut s) = hd 0 s.
Proof.
  intros H. destruct (trim_right_prefix cut s) as (post & E & _).
  destruct (trim_right cut s) as [|c r]; [contradiction|]. rewrite E. reflexivity.
Qed.

Lemma infix_trim_left cut s : infix (trim_left cut s) s.
Proof. destruct (trim_left_suffix cut s) as (pre & E & _). rewrite E at 2. apply infix_suffix. Qed.

Lemma infix_trim_right cut s : infix (trim_right cut s) s.
Proof. destruct (trim_right_prefix cut s) as (post & E & _). rewrite E at 2. apply infix_prefix. Qed.

Lemma infix_trim cut s : infix (trim cut s) s.
Proof. unfold trim. eapply infix_trans; [apply infix_trim_right | apply infix_trim_left]. Qed.

Lemma infix_tl s : infix (tl s) s.
Proof. destruct s as [|c s]; [apply infix_refl|]. exists [c], []. simpl. rewrite app_nil_r. reflexivity. Qed.

Lemma infix_removelast s : infix (removelast s) s.
Proof.
  destruct (snoc_cases _ s) as [->|(l & x & ->)]; [apply infix_refl|].
  rewrite removelast_last. apply infix_prefix.
Qed.

Lemma infix_skipn n s : infix (skipn n s) s.
Proof. rewrite <- (firstn_skipn n s) at 2. apply infix_suffix. Qed.

Lemma infix_rev a s : infix a s -> infix (rev a) (rev s).
Proof. intros (p & q & ->). exists (rev q), (rev p). rewrite !rev_app_distr, app_assoc. reflexivity. Qed.

(* ---- split_byte / join_byte ---- *)
Lemma join_split sep s : join_byte sep (split_byte sep s) = s.
Proof.
  induction s as [|c s IH]; [reflexivity|]. simpl.
  destruct (c =? sep) eqn:E.
  - apply N.eqb_eq in E. subst c.
    destruct (split_byte sep s) as [|q qs] eqn:Es; [exfalso; eapply split_byte_nonempty; exact Es|].
    simpl. simpl in IH. rewrite IH. reflexivity.
  - destruct (split_byte sep s) as [|q qs] eqn:Es; [exfalso; eapply split_byte_nonempty; exact Es|].
    simpl in *. destruct qs; simpl in *; rewrite <- IH; reflexivity.
Qed.

Lemma split_no_sep sep s : ~ In sep s -> split_byte sep s = [s].
Proof.
  induction s as [|c s IH]; [reflexivity|]. intros H. simpl.
  destruct (c =? sep) eqn:E; [apply N.eqb_eq in E; exfalso; apply H; left; exact E|].
  rewrite IH; [reflexivity|]. intros Hin. apply H. right. exact Hin.
Qed.

Lemma split_join sep ls :
  ls <> [] -> (forall l, In l ls -> ~ In sep l) -> split_byte sep (join_byte sep ls) = ls.
Proof.
  induction ls as [|l ls IH]; [contradiction|]. intros _ H.
  destruct ls as [|l2 ls].
  - simpl. apply split_no_sep. apply H. left. reflexivity.
  - change (join_byte sep (l :: l2 :: ls)) with (l ++ sep :: join_byte sep (l2 :: ls)).
    rewrite split_byte_app, IH; [|discriminate | intros x Hx; apply H; right; exact Hx].
    rewrite split_no_sep; [reflexivity | apply H; left; reflexivity].
Qed.

Lemma split_lines_no_sep sep s l : In l (split_byte sep s) -> ~ In sep l.
Proof.
  revert l. induction s as [|c s IH]; intros l; simpl.
  - intros [<-|[]]. intros [].
  - destruct (c =? sep) eqn:E.
    + intros [<-|H]; [intros [] | apply IH; exact H].
    + destruct (split_byte sep s) as [|q qs] eqn:Es; [intros [<-|[]]|].
      * intros [Hc|[]]. subst c. rewrite N.eqb_refl in E. discriminate.
      * intros [<-|H].
        -- intros [Hc|Hq]; [subst c; rewrite N.eqb_refl in E; discriminate|].
           exact (IH q (or_introl eq_refl) Hq).
        -- apply IH. right. exact H.
Qed.

(* every piece sits in s followed by the separator or the end *)
Lemma split_piece sep s l :
  In l (split_byte sep s) -> exists pre post, s = pre ++ l ++ post /\ post_ok sep post.
Proof.
  intros H. destruct (split_byte sep s) as [|p ps] eqn:Es; [contradiction|].
  destruct H as [<-|H].
  - destruct (split_head sep s p ps Es) as (post & E & Hp & _). exists [], post. split; [exact E | exact Hp].
  - destruct (split_tail sep s p ps l Es H) as (pre & post & E & Hp).
    exists (pre ++ [sep]), post. split; [rewrite <- app_assoc; exact E | exact Hp].
Qed.

Lemma In_join sep ls c : In c (join_byte sep ls) -> c = sep \/ exists l, In l ls /\ In c l.
Proof.
  induction ls as [|l ls IH]; [intros []|].
  destruct ls as [|l2 ls].
  - simpl. intros H. right. exists l. split; [left; reflexivity | exact H].
  - change (join_byte sep (l :: l2 :: ls)) with (l ++ sep :: join_byte sep (l2 :: ls)).
    intros H. apply in_app_or in H as [H|[H|H]].
    + right. exists l. split; [left; reflexivity | exact H].
    + left. symmetry. exact H.
    + destruct (IH H) as [E|(x & Hx & Hc)]; [left; exact E|].
      right. exists x. split; [right; exact Hx | exact Hc].
Qed.

Lemma join_In sep ls l c : In l ls -> In c l -> In c (join_byte sep ls).
Proof.
  induction ls as [|l1 ls IH]; [intros []|]. intros Hl Hc.
  destruct ls as [|l2 ls].
  - destruct Hl as [<-|[]]. exact Hc.
  - change (join_byte sep (l1 :: l2 :: ls)) with (l1 ++ sep :: join_byte sep (l2 :: ls)).
    apply in_or_app. destruct Hl as [<-|Hl]; [left; exact Hc|].
    right. right. apply IH; assumption.
Qed.

Lemma join_cons sep l ls : ls <> [] -> join_byte sep (l :: ls) = l ++ sep :: join_byte sep ls.
Proof. destruct ls; [contradiction | reflexivity]. Qed.

Lemma join_last sep (ls : list bytes) :
  ls <> [] -> last ls [] <> [] -> last (join_byte sep ls) 0 = last (last ls []) 0.
Proof.
  induction ls as [|l ls IH]; [contradiction|]. intros _ H.
  destruct ls as [|l2 ls]; [reflexivity|].
  rewrite join_cons by discriminate.
  change (last (l :: l2 :: ls) []) with (last (l2 :: ls) []) in *.
  assert (Hne : join_byte sep (l2 :: ls) <> []).
  { intros E. assert (IH' := IH ltac:(discriminate) H).
    destruct (last (l2 :: ls) []) as [|c r] eqn:El; [contradiction|].
    assert (Hin : In (c :: r) (l2 :: ls)).
    { rewrite <- El. destruct (snoc_cases _ (l2 :: ls)) as [E0|(l' & x & E0)]; [discriminate|].
      rewrite E0, last_snoc. apply in_or_app. right. left. reflexivity. }
    assert (Hc := join_In sep _ _ c Hin (or_introl eq_refl)). rewrite E in Hc. exact Hc. }
  rewrite last_app_nonempty by discriminate.
  change (sep :: join_byte sep (l2 :: ls)) with ([sep] ++ join_byte sep (l2 :: ls)).
  rewrite last_app_nonempty by exact Hne. apply IH; [discriminate | exact H].
Qed.

Lemma join_snoc sep ls l : ls <> [] -> join_byte sep (ls ++ [l]) = join_byte sep ls ++ sep :: l.
Proof.
  induction ls as [|a ls IH]; [contradiction|]. intros _.
  destruct ls as [|b ls]; [reflexivity|].
  change ((a :: b :: ls) ++ [l]) with (a :: ((b :: ls) ++ [l])).
  rewrite join_cons by (simpl; discriminate).
  rewrite IH by discriminate. rewrite (join_cons sep a (b :: ls)) by discriminate.
  rewrite <- app_assoc. reflexivity.
Qed.

(* the last piece is a suffix, preceded by the separator or by nothing *)
Lemma split_last sep (s : bytes) :
  exists pre, s = pre ++ last (split_byte sep s) [] /\ (pre = [] \/ exists pre', pre = pre' ++ [sep]).
Proof.
  assert (J := join_split sep s).
  destruct (snoc_cases _ (split_byte sep s)) as [E|(ls & l & E)];
    [exfalso; eapply split_byte_nonempty; exact E|].
  rewrite E in *. rewrite last_snoc.
  destruct ls as [|a ls].
  - exists []. split; [symmetry; exact J | left; reflexivity].
  - rewrite join_snoc in J by discriminate.
    exists (join_byte sep (a :: ls) ++ [sep]). split.
    + rewrite <- app_assoc. symmetry. exact J.
    + right. eexists. reflexivity.
Qed.

(* ================================================================================== *)
(* 2. line-end normalisation *)

Lemma replace_cr_no_cr s : ~ In 13 (replace_all [13] [10] s).
Proof.
  unfold replace_all. induction s as [|c s IH]; [intros []|].
  cbn [replace_all_go has_prefix app List.length Nat.sub]. rewrite andb_true_r.
  destruct (13 =? c) eqn:E.
  - intros [H|H]; [discriminate | exact (IH H)].
  - intros [H|H]; [subst c; discriminate | exact (IH H)].
Qed.

Lemma replace_all_go_In old new s k c : In c (replace_all_go old new s k) -> In c s \/ In c new.
Proof.
  revert k. induction s as [|x s IH]; intros k; simpl; [intros []|].
  destruct k as [|k].
  - destruct (has_prefix old (x :: s)).
    + intros H. apply in_app_or in H as [H|H]; [right; exact H|].
      destruct (IH _ H) as [H'|H']; [left; right; exact H' | right; exact H'].
    + intros [H|H]; [left; left; exact H|].
      destruct (IH _ H) as [H'|H']; [left; right; exact H' | right; exact H'].
  - intros H. destruct (IH _ H) as [H'|H']; [left; right; exact H' | right; exact H'].
Qed.

Lemma replace_all_absent o old new s : ~ In o s -> replace_all (o :: old) new s = s.
Proof.
  unfold replace_all. induction s as [|x s IH]; [reflexivity|]. intros H.
  cbn [replace_all_go has_prefix].
  destruct (o =? x) eqn:E; [apply N.eqb_eq in E; exfalso; apply H; left; symmetry; exact E|].
  simpl. rewrite IH; [reflexivity|]. intros Hin. apply H. right. exact Hin.
Qed.

(* the text after both replacements *)
Definition cr_norm (t : bytes) : bytes := replace_all [13] [10] (replace_all [13; 10] [10] t).

Lemma cr_norm_no_cr t : ~ In 13 (cr_norm t).
Proof. apply replace_cr_no_cr. Qed.

Lemma cr_norm_id t : ~ In 13 t -> cr_norm t = t.
Proof. intros H. unfold cr_norm. rewrite (replace_all_absent 13 [10]) by exact H. apply replace_all_absent. exact H. Qed.

Lemma cr_norm_In t c : In c (cr_norm t) -> In c t \/ c = 10.
Proof.
  unfold cr_norm, replace_all. intros H.
  destruct (replace_all_go_In _ _ _ _ _ H) as [H1|[H1|[]]]; [|right; symmetry; exact H1].
  destruct (replace_all_go_In _ _ _ _ _ H1) as [H2|[H2|[]]]; [left; exact H2 | right; symmetry; exact H2].
Qed.

(* a space or tab directly before a line end survives normalisation only if it was there *)
Lemma replace_go_ws_nl o c n s k :
  is_newline c = false -> is_newline n = true ->
  contains [c; n] (replace_all_go (13 :: o) [10] s k) = true ->
  exists n', is_newline n' = true /\ contains [c; n'] s = true.
Proof.
  intros Hc Hn. revert k. induction s as [|x s IH]; intros k; [simpl; discriminate|].
  assert (Hstep : forall k', contains [c; n] (replace_all_go (13 :: o) [10] s k') = true ->
                  exists n', is_newline n' = true /\ contains [c; n'] (x :: s) = true).
  { intros k' H. destruct (IH _ H) as (n' & Hn' & Hc'). exists n'. split; [exact Hn'|].
    cbn [contains]. rewrite Hc'. apply orb_true_r. }
  cbn [replace_all_go]. destruct k as [|k]; [|apply Hstep].
  destruct (has_prefix (13 :: o) (x :: s)) eqn:Hp.
  - cbn [app contains]. intros H. apply orb_true_iff in H as [H|H]; [|exact (Hstep _ H)].
    cbn [has_prefix] in H. apply andb_true_iff in H as [H _]. apply N.eqb_eq in H. subst c. discriminate.
  - cbn [contains]. intros H. apply orb_true_iff in H as [H|H]; [|exact (Hstep _ H)].
    cbn [has_prefix] in H. apply andb_true_iff in H as [H1 H2]. apply N.eqb_eq in H1. subst x.
    destruct s as [|y s]; [simpl in H2; discriminate|].
    cbn [replace_all_go] in H2. destruct (has_prefix (13 :: o) (y :: s)) eqn:Hp2.
    + cbn [has_prefix] in Hp2. apply andb_true_iff in Hp2 as [Hy _]. apply N.eqb_eq in Hy. subst y.
      exists 13. split; [reflexivity|]. cbn [contains has_prefix]. rewrite !N.eqb_refl. reflexivity.
    + cbn [has_prefix] in H2. apply andb_true_iff in H2 as [Hy _]. apply N.eqb_eq in Hy. subst y.
      exists n. split; [exact Hn|]. cbn [contains has_prefix]. rewrite !N.eqb_refl. reflexivity.
Qed.

Lemma cr_norm_ws_nl t c :
  is_newline c = false -> contains [c; 10] (cr_norm t) = true ->
  exists n, is_newline n = true /\ contains [c; n] t = true.
Proof.
  intros Hc H. unfold cr_norm, replace_all in H.
  destruct (replace_go_ws_nl [] c 10 _ 0%nat Hc eq_refl H) as (n1 & Hn1 & H1).
  exact (replace_go_ws_nl _ _ _ _ _ Hc Hn1 H1).
Qed.

(* ================================================================================== *)
(* 3. trim_space *)

Lemma infix_strip seqs f s : infix (strip_spaces seqs f s) s.
Proof.
  revert s. induction f as [|f IH]; intros s; cbn [strip_spaces]; [apply infix_refl|].
  destruct (space_len seqs s) as [|n]; [apply infix_refl|].
  eapply infix_trans; [apply IH | apply infix_skipn].
Qed.

Lemma infix_rev' a s : infix a (rev s) -> infix (rev a) s.
Proof. intros H. apply infix_rev in H. rewrite rev_involutive in H. exact H. Qed.

Lemma infix_trim_space_right s : infix (trim_space_right s) s.
Proof. unfold trim_space_right. apply infix_rev'. apply infix_strip. Qed.

Lemma infix_trim_space s : infix (trim_space s) s.
Proof.
  unfold trim_space, trim_space_left.
  eapply infix_trans; [apply infix_trim_space_right | apply infix_strip].
Qed.

Lemma strip_id seqs f s : space_len seqs s = O -> strip_spaces seqs f s = s.
Proof. intros H. destruct f; cbn [strip_spaces]; [reflexivity | rewrite H; reflexivity]. Qed.

Lemma space_len_nonempty seqs s : space_len seqs s <> O -> s <> [].
Proof. intros H E. subst s. apply H. reflexivity. Qed.

Lemma strip_fixed seqs f s : (List.length s <= f)%nat -> space_len seqs (strip_spaces seqs f s) = O.
Proof.
  revert s. induction f as [|f IH]; intros s Hl; cbn [strip_spaces].
  - destruct s; [reflexivity | simpl in Hl; lia].
  - destruct (space_len seqs s) as [|n] eqn:E; [exact E|].
    apply IH. destruct s as [|c s]; [simpl in E; discriminate|].
    rewrite skipn_length. simpl in *. lia.
Qed.

Lemma strip_all_ascii seqs f s :
  (List.length s <= f)%nat -> forallb ascii_space s = true -> strip_spaces seqs f s = [].
Proof.
  revert s. induction f as [|f IH]; intros s Hl Ha; cbn [strip_spaces].
  - destruct s; [reflexivity | simpl in Hl; lia].
  - destruct s as [|c s]; [reflexivity|]. cbn [forallb] in Ha. apply andb_true_iff in Ha as [H1 H2].
    cbn [space_len]. rewrite H1. cbn [skipn]. apply IH; [simpl in Hl; lia | exact H2].
Qed.

Lemma trim_space_all_ascii s : forallb ascii_space s = true -> trim_space s = [].
Proof.
  intros H. unfold trim_space, trim_space_left. rewrite strip_all_ascii by (try lia; exact H). reflexivity.
Qed.

(* a string that starts and ends with plain (non-space ASCII, non-lead/continuation) bytes is untouched;
   stated for the two bytes needed: '(' and ')' *)
Lemma trim_space_parens s : trim_space (40 :: s ++ [41]) = 40 :: s ++ [41].
Proof.
  unfold trim_space, trim_space_left.
  rewrite strip_id by reflexivity.
  unfold trim_space_right.
  change (40 :: s ++ [41]) with ((40 :: s) ++ [41]). rewrite rev_app_distr.
  rewrite strip_id by reflexivity. rewrite <- rev_app_distr. apply rev_involutive.
Qed.

(* ================================================================================== *)
(* 4. the text handed to the indentation step *)

Definition cut2 : N -> bool := in_set [13; 10].
Definition cut4 : N -> bool := in_set [13; 10; 9; 32].

Lemma remove_parens_infix b r e : remove_parens b = (r, e) -> infix r b.
Proof.
  unfold remove_parens. destruct (paren_shape (trim_space b)).
  - assert (Hin : infix (trim (in_set [32; 9]) (removelast (tl (trim_space b)))) b).
    { eapply infix_trans; [apply infix_trim|]. eapply infix_trans; [apply infix_removelast|].
      eapply infix_trans; [apply infix_tl | apply infix_trim_space]. }
    destruct (_ || _ || _); intros H; injection H as <- <-; [exact Hin|].
    eapply infix_trans; [apply infix_trim | exact Hin].
  - intros H. injection H as <- <-. apply infix_refl.
Qed.

Lemma desc_body_infix t r e : desc_body t = (r, e) -> infix r (cr_norm t).
Proof.
  unfold desc_body. fold (cr_norm t).
  destruct (remove_parens (cr_norm t)) as [b3 [m|]] eqn:E; intros H; injection H as <- <-.
  - exact (remove_parens_infix _ _ _ E).
  - eapply infix_trans; [apply infix_trim_right|]. eapply infix_trans; [apply infix_trim_left|].
    exact (remove_parens_infix _ _ _ E).
Qed.

(* the body does not start with a line end and does not end with a line end, tab or space *)
Definition body_trimmed (body : bytes) : Prop :=
  body = [] \/ (cut2 (hd 0 body) = false /\ cut4 (last body 0) = false).

Lemma desc_body_trimmed t body : desc_body t = (body, None) -> body_trimmed body.
Proof.
  unfold desc_body. fold (cr_norm t).
  destruct (remove_parens (cr_norm t)) as [b3 [m|]] eqn:E; intros H; [discriminate|]. injection H as <-.
  fold cut2 cut4. set (b4 := trim_left cut2 b3).
  destruct (trim_right cut4 b4) as [|c r] eqn:Eb; [left; reflexivity | right].
  split.
  - rewrite <- Eb, trim_right_hd by (rewrite Eb; discriminate).
    destruct (trim_left_hd cut2 b3) as [E0|E0]; [|exact E0].
    fold b4 in E0. rewrite E0 in Eb. discriminate.
  - rewrite <- Eb. destruct (trim_right_last cut4 b4) as [E0|E0]; [rewrite E0 in Eb; discriminate | exact E0].
Qed.

Lemma desc_body_no_cr t r e : desc_body t = (r, e) -> ~ In 13 r.
Proof.
  intros H Hin. apply (cr_norm_no_cr t). eapply infix_In; [exact (desc_body_infix _ _ _ H) | exact Hin].
Qed.

(* ================================================================================== *)
(* 5. longestWhitespacePrefix *)

Lemma lead_ws_all_ws l : forallb is_ws (lead_ws l) = true.
Proof.
  induction l as [|c l IH]; [reflexivity|]. cbn [lead_ws].
  destruct l as [|c2 l]; [reflexivity|].
  destruct (is_ws c) eqn:E; [|reflexivity]. cbn [forallb]. rewrite E. exact IH.
Qed.

(* the quirk: the prefix never includes the last byte of the line *)
Lemma lead_ws_proper l : l <> [] -> exists r, r <> [] /\ l = lead_ws l ++ r.
Proof.
  induction l as [|c l IH]; [contradiction|]. intros _. cbn [lead_ws].
  destruct l as [|c2 l]; [exists [c]; split; [discriminate | reflexivity]|].
  destruct (is_ws c).
  - destruct (IH ltac:(discriminate)) as (r & Hr & E). exists r. split; [exact Hr|].
    cbn [app]. f_equal. exact E.
  - exists (c :: c2 :: l). split; [discriminate | reflexivity].
Qed.

(* on a line with a visible byte it is the whole leading run *)
Lemma lead_ws_visible w x r : forallb is_ws w = true -> is_ws x = false -> lead_ws (w ++ x :: r) = w.
Proof.
  intros Hw Hx. induction w as [|c w IH]; cbn [app lead_ws].
  - destruct r; [reflexivity | rewrite Hx; reflexivity].
  - cbn [forallb] in Hw. apply andb_true_iff in Hw as [Hc Hw].
    destruct (w ++ x :: r) as [|y z] eqn:E; [destruct w; discriminate|].
    rewrite Hc. f_equal. exact (IH Hw).
Qed.

(* common prefix *)
Fixpoint cpre (p l : bytes) : bytes :=
  match p, l with
  | x :: p', y :: l' => if x =? y then x :: cpre p' l' else []
  | _, _ => []
  end.

Lemma cpre_prefix_l p l : has_prefix (cpre p l) p = true.
Proof.
  revert l. induction p as [|x p IH]; intros [|y l]; try reflexivity. cbn [cpre].
  destruct (x =? y); [|reflexivity]. cbn [has_prefix]. rewrite N.eqb_refl. apply IH.
Qed.

Lemma cpre_prefix_r p l : has_prefix (cpre p l) l = true.
Proof.
  revert l. induction p as [|x p IH]; intros [|y l]; try reflexivity. cbn [cpre].
  destruct (x =? y) eqn:E; [|reflexivity]. cbn [has_prefix]. rewrite E. apply IH.
Qed.

Lemma cpre_max q p l : has_prefix q p = true -> has_prefix q l = true -> has_prefix q (cpre p l) = true.
Proof.
  revert p l. induction q as [|z q IH]; intros p l Hp Hl; [reflexivity|].
  destruct p as [|x p]; [discriminate|]. destruct l as [|y l]; [discriminate|].
  cbn [has_prefix] in Hp, Hl. apply andb_true_iff in Hp as [Hp1 Hp2]. apply andb_true_iff in Hl as [Hl1 Hl2].
  apply N.eqb_eq in Hp1, Hl1. subst x y. cbn [cpre]. rewrite N.eqb_refl. cbn [has_prefix].
  rewrite N.eqb_refl. apply IH; assumption.
Qed.

Lemma cpre_of_prefix p l : has_prefix p l = true -> cpre p l = p.
Proof.
  revert l. induction p as [|x p IH]; intros [|y l] H; try reflexivity; [discriminate|].
  cbn [has_prefix] in H. apply andb_true_iff in H as [H1 H2]. cbn [cpre]. rewrite H1. f_equal. exact (IH _ H2).
Qed.

Lemma cpre_removelast p l : has_prefix p l = false -> cpre (removelast p) l = cpre p l.
Proof.
  revert l. induction p as [|x p IH]; intros l H; [reflexivity|].
  destruct p as [|x2 p].
  - cbn [removelast cpre]. destruct l as [|y l]; [reflexivity|].
    cbn [has_prefix] in H. rewrite andb_true_r in H. cbn [cpre]. rewrite H. reflexivity.
  - change (removelast (x :: x2 :: p)) with (x :: removelast (x2 :: p)).
    destruct l as [|y l]; [reflexivity|]. cbn [cpre].
    destruct (x =? y) eqn:E; [|reflexivity]. f_equal. apply IH.
    cbn [has_prefix] in H. rewrite E in H. exact H.
Qed.

(* the loop as written computes the common prefix *)
Lemma shrink_cpre f p l : (List.length p <= f)%nat -> shrink f p l = cpre p l.
Proof.
  revert p. induction f as [|f IH]; intros p Hl.
  - destruct p; [|simpl in Hl; lia]. reflexivity.
  - cbn [shrink]. destruct (has_prefix p l) eqn:Hp; [symmetry; apply cpre_of_prefix; exact Hp|].
    rewrite <- (cpre_removelast p l Hp).
    destruct (removelast p) as [|a p'] eqn:Er; [reflexivity|].
    apply IH. rewrite <- Er.
    destruct (snoc_cases _ p) as [->|(p0 & x & ->)]; [discriminate|].
    rewrite removelast_last. rewrite app_length in Hl. simpl in Hl. lia.
Qed.

Definition lwp_step (p line : bytes) : bytes :=
  match line with [] => p | _ :: _ => cpre p line end.

Lemma lwp_fold l0 rest : lwp (l0 :: rest) = fold_left lwp_step rest (lead_ws l0).
Proof.
  unfold lwp.
  assert (Hext : forall ls p,
    fold_left (fun p line => match line with [] => p | _ :: _ => shrink (List.length p) p line end) ls p
    = fold_left lwp_step ls p).
  { induction ls as [|l ls IH]; intros p; [reflexivity|]. cbn [fold_left]. rewrite IH. f_equal.
    unfold lwp_step. destruct l; [reflexivity|]. apply shrink_cpre. lia. }
  destruct (lead_ws l0) as [|c p0] eqn:E; [|apply Hext].
  clear. induction rest as [|l rest IH]; [reflexivity|]. cbn [fold_left].
  replace (lwp_step [] l) with (@nil N) by (destruct l; reflexivity). exact IH.
Qed.

Lemma fold_step_spec rest p0 :
  let P := fold_left lwp_step rest p0 in
  has_prefix P p0 = true /\
  (forall l, In l rest -> l <> [] -> has_prefix P l = true) /\
  (forall q, has_prefix q p0 = true -> (forall l, In l rest -> l <> [] -> has_prefix q l = true) ->
             has_prefix q P = true).
Proof.
  revert p0. induction rest as [|l rest IH]; intros p0; cbn [fold_left].
  - split; [apply has_prefix_refl|]. split; [intros l []|]. intros q Hq _. exact Hq.
  - destruct (IH (lwp_step p0 l)) as (H1 & H2 & H3).
    assert (Hs1 : has_prefix (lwp_step p0 l) p0 = true)
      by (destruct l; [apply has_prefix_refl | apply cpre_prefix_l]).
    split; [exact (has_prefix_trans _ _ _ H1 Hs1)|]. split.
    + intros x [<-|Hx] Hne; [|exact (H2 x Hx Hne)].
      eapply has_prefix_trans; [exact H1|]. destruct l; [contradiction | apply cpre_prefix_r].
    + intros q Hq Hall. apply H3.
      * destruct l as [|c l]; [exact Hq|]. apply cpre_max; [exact Hq|].
        apply Hall; [left; reflexivity | discriminate].
      * intros x Hx Hne. apply Hall; [right; exact Hx | exact Hne].
Qed.

Lemma lead_ws_prefix l : has_prefix (lead_ws l) l = true.
Proof.
  destruct l as [|c l]; [reflexivity|].
  destruct (lead_ws_proper (c :: l) ltac:(discriminate)) as (r & _ & E). rewrite E at 2. apply has_prefix_app.
Qed.

Lemma has_prefix_all_ws p q : has_prefix p q = true -> forallb is_ws q = true -> forallb is_ws p = true.
Proof.
  intros H Hq. apply has_prefix_spec in H as [r ->]. rewrite forallb_app in Hq.
  apply andb_true_iff in Hq as [Hq _]. exact Hq.
Qed.

(* summary: lwp is a whitespace string, a proper prefix of the first line, a prefix of every other
   non-empty line, and the longest prefix of lead_ws(first line) with that property *)
Lemma lwp_spec l0 rest :
  let P := lwp (l0 :: rest) in
  has_prefix P (lead_ws l0) = true /\
  forallb is_ws P = true /\
  (forall l, In l (l0 :: rest) -> l <> [] -> has_prefix P l = true) /\
  (forall q, has_prefix q (lead_ws l0) = true -> (forall l, In l rest -> l <> [] -> has_prefix q l = true) ->
             has_prefix q P = true).
Proof.
  cbv zeta. rewrite lwp_fold. destruct (fold_step_spec rest (lead_ws l0)) as (H1 & H2 & H3).
  split; [exact H1|]. split; [exact (has_prefix_all_ws _ _ H1 (lead_ws_all_ws l0))|]. split; [|exact H3].
  intros l [<-|Hl] Hne; [|exact (H2 l Hl Hne)].
  exact (has_prefix_trans _ _ _ H1 (lead_ws_prefix l0)).
Qed.

(* ================================================================================== *)
(* 6. description: no CR, trimmed, blank input *)

Lemma description_ok_inv t d : description t = (d, None) -> exists body, desc_body t = (body, None) /\ d = dedent body.
Proof.
  unfold description. destruct (desc_body t) as [body [m|]]; intros H; [discriminate|].
  injection H as <-. exists body. split; reflexivity.
Qed.

Lemma description_err_inv t d m : description t = (d, Some m) -> desc_body t = (d, Some m).
Proof.
  unfold description. destruct (desc_body t) as [body [m'|]]; intros H; [|discriminate].
  injection H as <- <-. reflexivity.
Qed.

Lemma description_of_body t body : desc_body t = (body, None) -> description t = (dedent body, None).
Proof. intros H. unfold description. rewrite H. reflexivity. Qed.

Lemma last_In (A : Type) (l : list A) d : l <> [] -> In (last l d) l.
Proof.
  intros H. destruct (snoc_cases _ l) as [->|(l' & x & ->)]; [contradiction|].
  rewrite last_snoc. apply in_or_app. right. left. reflexivity.
Qed.

Lemma last_map' (A B : Type) (f : A -> B) (l : list A) d d' : l <> [] -> last (map f l) d' = f (last l d).
Proof.
  intros H. destruct (snoc_cases _ l) as [->|(l' & x & ->)]; [contradiction|].
  rewrite map_app. simpl. rewrite !last_snoc. reflexivity.
Qed.

Lemma dedent_In body c : In c (dedent body) -> c = 10 \/ In c body.
Proof.
  unfold dedent. intros H. apply In_join in H as [H|(l' & Hl' & Hc)]; [left; exact H | right].
  apply in_map_iff in Hl' as (l & <- & Hl).
  rewrite <- (join_split 10 body). apply (join_In 10 _ l c Hl).
  destruct (trim_prefix_suffix (lwp (split_byte 10 body)) l) as (pre & E). rewrite E.
  apply in_or_app. right. exact Hc.
Qed.

Lemma desc_no_cr_lemma t d e : description t = (d, e) -> ~ In 13 d.
Proof.
  destruct e as [m|]; intros H.
  - apply description_err_inv in H. exact (desc_body_no_cr _ _ _ H).
  - apply description_ok_inv in H as (body & Hb & ->). intros Hin.
    apply dedent_In in Hin as [Hin|Hin]; [discriminate|]. exact (desc_body_no_cr _ _ _ Hb Hin).
Qed.

Lemma first_line_nonempty (body L0 : bytes) (rest : list bytes) :
  body <> [] -> hd 0 body <> 10 -> split_byte 10 body = L0 :: rest -> L0 <> [].
Proof.
  intros Hne Hh Es E. subst L0. destruct (split_head 10 body [] rest Es) as (post & Eb & Hp & _).
  simpl in Eb. subst post. destruct Hp as [E|(post' & E)]; [contradiction|]. rewrite E in Hh. apply Hh. reflexivity.
Qed.

Lemma last_line_nonempty body :
  body <> [] -> last body 0 <> 10 ->
  last (split_byte 10 body) [] <> [] /\ last (last (split_byte 10 body) []) 0 = last body 0.
Proof.
  intros Hne Hl. destruct (split_last 10 body) as (pre & E & Hp).
  destruct (last (split_byte 10 body) []) as [|c r] eqn:El.
  - exfalso. rewrite app_nil_r in E. subst pre. destruct Hp as [E|(pre' & E)]; [contradiction|].
    rewrite E, last_snoc in Hl. apply Hl. reflexivity.
  - split; [discriminate|]. rewrite E. rewrite last_app_nonempty by discriminate. reflexivity.
Qed.

Lemma cut4_ws c : cut4 c = false -> is_ws c = false.
Proof.
  unfold cut4, in_set, is_ws. cbn [existsb]. intros H.
  repeat (apply orb_false_iff in H; destruct H as [? H]).
  apply orb_false_iff. split; assumption.
Qed.

Lemma all_ws_last p : p <> [] -> forallb is_ws p = true -> is_ws (last p 0) = true.
Proof. intros Hne H. rewrite forallb_forall in H. apply H. apply last_In. exact Hne. Qed.

(* removing the prefix from a line that ends with a visible byte keeps that end *)
Lemma trim_prefix_keeps_last P l :
  forallb is_ws P = true -> has_prefix P l = true -> l <> [] -> is_ws (last l 0) = false ->
  trim_prefix P l <> [] /\ last (trim_prefix P l) 0 = last l 0.
Proof.
  intros HP Hp Hne Hl. apply has_prefix_spec in Hp as [r ->]. rewrite trim_prefix_app.
  destruct r as [|c r].
  - exfalso. rewrite app_nil_r in *. rewrite (all_ws_last P Hne HP) in Hl. discriminate.
  - split; [discriminate|]. rewrite last_app_nonempty by discriminate. reflexivity.
Qed.

Lemma first_line_survives (L0 : bytes) (rest : list bytes) : L0 <> [] -> trim_prefix (lwp (L0 :: rest)) L0 <> [] /\
  exists pre, L0 = pre ++ trim_prefix (lwp (L0 :: rest)) L0.
Proof.
  intros Hne. destruct (lwp_spec L0 rest) as (H1 & _ & _ & _). cbv zeta in H1.
  remember (lwp (L0 :: rest)) as P eqn:EP in *. clear EP.
  destruct (lead_ws_proper L0 Hne) as (r & Hr & E).
  apply has_prefix_spec in H1 as [r2 E2].
  assert (E3 : L0 = P ++ (r2 ++ r)).
  { etransitivity; [exact E|]. rewrite E2. symmetry. apply app_assoc. }
  assert (T := trim_prefix_app P (r2 ++ r)). rewrite <- E3 in T. rewrite T.
  split; [destruct r2; [exact Hr | discriminate] | exists P; exact E3].
Qed.

Lemma dedent_trimmed body : ~ In 13 body -> body_trimmed body -> body_trimmed (dedent body).
Proof.
  intros Hcr [->|[Hh Hl]]; [left; reflexivity|].
  destruct body as [|b0 body0] eqn:Ebody; [left; reflexivity | right]. rewrite <- Ebody in *.
  assert (Hne : body <> []) by (rewrite Ebody; discriminate).
  unfold dedent. destruct (split_byte 10 body) as [|L0 rest] eqn:Es; [exfalso; eapply split_byte_nonempty; exact Es|].
  set (P := lwp (L0 :: rest)).
  assert (Hh10 : hd 0 body <> 10) by (intros E; rewrite E in Hh; discriminate).
  assert (Hl10 : last body 0 <> 10) by (intros E; rewrite E in Hl; discriminate).
  assert (HL0 := first_line_nonempty body L0 rest Hne Hh10 Es).
  destruct (first_line_survives L0 rest HL0) as (Hs & pre & Epre). fold P in Hs, Epre.
  destruct (lwp_spec L0 rest) as (_ & HPws & HPall & _). fold P in HPws, HPall.
  split.
  - (* first byte *)
    assert (Hhd : hd 0 (join_byte 10 (map (trim_prefix P) (L0 :: rest))) = hd 0 (trim_prefix P L0)).
    { cbn [map]. destruct (map (trim_prefix P) rest) as [|m ms]; [reflexivity|].
      rewrite join_cons by discriminate. destruct (trim_prefix P L0); [contradiction | reflexivity]. }
    rewrite Hhd. destruct (trim_prefix P L0) as [|x r] eqn:Et; [contradiction|]. cbn [hd].
    assert (HxL : In x L0) by (rewrite Epre; apply in_or_app; right; left; reflexivity).
    assert (Hx10 : x <> 10).
    { intros ->. assert (Hn := split_lines_no_sep 10 body L0). rewrite Es in Hn. exact (Hn (or_introl eq_refl) HxL). }
    assert (Hx13 : x <> 13).
    { intros ->. apply Hcr. rewrite <- (join_split 10 body), Es. eapply join_In; [left; reflexivity | exact HxL]. }
    unfold cut2, in_set. cbn [existsb]. apply N.eqb_neq in Hx10, Hx13. rewrite Hx10, Hx13. reflexivity.
  - (* last byte *)
    destruct (last_line_nonempty body Hne Hl10) as (HLn & ELn). rewrite Es in HLn, ELn.
    set (Ln := last (L0 :: rest) []) in *.
    assert (HLnin : In Ln (L0 :: rest)) by (apply last_In; discriminate).
    assert (Hws : is_ws (last Ln 0) = false) by (rewrite ELn; apply cut4_ws; exact Hl).
    destruct (trim_prefix_keeps_last P Ln HPws (HPall Ln HLnin HLn) HLn Hws) as (Hk1 & Hk2).
    assert (Elast : last (map (trim_prefix P) (L0 :: rest)) [] = trim_prefix P Ln)
      by (apply last_map'; discriminate).
    rewrite join_last; [| discriminate | rewrite Elast; exact Hk1].
    rewrite Elast, Hk2, ELn. exact Hl.
Qed.

Lemma desc_trimmed_lemma t d : description t = (d, None) -> body_trimmed d.
Proof.
  intros H. apply description_ok_inv in H as (body & Hb & ->).
  apply dedent_trimmed; [exact (desc_body_no_cr _ _ _ Hb) | exact (desc_body_trimmed _ _ Hb)].
Qed.

(* blank input *)
Definition blank_byte (c : N) : bool := in_set [9; 10; 13; 32] c.

Lemma blank_ascii c : blank_byte c = true -> ascii_space c = true.
Proof.
  unfold blank_byte, in_set. intros H. apply existsb_exists in H as (x & Hin & Hx).
  apply N.eqb_eq in Hx. subst x. cbn [In] in Hin.
  destruct Hin as [<-|[<-|[<-|[<-|[]]]]]; reflexivity.
Qed.

Lemma blank_cut4 c : blank_byte c = true -> cut4 c = true.
Proof.
  unfold blank_byte, in_set. intros H. apply existsb_exists in H as (x & Hin & Hx).
  apply N.eqb_eq in Hx. subst x. cbn [In] in Hin.
  destruct Hin as [<-|[<-|[<-|[<-|[]]]]]; reflexivity.
Qed.

Lemma blank_desc_empty_lemma t : forallb blank_byte t = true -> description t = ([], None).
Proof.
  intros H. rewrite forallb_forall in H.
  assert (Hn : forall c, In c (cr_norm t) -> blank_byte c = true).
  { intros c Hc. apply cr_norm_In in Hc as [Hc| ->]; [exact (H c Hc) | reflexivity]. }
  unfold description, desc_body. fold (cr_norm t). unfold remove_parens.
  rewrite trim_space_all_ascii by (apply forallb_forall; intros c Hc; apply blank_ascii, Hn, Hc).
  cbn [paren_shape List.length Nat.leb andb]. fold cut2 cut4.
  rewrite trim_right_all; [reflexivity|].
  apply forallb_forall. intros c Hc. apply blank_cut4, Hn.
  eapply infix_In; [apply infix_trim_left | exact Hc].
Qed.

(* ================================================================================== *)
(* 7. fixed points, common indentation, idempotence *)

Lemma wrapped_remove_parens b : wrapped b = false -> remove_parens b = (b, None).
Proof. unfold wrapped, remove_parens. intros ->. reflexivity. Qed.

Lemma body_trimmed_hd d : body_trimmed d -> d = [] \/ cut2 (hd 0 d) = false.
Proof. intros [H|[H _]]; [left | right]; exact H. Qed.

Lemma body_trimmed_last d : body_trimmed d -> d = [] \/ cut4 (last d 0) = false.
Proof. intros [H|[_ H]]; [left | right]; exact H. Qed.

Lemma desc_body_fixed d : ~ In 13 d -> wrapped d = false -> body_trimmed d -> desc_body d = (d, None).
Proof.
  intros Hcr Hw Ht. unfold desc_body. fold (cr_norm d). rewrite (cr_norm_id d Hcr), (wrapped_remove_parens d Hw).
  fold cut2 cut4. rewrite (trim_left_id cut2 d (body_trimmed_hd d Ht)), (trim_right_id cut4 d (body_trimmed_last d Ht)).
  reflexivity.
Qed.

Lemma dedent_fixed d : lwp (split_byte 10 d) = [] -> dedent d = d.
Proof.
  intros H. unfold dedent. rewrite H.
  rewrite (map_ext (trim_prefix []) (fun x => x)) by (intros; reflexivity). rewrite map_id. apply join_split.
Qed.

(* sufficient condition for being a fixed point *)
Lemma desc_fixed_lemma d :
  ~ In 13 d -> body_trimmed d -> wrapped d = false -> lwp (split_byte 10 d) = [] -> description d = (d, None).
Proof.
  intros Hcr Ht Hw Hl. rewrite (description_of_body d d (desc_body_fixed d Hcr Hw Ht)), (dedent_fixed d Hl). reflexivity.
Qed.

(* every line is empty or has a byte other than space/tab *)
Definition visible_lines (ls : list bytes) : Prop := forall l, In l ls -> forallb is_ws l = true -> l = [].
(* every non-empty line starts with the byte c *)
Definition shares_indent (c : N) (ls : list bytes) : Prop := forall l, In l ls -> l <> [] -> hd_error l = Some c.

Lemma ws_split (l : bytes) : exists w r, l = w ++ r /\ forallb is_ws w = true /\ (r = [] \/ is_ws (hd 0 r) = false).
Proof.
  induction l as [|c l (w & r & E & Hw & Hr)].
  - exists [], []. split; [reflexivity|]. split; [reflexivity | left; reflexivity].
  - destruct (is_ws c) eqn:Ec.
    + exists (c :: w), r. split; [simpl; f_equal; exact E|]. split; [simpl; rewrite Ec; exact Hw | exact Hr].
    + exists [], (c :: l). split; [reflexivity|]. split; [reflexivity | right; exact Ec].
Qed.

Lemma dedent_no_common (L0 : bytes) (rest : list bytes) c :
  L0 <> [] -> visible_lines (L0 :: rest) -> is_ws c = true ->
  ~ shares_indent c (map (trim_prefix (lwp (L0 :: rest))) (L0 :: rest)).
Proof.
  intros Hne G Hc Hsh.
  destruct (lwp_spec L0 rest) as (H1 & HPws & HPall & Hmax). cbv zeta in *.
  remember (lwp (L0 :: rest)) as P eqn:EP in *. clear EP.
  (* the first line: whitespace run w, then a visible byte x *)
  destruct (ws_split L0) as (w & r & EL0 & Hw & Hr).
  destruct r as [|x r].
  { exfalso. apply Hne. apply G; [left; reflexivity|]. rewrite EL0, app_nil_r. exact Hw. }
  destruct Hr as [Hr|Hx]; [discriminate|]. cbn [hd] in Hx.
  assert (Elw : lead_ws L0 = w) by (rewrite EL0; apply lead_ws_visible; assumption).
  rewrite Elw in H1, Hmax. apply has_prefix_spec in H1 as [w2 Ew].
  assert (EL0' : L0 = P ++ (w2 ++ x :: r)) by (rewrite EL0, Ew; symmetry; apply app_assoc).
  assert (T0 : trim_prefix P L0 = w2 ++ x :: r) by (rewrite EL0' at 1; apply trim_prefix_app).
  assert (S0 : hd_error (trim_prefix P L0) = Some c).
  { apply Hsh; [left; reflexivity|]. rewrite T0. destruct w2; discriminate. }
  rewrite T0 in S0. destruct w2 as [|c' w3].
  { cbn in S0. injection S0 as ->. rewrite Hc in Hx. discriminate. }
  cbn in S0. injection S0 as ->.
  (* P ++ [c] is then a longer common prefix *)
  assert (Hq0 : has_prefix (P ++ [c]) w = true).
  { rewrite Ew. change (c :: w3) with ([c] ++ w3). rewrite app_assoc. apply has_prefix_app. }
  assert (Hqall : forall l, In l rest -> l <> [] -> has_prefix (P ++ [c]) l = true).
  { intros l Hl Hlne. assert (Hp := HPall l (or_intror Hl) Hlne). apply has_prefix_spec in Hp as [rl El].
    assert (Tl : trim_prefix P l = rl) by (rewrite El; apply trim_prefix_app).
    destruct rl as [|y rl].
    - exfalso. apply Hlne. apply G; [right; exact Hl|]. rewrite El, app_nil_r. exact HPws.
    - assert (Sl : hd_error (trim_prefix P l) = Some c).
      { apply Hsh; [right; apply in_map; exact Hl | rewrite Tl; discriminate]. }
      rewrite Tl in Sl. cbn in Sl. injection Sl as ->. rewrite El.
      change (c :: rl) with ([c] ++ rl). rewrite app_assoc. apply has_prefix_app. }
  assert (Hbad := has_prefix_length _ _ (Hmax (P ++ [c]) Hq0 Hqall)).
  rewrite app_length in Hbad. simpl in Hbad. lia.
Qed.

Lemma lwp_nil_of_no_common (ls : list bytes) :
  (forall c, is_ws c = true -> ~ shares_indent c ls) -> lwp ls = [].
Proof.
  intros H. destruct ls as [|l0 rest]; [reflexivity|].
  destruct (lwp (l0 :: rest)) as [|c P'] eqn:E; [reflexivity | exfalso].
  destruct (lwp_spec l0 rest) as (_ & HPws & HPall & _). cbv zeta in *. rewrite E in HPws, HPall.
  cbn [forallb] in HPws. apply andb_true_iff in HPws as [Hc _].
  apply (H c Hc). intros l Hl Hne. specialize (HPall l Hl Hne).
  destruct l as [|y l]; [contradiction|]. cbn [has_prefix] in HPall.
  apply andb_true_iff in HPall as [Hy _]. apply N.eqb_eq in Hy. subst y. reflexivity.
Qed.

Lemma dedent_lines body :
  split_byte 10 (dedent body) = map (trim_prefix (lwp (split_byte 10 body))) (split_byte 10 body).
Proof.
  unfold dedent. apply split_join.
  - destruct (split_byte 10 body) eqn:E; [exfalso; eapply split_byte_nonempty; exact E | discriminate].
  - intros l' Hl' Hin. apply in_map_iff in Hl' as (l & <- & Hl).
    apply (split_lines_no_sep 10 body l Hl).
    destruct (trim_prefix_suffix (lwp (split_byte 10 body)) l) as (pre & E). rewrite E.
    apply in_or_app. right. exact Hin.
Qed.

(* core statement on the text handed to the indentation step *)
Lemma dedent_common_indent_removed body c :
  body <> [] -> body_trimmed body -> visible_lines (split_byte 10 body) -> is_ws c = true ->
  ~ shares_indent c (split_byte 10 (dedent body)).
Proof.
  intros Hne Ht G Hc. rewrite dedent_lines.
  destruct (split_byte 10 body) as [|L0 rest] eqn:Es; [exfalso; eapply split_byte_nonempty; exact Es|].
  apply dedent_no_common; [|exact G | exact Hc].
  destruct Ht as [E|[Hh _]]; [contradiction|].
  apply (first_line_nonempty body L0 rest Hne); [|exact Es]. intros E. rewrite E in Hh. discriminate.
Qed.

(* guard on the input: no space or tab directly before a line end (no trailing whitespace,
   in particular no whitespace-only line) *)
Definition no_trailing_ws (t : bytes) : Prop :=
  forall c n, is_ws c = true -> is_newline n = true -> contains [c; n] t = false.

Lemma ws_not_newline c : is_ws c = true -> is_newline c = false.
Proof.
  unfold is_ws, is_newline. intros H. apply orb_true_iff in H as [H|H]; apply N.eqb_eq in H; subst c; reflexivity.
Qed.

Lemma body_visible_lines t body :
  desc_body t = (body, None) -> no_trailing_ws t -> visible_lines (split_byte 10 body).
Proof.
  intros Hb G l Hl Hws. destruct (snoc_cases _ l) as [E|(l' & c & E)]; [exact E | exfalso]. subst l.
  assert (Hc : is_ws c = true).
  { rewrite forallb_forall in Hws. apply Hws. apply in_or_app. right. left. reflexivity. }
  destruct (split_piece 10 body _ Hl) as (pre & post & Eb & Hp).
  destruct Hp as [->|(post' & ->)].
  - (* the line is the last one: the body would end with a space *)
    rewrite app_nil_r, app_assoc in Eb.
    destruct (desc_body_trimmed t body Hb) as [E|[_ Hlast]]; [rewrite E in Eb; destruct (pre ++ l'); discriminate|].
    rewrite Eb, last_snoc in Hlast. apply cut4_ws in Hlast. rewrite Hc in Hlast. discriminate.
  - assert (Hcont : contains [c; 10] body = true).
    { apply contains_spec. exists (pre ++ l'), post'. rewrite Eb, <- !app_assoc. reflexivity. }
    assert (Hcont2 := infix_contains _ _ _ (desc_body_infix t body None Hb) Hcont).
    destruct (cr_norm_ws_nl t c (ws_not_newline c Hc) Hcont2) as (n & Hn & Hcn).
    rewrite (G c n Hc Hn) in Hcn. discriminate.
Qed.

Lemma dedent_nil_inv body : dedent body <> [] -> body <> [].
Proof. intros H E. subst body. apply H. reflexivity. Qed.

Lemma desc_common_indent_body_lemma t body d c :
  desc_body t = (body, None) -> visible_lines (split_byte 10 body) ->
  description t = (d, None) -> d <> [] -> is_ws c = true -> ~ shares_indent c (split_byte 10 d).
Proof.
  intros Hb G Hd Hne Hc. rewrite (description_of_body t body Hb) in Hd. injection Hd as <-.
  apply dedent_common_indent_removed; [exact (dedent_nil_inv body Hne) | exact (desc_body_trimmed t body Hb) | exact G | exact Hc].
Qed.

Lemma desc_common_indent_lemma t d c :
  description t = (d, None) -> no_trailing_ws t -> d <> [] -> is_ws c = true ->
  ~ shares_indent c (split_byte 10 d).
Proof.
  intros Hd G Hne Hc. destruct (description_ok_inv t d Hd) as (body & Hb & _).
  exact (desc_common_indent_body_lemma t body d c Hb (body_visible_lines t body Hb G) Hd Hne Hc).
Qed.

Lemma description_nil : description [] = ([], None).
Proof. reflexivity. Qed.

Lemma desc_idempotent_body_lemma t body d :
  desc_body t = (body, None) -> visible_lines (split_byte 10 body) ->
  description t = (d, None) -> wrapped d = false -> description d = (d, None).
Proof.
  intros Hb G Hd Hw. destruct d as [|d0 d'] eqn:Ed; [reflexivity|]. rewrite <- Ed in *.
  assert (Hne : d <> []) by (rewrite Ed; discriminate).
  apply desc_fixed_lemma; [exact (desc_no_cr_lemma t d None Hd) | exact (desc_trimmed_lemma t d Hd) | exact Hw|].
  apply lwp_nil_of_no_common. intros c Hc. exact (desc_common_indent_body_lemma t body d c Hb G Hd Hne Hc).
Qed.

Lemma desc_idempotent_partial_lemma t d :
  description t = (d, None) -> wrapped d = false -> no_trailing_ws t -> description d = (d, None).
Proof.
  intros Hd Hw G. destruct (description_ok_inv t d Hd) as (body & Hb & _).
  exact (desc_idempotent_body_lemma t body d Hb (body_visible_lines t body Hb G) Hd Hw).
Qed.

(* results whose first line is not indented are fixed points whatever the input looked like *)
Lemma desc_idempotent_unindented_lemma t d :
  description t = (d, None) -> wrapped d = false -> is_ws (hd 0 d) = false -> description d = (d, None).
Proof.
  intros Hd Hw Hh.
  apply desc_fixed_lemma; [exact (desc_no_cr_lemma t d None Hd) | exact (desc_trimmed_lemma t d Hd) | exact Hw|].
  destruct (split_byte 10 d) as [|l0 rest] eqn:Es; [reflexivity|].
  destruct (split_head 10 d l0 rest Es) as (post & E & _ & _).
  unfold lwp. replace (lead_ws l0) with (@nil N); [reflexivity|].
  destruct l0 as [|x l0]; [reflexivity|]. rewrite E in Hh. cbn [app hd] in Hh.
  cbn [lead_ws]. destruct l0; [reflexivity | rewrite Hh; reflexivity].
Qed.

(* ---- the converse: exactly which texts are fixed points ---- *)
Lemma infix_length a s : infix a s -> (List.length a <= List.length s)%nat.
Proof. intros (p & q & ->). rewrite !app_length. lia. Qed.

Lemma removelast_length (l : bytes) : List.length (removelast l) = (List.length l - 1)%nat.
Proof.
  destruct (snoc_cases _ l) as [->|(l' & x & ->)]; [reflexivity|].
  rewrite removelast_last, app_length. simpl. lia.
Qed.

Lemma tl_length (l : bytes) : List.length (tl l) = (List.length l - 1)%nat.
Proof. destruct l; simpl; lia. Qed.

Lemma remove_parens_wrapped_len b r :
  wrapped b = true -> remove_parens b = (r, None) -> (List.length r + 2 <= List.length b)%nat.
Proof.
  unfold wrapped, remove_parens. intros Hw. rewrite Hw.
  assert (H2 : (2 <= List.length (trim_space b))%nat).
  { unfold paren_shape in Hw. apply andb_true_iff in Hw as [Hw _]. apply andb_true_iff in Hw as [Hw _].
    apply Nat.leb_le. exact Hw. }
  assert (Hb := infix_length _ _ (infix_trim_space b)).
  assert (Hin := infix_length _ _ (infix_trim (in_set [32; 9]) (removelast (tl (trim_space b))))).
  rewrite removelast_length, tl_length in Hin.
  destruct (_ || _ || _); intros H; [discriminate|]. injection H as <-.
  assert (Hin2 := infix_length _ _ (infix_trim (in_set [13; 10])
                    (trim (in_set [32; 9]) (removelast (tl (trim_space b)))))).
  lia.
Qed.

Lemma trim_prefix_length p l : (List.length (trim_prefix p l) <= List.length l)%nat.
Proof. destruct (trim_prefix_suffix p l) as (pre & E). rewrite E at 2. rewrite app_length. lia. Qed.

Lemma join_length_cons sep (l : bytes) (ls : list bytes) :
  List.length (join_byte sep (l :: ls)) =
  (List.length l + match ls with [] => 0 | _ :: _ => 1 + List.length (join_byte sep ls) end)%nat.
Proof.
  destruct ls as [|l2 ls]; [simpl; lia|]. rewrite join_cons by discriminate.
  rewrite app_length. simpl. lia.
Qed.

Lemma join_map_length sep (f : bytes -> bytes) (ls : list bytes) :
  (forall l, List.length (f l) <= List.length l)%nat ->
  (List.length (join_byte sep (map f ls)) <= List.length (join_byte sep ls))%nat.
Proof.
  intros Hf. induction ls as [|l ls IH]; [simpl; lia|].
  cbn [map]. rewrite !join_length_cons. specialize (Hf l).
  destruct ls as [|l2 ls]; [simpl; lia|]. cbn [map] in *. lia.
Qed.

Lemma dedent_length body :
  (List.length (dedent body) + List.length (lwp (split_byte 10 body)) <= List.length body)%nat.
Proof.
  assert (Hj : List.length body = List.length (join_byte 10 (split_byte 10 body)))
    by (rewrite join_split; reflexivity).
  unfold dedent. rewrite Hj. clear Hj.
  destruct (split_byte 10 body) as [|L0 rest] eqn:Es; [exfalso; eapply split_byte_nonempty; exact Es|].
  destruct (lwp_spec L0 rest) as (H1 & _ & _ & _). cbv zeta in H1.
  remember (lwp (L0 :: rest)) as P eqn:EP in *. clear EP.
  assert (H0 := has_prefix_trans _ _ _ H1 (lead_ws_prefix L0)).
  apply has_prefix_spec in H0 as [r E0].
  assert (T0 : trim_prefix P L0 = r) by (rewrite E0; apply trim_prefix_app).
  cbn [map]. rewrite !join_length_cons, T0.
  assert (EL : List.length L0 = (List.length P + List.length r)%nat) by (rewrite E0; apply app_length).
  assert (Hrest := join_map_length 10 (trim_prefix P) rest (trim_prefix_length P)).
  destruct rest as [|l2 rest]; [simpl; lia|]. cbn [map] in *. lia.
Qed.

(* a text is a fixed point exactly when it is CR-free, trimmed, not read as parenthesised, and its
   lines have no common prefix in the sense of longestWhitespacePrefix *)
Lemma desc_fixed_iff_lemma d :
  description d = (d, None) <->
  (~ In 13 d /\ body_trimmed d /\ wrapped d = false /\ lwp (split_byte 10 d) = []).
Proof.
  split; [|intros (H1 & H2 & H3 & H4); exact (desc_fixed_lemma d H1 H2 H3 H4)].
  intros H. assert (Hcr := desc_no_cr_lemma d d None H). assert (Ht := desc_trimmed_lemma d d H).
  split; [exact Hcr|]. split; [exact Ht|].
  destruct (description_ok_inv d d H) as (body & Hb & Hd).
  assert (Hlen := dedent_length body). rewrite <- Hd in Hlen.
  destruct (wrapped d) eqn:Hw.
  - exfalso. unfold desc_body in Hb. fold (cr_norm d) in Hb. rewrite (cr_norm_id d Hcr) in Hb.
    destruct (remove_parens d) as [b3 [m|]] eqn:Er; [discriminate|]. injection Hb as Hb.
    assert (L1 := remove_parens_wrapped_len d b3 Hw Er).
    assert (L2 := infix_length _ _ (infix_trim_left (in_set [13; 10]) b3)).
    assert (L3 := infix_length _ _ (infix_trim_right (in_set [13; 10; 9; 32]) (trim_left (in_set [13; 10]) b3))).
    rewrite Hb in L3. lia.
  - split; [reflexivity|].
    rewrite (desc_body_fixed d Hcr Hw Ht) in Hb. injection Hb as <-.
    destruct (lwp (split_byte 10 d)) as [|c P]; [reflexivity | simpl in Hlen; lia].
Qed.

(* ================================================================================== *)
(* 8. refutations of the unguarded statements (by computation) *)

(* nested parentheses: "(\n()\n)" gives "()", which is then read as an (empty) parenthesised body *)
Lemma desc_idempotent_refuted_lemma :
  exists t d, description t = (d, None) /\ description d <> (d, None).
Proof.
  exists [40; 10; 40; 41; 10; 41], [40; 41]. split; [vm_compute; reflexivity | vm_compute; discriminate].
Qed.

(* the same with a non-empty inner text: the second pass strips the inner parentheses *)
Lemma desc_idempotent_refuted_nested :
  description (bs "(
(
a
)
)"%string) = (bs "(
a
)", None) /\ description (bs "(
a
)"%string) = (bs "a", None).
Proof. split; vm_compute; reflexivity. Qed.

(* a whitespace-only line shorter than the indentation: "  a\n \n  a" gives " a\n\n a" and then "a\n\na";
   the result is not parenthesised *)
Lemma desc_idempotent_refuted_indent :
  exists t d d', description t = (d, None) /\ wrapped d = false /\ description d = (d', None) /\ d' <> d.
Proof.
  exists [32; 32; 97; 10; 32; 10; 32; 32; 97], [32; 97; 10; 10; 32; 97], [97; 10; 10; 97].
  repeat split; try (vm_compute; reflexivity). discriminate.
Qed.

(* a first line made of one space: " \n a" is returned unchanged, every line still indented *)
Lemma desc_common_indent_refuted_lemma :
  exists t d c, description t = (d, None) /\ d <> [] /\ is_ws c = true /\ shares_indent c (split_byte 10 d).
Proof.
  exists [32; 10; 32; 97], [32; 10; 32; 97], 32.
  split; [vm_compute; reflexivity|]. split; [discriminate|]. split; [reflexivity|].
  intros l Hl Hne. vm_compute in Hl. destruct Hl as [<-|[<-|[]]]; reflexivity.
Qed.

(* a whitespace-only first line of n bytes costs n-1 bytes of indentation only: "   \n   a" -> " \n a" *)
Lemma desc_first_line_quirk :
  description [32; 32; 32; 10; 32; 32; 32; 97] = ([32; 10; 32; 97], None).
Proof. vm_compute. reflexivity. Qed.

(* a whitespace-only line in the middle limits what is removed: "    a\n  \n    b" keeps two spaces *)
Lemma desc_short_blank_line_quirk :
  description (bs "    a
  
    b"%string) = (bs "  a

  b", None).
Proof. vm_compute. reflexivity. Qed.

(* \v and \f are not trimmed: a description made of a form feed is not blank for the caller *)
Lemma desc_vt_ff_not_blank : description [12] = ([12], None) /\ description [11; 10] = ([11], None).
Proof. split; vm_compute; reflexivity. Qed.

(* ================================================================================== *)
(* 9. bare text and parenthesised text *)

Lemma trim_left_nil_all cut s : trim_left cut s = [] -> forallb cut s = true.
Proof.
  induction s as [|c s IH]; [reflexivity|]. simpl. destruct (cut c); [exact IH | discriminate].
Qed.

Lemma paren_shape_wrap s : paren_shape (40 :: s ++ [41]) = true.
Proof.
  unfold paren_shape. change (40 :: s ++ [41]) with ((40 :: s) ++ [41]). rewrite last_snoc.
  rewrite app_length. cbn [hd List.length]. rewrite N.eqb_refl.
  replace (Nat.leb 2 (S (List.length s) + 1)) with true by (symmetry; apply Nat.leb_le; lia). reflexivity.
Qed.

Lemma remove_parens_wrap t :
  remove_parens (40 :: 10 :: t ++ [10; 41]) = (trim_right cut2 (trim_left cut2 (t ++ [10])), None).
Proof.
  assert (E : 40 :: 10 :: t ++ [10; 41] = 40 :: (10 :: t ++ [10]) ++ [41]).
  { cbn [app]. rewrite <- app_assoc. reflexivity. }
  rewrite E. unfold remove_parens. rewrite trim_space_parens, paren_shape_wrap.
  cbn [tl]. rewrite removelast_last.
  remember (10 :: t ++ [10]) as s eqn:Es.
  assert (Hh : hd 0 s = 10) by (rewrite Es; reflexivity).
  assert (Hl : last s 0 = 10)
    by (rewrite Es; change (10 :: t ++ [10]) with ((10 :: t) ++ [10]); apply last_snoc).
  assert (Etrim : trim (in_set [32; 9]) s = s).
  { unfold trim. rewrite (trim_left_id _ s) by (right; rewrite Hh; reflexivity).
    apply trim_right_id. right. rewrite Hl. reflexivity. }
  rewrite Etrim, Hh, Hl. change (is_newline 10) with true. cbn [negb orb].
  destruct s as [|s0 s']; [discriminate|]. rewrite Es. unfold trim. fold cut2. reflexivity.
Qed.

Lemma desc_bare_eq_paren_lemma t :
  ~ In 13 t -> wrapped t = false -> description (40 :: 10 :: t ++ [10; 41]) = description t.
Proof.
  intros Hcr Hw.
  assert (Hb : desc_body (40 :: 10 :: t ++ [10; 41]) = desc_body t).
  { assert (Hcr' : ~ In 13 (40 :: 10 :: t ++ [10; 41])).
    { intros [H|[H|H]]; try discriminate. apply in_app_or in H as [H|[H|[H|[]]]]; try discriminate. exact (Hcr H). }
    unfold desc_body. fold (cr_norm (40 :: 10 :: t ++ [10; 41])) (cr_norm t).
    rewrite (cr_norm_id _ Hcr'), (cr_norm_id t Hcr), remove_parens_wrap, (wrapped_remove_parens t Hw).
    fold cut2 cut4. f_equal.
    assert (Hsub : forall c, cut2 c = true -> cut4 c = true).
    { intros c H. unfold cut2, in_set in H. apply existsb_exists in H as (x & Hin & Hx). apply N.eqb_eq in Hx. subst x.
      cbn [In] in Hin. destruct Hin as [<-|[<-|[]]]; reflexivity. }
    destruct (trim_left cut2 t) as [|u0 u'] eqn:Eu.
    - assert (Hall : forallb cut2 (t ++ [10]) = true).
      { rewrite forallb_app, (trim_left_nil_all cut2 t Eu). reflexivity. }
      rewrite (trim_left_all cut2 _ Hall). reflexivity.
    - rewrite trim_left_app_nonempty by (rewrite Eu; discriminate). rewrite Eu.
      rewrite trim_right_snoc by reflexivity.
      assert (Hid : trim_left cut2 (trim_right cut2 (u0 :: u')) = trim_right cut2 (u0 :: u')).
      { apply trim_left_id. destruct (trim_right cut2 (u0 :: u')) as [|v0 v'] eqn:Ev; [left; reflexivity | right].
        rewrite <- Ev, trim_right_hd by (rewrite Ev; discriminate). cbn [hd].
        destruct (trim_left_hd cut2 t) as [E0|E0]; rewrite Eu in E0; [discriminate | exact E0]. }
      rewrite Hid. apply trim_right_sub. exact Hsub. }
  unfold description. rewrite Hb. reflexivity.
Qed.

(* ================================================================================== *)
(* 10. annotation *)

Definition rseqs : list bytes := map (@rev N) uspace_seqs.

(* no byte of the non-ASCII space sequences is matched by the regexp \s *)
Definition plain_seq (q : bytes) : bool := forallb (fun x => negb (re_space x)) q.

Lemma uspace_plain : forallb plain_seq uspace_seqs = true.
Proof. vm_compute. reflexivity. Qed.
Lemma rseqs_plain : forallb plain_seq rseqs = true.
Proof. vm_compute. reflexivity. Qed.

Lemma re_space_ascii c : re_space c = true -> ascii_space c = true.
Proof.
  unfold re_space, in_set. intros H. apply existsb_exists in H as (x & Hin & Hx).
  apply N.eqb_eq in Hx. subst x. cbn [In] in Hin.
  destruct Hin as [<-|[<-|[<-|[<-|[<-|[]]]]]]; reflexivity.
Qed.

Lemma re_space_neq x c : re_space x = false -> re_space c = true -> (x =? c) = false.
Proof. intros Hx Hc. apply N.eqb_neq. intros ->. rewrite Hc in Hx. discriminate. Qed.

(* collapse does not change what a plain sequence sees at the front *)
Lemma has_prefix_collapse q s : plain_seq q = true -> has_prefix q (collapse false s) = has_prefix q s.
Proof.
  revert s. induction q as [|x q IH]; intros s Hq; [reflexivity|].
  cbn [plain_seq forallb] in Hq. apply andb_true_iff in Hq as [Hx Hq]. apply negb_true_iff in Hx.
  destruct s as [|c s]; [reflexivity|]. cbn [collapse].
  destruct (re_space c) eqn:Ec; cbn [has_prefix].
  - rewrite (re_space_neq x 32 Hx eq_refl), (re_space_neq x c Hx Ec). reflexivity.
  - rewrite (IH s Hq). reflexivity.
Qed.

Lemma match_len_collapse seqs s :
  forallb plain_seq seqs = true -> match_len seqs (collapse false s) = match_len seqs s.
Proof.
  induction seqs as [|q qs IH]; intros H; [reflexivity|]. cbn [forallb] in H.
  apply andb_true_iff in H as [Hq Hqs]. cbn [match_len]. rewrite (has_prefix_collapse q s Hq), (IH Hqs). reflexivity.
Qed.

Lemma space_len_collapse seqs s :
  forallb plain_seq seqs = true -> space_len seqs s = O -> space_len seqs (collapse false s) = O.
Proof.
  intros Hp H. destruct s as [|c s]; [reflexivity|]. cbn [space_len] in H.
  destruct (ascii_space c) eqn:Ea; [discriminate|].
  assert (Er : re_space c = false).
  { destruct (re_space c) eqn:Er; [|reflexivity]. rewrite (re_space_ascii c Er) in Ea. discriminate. }
  assert (E : collapse false (c :: s) = c :: collapse false s) by (cbn [collapse]; rewrite Er; reflexivity).
  rewrite <- (match_len_collapse seqs (c :: s) Hp) in H. rewrite E in *. cbn [space_len]. rewrite Ea. exact H.
Qed.

(* the same at the back *)
Definition flag_after (b : bool) (s : bytes) : bool := fold_left (fun _ c => re_space c) s b.

Lemma collapse_app b s t : collapse b (s ++ t) = collapse b s ++ collapse (flag_after b s) t.
Proof.
  revert b. induction s as [|c s IH]; intros b; [reflexivity|]. cbn [app collapse flag_after fold_left].
  destruct (re_space c); [destruct b|]; rewrite IH; reflexivity.
Qed.

Lemma flag_after_snoc b s c : flag_after b (s ++ [c]) = re_space c.
Proof. unfold flag_after. rewrite fold_left_app. reflexivity. Qed.

Lemma has_prefix_rev_collapse q s b :
  plain_seq q = true -> has_prefix q (rev (collapse b s)) = has_prefix q (rev s).
Proof.
  revert q b. induction s as [|c s IH] using rev_ind; intros q b Hq.
  - destruct b; reflexivity.
  - rewrite collapse_app, !rev_app_distr. cbn [rev app collapse].
    destruct q as [|x q]; [reflexivity|].
    cbn [plain_seq forallb] in Hq. apply andb_true_iff in Hq as [Hx Hq]. apply negb_true_iff in Hx.
    destruct (re_space c) eqn:Ec.
    + destruct (flag_after b s) eqn:Ef; cbn [rev app].
      * (* the byte is dropped: what precedes is a \s byte as well, or nothing *)
        transitivity false; [|symmetry; cbn [has_prefix]; rewrite (re_space_neq x c Hx Ec); reflexivity].
        destruct (snoc_cases _ s) as [->|(s1 & e & ->)].
        -- cbn in Ef. subst b. reflexivity.
        -- rewrite flag_after_snoc in Ef.
           rewrite (IH (x :: q) b) by (cbn [plain_seq forallb]; rewrite Hx, Hq; reflexivity).
           rewrite rev_app_distr. cbn [rev app has_prefix]. rewrite (re_space_neq x e Hx Ef). reflexivity.
      * cbn [has_prefix]. rewrite (re_space_neq x 32 Hx eq_refl), (re_space_neq x c Hx Ec). reflexivity.
    + cbn [rev app has_prefix]. rewrite (IH q b Hq). reflexivity.
Qed.

Lemma match_len_rev_collapse seqs s :
  forallb plain_seq seqs = true -> match_len seqs (rev (collapse false s)) = match_len seqs (rev s).
Proof.
  induction seqs as [|q qs IH]; intros H; [reflexivity|]. cbn [forallb] in H.
  apply andb_true_iff in H as [Hq Hqs]. cbn [match_len].
  rewrite (has_prefix_rev_collapse q s false Hq), (IH Hqs). reflexivity.
Qed.

Lemma space_len_rev_collapse seqs s :
  forallb plain_seq seqs = true -> space_len seqs (rev s) = O -> space_len seqs (rev (collapse false s)) = O.
Proof.
  intros Hp H. destruct (snoc_cases _ s) as [->|(s1 & c & ->)]; [reflexivity|].
  rewrite rev_app_distr in H. cbn [rev app space_len] in H.
  destruct (ascii_space c) eqn:Ea; [discriminate|].
  assert (Er : re_space c = false).
  { destruct (re_space c) eqn:Er; [|reflexivity]. rewrite (re_space_ascii c Er) in Ea. discriminate. }
  assert (E : rev (collapse false (s1 ++ [c])) = c :: rev (collapse false s1)).
  { rewrite collapse_app, rev_app_distr. cbn [collapse]. rewrite Er. reflexivity. }
  assert (M := match_len_rev_collapse seqs (s1 ++ [c]) Hp). rewrite E in M.
  rewrite rev_app_distr in M. cbn [rev app] in M.
  rewrite E. cbn [space_len]. rewrite Ea, M. exact H.
Qed.

(* what trim_space guarantees about its result *)
Lemma match_len_prefix_mono seqs x r : match_len seqs (x ++ r) = O -> match_len seqs x = O.
Proof.
  induction seqs as [|q qs IH]; [reflexivity|]. cbn [match_len].
  destruct (has_prefix q x) eqn:E.
  - rewrite (has_prefix_app_r q x r E). intros H. exact H.
  - destruct (has_prefix q (x ++ r)); [|exact IH].
    intros H. destruct q; [|discriminate]. discriminate.
Qed.

Lemma space_len_prefix_mono seqs x r : space_len seqs (x ++ r) = O -> space_len seqs x = O.
Proof.
  destruct x as [|c x]; [reflexivity|]. cbn [app space_len]. destruct (ascii_space c); [intros H; exact H|].
  apply (match_len_prefix_mono seqs (c :: x) r).
Qed.

Lemma trim_space_ends s :
  space_len uspace_seqs (trim_space s) = O /\ space_len rseqs (rev (trim_space s)) = O.
Proof.
  unfold trim_space, trim_space_left. set (y := strip_spaces uspace_seqs (List.length s) s).
  assert (Hy : space_len uspace_seqs y = O) by (apply strip_fixed; lia).
  unfold trim_space_right. fold rseqs. set (z := strip_spaces rseqs (List.length y) (rev y)).
  assert (Hz : space_len rseqs z = O) by (apply strip_fixed; rewrite rev_length; lia).
  split; [|rewrite rev_involutive; exact Hz].
  (* rev z is a prefix of y *)
  assert (Hsuf : exists pre, rev y = pre ++ z).
  { unfold z. generalize (List.length y) (rev y). clear. intros f.
    induction f as [|f IH]; intros s; cbn [strip_spaces]; [exists []; reflexivity|].
    destruct (space_len rseqs s) as [|n]; [exists []; reflexivity|].
    destruct (IH (skipn (S n) s)) as (pre & E). exists (firstn (S n) s ++ pre).
    rewrite <- app_assoc, <- E. symmetry. apply firstn_skipn. }
  destruct Hsuf as (pre & E). assert (E' : y = rev z ++ rev pre).
  { rewrite <- (rev_involutive y), E, rev_app_distr. reflexivity. }
  rewrite E' in Hy. exact (space_len_prefix_mono _ _ _ Hy).
Qed.

Lemma collapse_idem b s : collapse b (collapse b s) = collapse b s.
Proof.
  revert b. induction s as [|c s IH]; intros b; [reflexivity|]. cbn [collapse].
  destruct (re_space c) eqn:Ec.
  - destruct b; [apply IH|]. cbn [collapse]. change (re_space 32) with true. cbn iota. rewrite IH. reflexivity.
  - cbn [collapse]. rewrite Ec, IH. reflexivity.
Qed.

(* trim_space leaves the collapsed text alone *)
Lemma trim_space_collapse_trim s : trim_space (collapse false (trim_space s)) = collapse false (trim_space s).
Proof.
  destruct (trim_space_ends s) as (H1 & H2). set (x := trim_space s) in *.
  unfold trim_space, trim_space_left.
  rewrite (strip_id _ _ _ (space_len_collapse uspace_seqs x uspace_plain H1)).
  unfold trim_space_right. fold rseqs.
  rewrite (strip_id _ _ _ (space_len_rev_collapse rseqs x rseqs_plain H2)). apply rev_involutive.
Qed.

Lemma annotation_idempotent_lemma s : annotation (annotation s) = annotation s.
Proof. unfold annotation. rewrite trim_space_collapse_trim. apply collapse_idem. Qed.

Lemma collapse_only_space b s c : In c (collapse b s) -> re_space c = true -> c = 32.
Proof.
  revert b. induction s as [|x s IH]; intros b; [intros []|]. cbn [collapse].
  destruct (re_space x) eqn:Ex.
  - destruct b; [apply IH|]. intros [<-|H]; [reflexivity | exact (IH _ H)].
  - intros [<-|H] Hc; [rewrite Hc in Ex; discriminate | exact (IH _ H Hc)].
Qed.

Lemma collapse_true_no_lead s : has_prefix [32] (collapse true s) = false.
Proof.
  induction s as [|x s IH]; [reflexivity|]. cbn [collapse].
  destruct (re_space x) eqn:Ex; [exact IH|]. cbn [has_prefix].
  rewrite N.eqb_sym, (re_space_neq x 32 Ex eq_refl). reflexivity.
Qed.

Lemma collapse_no_double b s : contains [32; 32] (collapse b s) = false.
Proof.
  revert b. induction s as [|x s IH]; intros b; [reflexivity|]. cbn [collapse].
  destruct (re_space x) eqn:Ex.
  - destruct b; [apply IH|]. cbn [contains]. rewrite IH, orb_false_r.
    change (has_prefix [32; 32] (32 :: collapse true s)) with (has_prefix [32] (collapse true s)).
    apply collapse_true_no_lead.
  - cbn [contains has_prefix]. rewrite IH, orb_false_r.
    rewrite N.eqb_sym, (re_space_neq x 32 Ex eq_refl). reflexivity.
Qed.

Lemma space_len_zero_hd seqs s : space_len seqs s = O -> s = [] \/ ascii_space (hd 0 s) = false.
Proof.
  destruct s as [|c s]; [left; reflexivity | right]. cbn [space_len hd] in *.
  destruct (ascii_space c); [discriminate | reflexivity].
Qed.

(* the annotation neither starts nor ends with white space (in the Unicode sense, hence in particular
   not with an ASCII white-space byte); every byte of the regexp class \s in it is a single space *)
Lemma annotation_collapsed_lemma s :
  let a := annotation s in
  (a = [] \/ (ascii_space (hd 0 a) = false /\ ascii_space (last a 0) = false)) /\
  (forall c, In c a -> re_space c = true -> c = 32) /\
  contains [32; 32] a = false.
Proof.
  cbv zeta. split; [|split; [apply collapse_only_space | apply collapse_no_double]].
  unfold annotation. destruct (trim_space_ends s) as (H1 & H2). set (x := trim_space s) in *.
  assert (A1 := space_len_collapse uspace_seqs x uspace_plain H1).
  assert (A2 := space_len_rev_collapse rseqs x rseqs_plain H2).
  destruct (collapse false x) as [|a0 a'] eqn:Ea; [left; reflexivity | right]. split.
  - destruct (space_len_zero_hd _ _ A1) as [E|E]; [discriminate | exact E].
  - destruct (space_len_zero_hd _ _ A2) as [E2|E2].
    + apply (f_equal (@rev N)) in E2. rewrite rev_involutive in E2. discriminate.
    + rewrite hd_rev_last in E2. exact E2.
Qed.

(* ---- surrounding white space does not matter: "// text" and "/* text */" hand the same text to
   Annotation up to leading/trailing blanks ---- *)
Definition high_seq (q : bytes) : bool := forallb (fun x => negb (ascii_space x)) q.

Lemma uspace_high : forallb high_seq uspace_seqs = true.
Proof. vm_compute. reflexivity. Qed.
Lemma rseqs_high : forallb high_seq rseqs = true.
Proof. vm_compute. reflexivity. Qed.

Lemma strip_fuel seqs f1 f2 s :
  (List.length s <= f1)%nat -> (List.length s <= f2)%nat -> strip_spaces seqs f1 s = strip_spaces seqs f2 s.
Proof.
  revert f2 s. induction f1 as [|f1 IH]; intros f2 s H1 H2.
  - destruct s; [|simpl in H1; lia]. destruct f2; reflexivity.
  - destruct f2 as [|f2]; [destruct s; [reflexivity | simpl in H2; lia]|].
    cbn [strip_spaces]. destruct (space_len seqs s) as [|n] eqn:E; [reflexivity|].
    destruct s as [|c s]; [discriminate|].
    apply IH; rewrite skipn_length; simpl in *; lia.
Qed.

Lemma strip_lead_ascii seqs f w s :
  forallb ascii_space w = true -> (List.length (w ++ s) <= f)%nat ->
  strip_spaces seqs f (w ++ s) = strip_spaces seqs (List.length s) s.
Proof.
  revert f. induction w as [|c w IH]; intros f Hw Hf.
  - apply strip_fuel; [exact Hf | lia].
  - cbn [forallb] in Hw. apply andb_true_iff in Hw as [Hc Hw].
    destruct f as [|f]; [simpl in Hf; lia|]. cbn [app strip_spaces space_len]. rewrite Hc. cbn [skipn].
    apply IH; [exact Hw | simpl in Hf; lia].
Qed.

Lemma has_prefix_high_app q x w :
  high_seq q = true -> forallb ascii_space w = true -> x <> [] \/ q <> [] ->
  has_prefix q (x ++ w) = has_prefix q x.
Proof.
  revert x. induction q as [|a q IH]; intros x Hq Hw Hne.
  - destruct Hne as [Hne|Hne]; [|contradiction]. reflexivity.
  - cbn [high_seq forallb] in Hq. apply andb_true_iff in Hq as [Ha Hq]. apply negb_true_iff in Ha.
    destruct x as [|c x].
    + cbn [app]. destruct w as [|d w]; [reflexivity|]. cbn [forallb] in Hw. apply andb_true_iff in Hw as [Hd _].
      cbn [has_prefix]. replace (a =? d) with false; [reflexivity|].
      symmetry. apply N.eqb_neq. intros ->. rewrite Hd in Ha. discriminate.
    + cbn [app has_prefix]. destruct (a =? c); [|reflexivity]. cbn [andb].
      destruct q as [|b q]; [reflexivity|]. apply IH; [exact Hq | exact Hw | right; discriminate].
Qed.

Lemma match_len_high_app seqs x w :
  forallb high_seq seqs = true -> forallb ascii_space w = true -> x <> [] ->
  match_len seqs (x ++ w) = match_len seqs x.
Proof.
  intros Hs Hw Hx. induction seqs as [|q qs IH]; [reflexivity|]. cbn [forallb] in Hs.
  apply andb_true_iff in Hs as [Hq Hqs]. cbn [match_len].
  rewrite (has_prefix_high_app q x w Hq Hw (or_introl Hx)), (IH Hqs). reflexivity.
Qed.

Lemma match_len_le seqs s : (match_len seqs s <= List.length s)%nat.
Proof.
  induction seqs as [|q qs IH]; [simpl; lia|]. cbn [match_len].
  destruct (has_prefix q s) eqn:E; [apply has_prefix_length; exact E | exact IH].
Qed.

Lemma space_len_le seqs s : (space_len seqs s <= List.length s)%nat.
Proof.
  destruct s as [|c s]; [simpl; lia|]. cbn [space_len]. destruct (ascii_space c); [simpl; lia|]. apply match_len_le.
Qed.

Lemma strip_trail_ascii seqs f x w :
  forallb high_seq seqs = true -> forallb ascii_space w = true -> (List.length x <= f)%nat ->
  strip_spaces seqs (f + List.length w) (x ++ w) =
  match strip_spaces seqs f x with [] => [] | y => y ++ w end.
Proof.
  intros Hs Hw. revert x. induction f as [|f IH]; intros x Hf.
  - destruct x; [|simpl in Hf; lia]. cbn [app strip_spaces Nat.add]. apply strip_all_ascii; [lia | exact Hw].
  - destruct x as [|c x].
    + cbn [app]. rewrite strip_all_ascii by (try lia; exact Hw). reflexivity.
    + cbn [Nat.add strip_spaces].
      assert (El : space_len seqs ((c :: x) ++ w) = space_len seqs (c :: x)).
      { cbn [app space_len]. destruct (ascii_space c); [reflexivity|].
        apply (match_len_high_app seqs (c :: x) w Hs Hw). discriminate. }
      rewrite El. destruct (space_len seqs (c :: x)) as [|n] eqn:E; [reflexivity|].
      assert (Hle := space_len_le seqs (c :: x)). rewrite E in Hle.
      rewrite skipn_app. replace (S n - List.length (c :: x))%nat with O by lia. cbn [skipn].
      apply IH. rewrite skipn_length. simpl in *. lia.
Qed.

Lemma trim_space_pad w1 s w2 :
  forallb ascii_space w1 = true -> forallb ascii_space w2 = true ->
  trim_space (w1 ++ s ++ w2) = trim_space s.
Proof.
  intros H1 H2. unfold trim_space.
  assert (EL : trim_space_left (w1 ++ s ++ w2) =
               match trim_space_left s with [] => [] | y => y ++ w2 end).
  { unfold trim_space_left. rewrite (strip_lead_ascii uspace_seqs _ w1 (s ++ w2) H1) by lia.
    rewrite app_length. apply (strip_trail_ascii uspace_seqs (List.length s) s w2 uspace_high H2). lia. }
  rewrite EL. destruct (trim_space_left s) as [|y0 y]; [reflexivity|].
  unfold trim_space_right. fold rseqs. rewrite rev_app_distr.
  rewrite (strip_lead_ascii rseqs _ (rev w2) (rev (y0 :: y))).
  - rewrite !rev_length. reflexivity.
  - rewrite forallb_forall in *. intros c Hc. apply H2. apply in_rev. exact Hc.
  - rewrite <- rev_app_distr, !rev_length. lia.
Qed.

Lemma annotation_pad_lemma w1 s w2 :
  forallb ascii_space w1 = true -> forallb ascii_space w2 = true ->
  annotation (w1 ++ s ++ w2) = annotation s.
Proof. intros H1 H2. unfold annotation. rewrite (trim_space_pad w1 s w2 H1 H2). reflexivity. Qed.

(* ================================================================================== *)
(* 11. worked examples (vm_compute) *)

(* CRLF, lone CR, tabs and spaces, trailing whitespace, empty lines inside *)
Definition ex_text : bytes :=
  [13; 10; 9; 32; 32] ++ bs "Line one  " ++ [13; 9; 32; 32; 32; 32] ++ bs "two" ++
  [13; 10; 13; 10; 9; 32; 32] ++ bs "three" ++ [9; 32; 13; 10].
Definition ex_result : bytes := bs "Line one  " ++ [10] ++ bs "  two" ++ [10; 10] ++ bs "three".

Example ex_desc_no_cr_trimmed : description ex_text = (ex_result, None).
Proof. vm_compute. reflexivity. Qed.

Example ex_desc_idempotent : description ex_result = (ex_result, None).
Proof. vm_compute. reflexivity. Qed.

(* parenthesised spelling of the same text, "(" and ")" on their own lines with stray blanks *)
Example ex_desc_bare_eq_paren :
  description (bs " (  " ++ [13; 10] ++ ex_text ++ [10] ++ bs "  ) " ++ [10]) = description ex_text.
Proof. vm_compute. reflexivity. Qed.

(* a bare text that merely starts with "(" and ends with ")" is taken for a parenthesised body and
   REJECTED (nothing may follow "(" on its line) *)
Example ex_desc_inner_parens_rejected :
  description (bs "(see below) and (above)") = (bs "see below) and (above", Some err_apart).
Proof. vm_compute. reflexivity. Qed.
Example ex_desc_inner_parens_ok :
  description (bs "(see below), then (above).") = (bs "(see below), then (above).", None).
Proof. vm_compute. reflexivity. Qed.

(* "(a)" IS read as a parenthesised body, and a malformed one *)
Example ex_desc_paren_error : description (bs "(a)") = (bs "a", Some err_apart).
Proof. vm_compute. reflexivity. Qed.

(* tabs and spaces: only the byte-wise common prefix goes *)
Example ex_desc_common_indent :
  description ([9; 32] ++ bs "a" ++ [10; 9; 32; 32] ++ bs "b" ++ [10; 9; 9] ++ bs "c")
  = (bs " a" ++ [10] ++ bs "  b" ++ [10; 9] ++ bs "c", None).
Proof. vm_compute. reflexivity. Qed.

Example ex_blank_desc : description [32; 9; 13; 10; 13; 32; 10] = ([], None).
Proof. vm_compute. reflexivity. Qed.

(* \v is trimmed at the ends but is not \s for the regexp: it survives inside *)
Definition ex_annot : bytes :=
  [32; 9] ++ bs "first" ++ [13; 10; 9; 9] ++ bs "second   third" ++ [12; 32] ++ bs "x" ++ [11] ++ bs "y " ++ [10; 11].
Example ex_annotation : annotation ex_annot = bs "first second third x" ++ [11] ++ bs "y".
Proof. vm_compute. reflexivity. Qed.
Example ex_annotation_idem : annotation (annotation ex_annot) = annotation ex_annot.
Proof. vm_compute. reflexivity. Qed.
(* NBSP (C2 A0) and U+2009 (E2 80 89) are trimmed at the ends, kept inside *)
Example ex_annotation_unicode :
  annotation ([194; 160; 32] ++ bs "a" ++ [194; 160] ++ bs " b" ++ [226; 128; 137; 10]) = bs "a" ++ [194; 160] ++ bs " b".
Proof. vm_compute. reflexivity. Qed.
