(* C07 — macros: proofs about model/Core.v (collect_macro, check_macro/find_paste,
   check_all_macros, paste_list, expand) against spec/MacroSpec.v. *)
From Coq Require Import List NArith Bool Lia Arith String.
From JV.lib Require Import Bytes.
From JV.gen Require Import DirectiveTables.
From JV.model Require Import Core.
From JV.spec Require Import MacroSpec.
Import ListNotations.

(* ------------------------------------------------------------------------------------ *)
(* basics *)

Local Arguments bs : simpl never.
Local Arguments forest_size : simpl never.
Local Arguments tree_size : simpl never.
Local Arguments macro_total : simpl never.

Lemma name_in_In n l : name_in n l = true <-> In n l.
Proof.
  unfold name_in. rewrite existsb_exists. split.
  - intros [x [Hx Hb]]. apply beq_eq in Hb. subst. exact Hx.
  - intros H. exists n. split; [exact H | apply beq_refl].
Qed.

Lemma name_in_false n l : name_in n l = false <-> ~ In n l.
Proof.
  split.
  - intros H Hin. apply name_in_In in Hin. congruence.
  - intros H. destruct (name_in n l) eqn:E; [|reflexivity]. apply name_in_In in E. contradiction.
Qed.

Lemma name_in_cons x n w : name_in x (n :: w) = beq x n || name_in x w.
Proof. reflexivity. Qed.

Lemma beq_sym a b : beq a b = beq b a.
Proof.
  destruct (beq a b) eqn:E1, (beq b a) eqn:E2; try reflexivity.
  - apply beq_eq in E1. subst. rewrite beq_refl in E2. discriminate.
  - apply beq_eq in E2. subst. rewrite beq_refl in E1. discriminate.
Qed.

Lemma beq_neq a b : beq a b = false <-> a <> b.
Proof.
  split.
  - intros H E. subst. rewrite beq_refl in H. discriminate.
  - intros H. destruct (beq a b) eqn:E; [|reflexivity]. apply beq_eq in E. contradiction.
Qed.

Lemma lookup_some_in m n t : macro_lookup m n = Some t -> In (n, t) m.
Proof.
  unfold macro_lookup. destruct (find _ m) as [e|] eqn:E; [|discriminate].
  intros H. injection H as <-. apply find_some in E as [Hin Hb]. apply beq_eq in Hb.
  destruct e as [a b]. simpl in *. subst. exact Hin.
Qed.

Lemma lookup_in_names m n t : macro_lookup m n = Some t -> In n (map fst m).
Proof. intros H. apply lookup_some_in in H. apply (in_map fst) in H. exact H. Qed.

Lemma in_names_defined m n : In n (map fst m) -> defined m n = true.
Proof.
  intros H. apply in_map_iff in H as [e [He Hin]]. unfold defined, macro_lookup.
  destruct (find (fun e0 => beq (fst e0) n) m) eqn:E; [reflexivity|].
  eapply find_none in E; [|exact Hin]. simpl in E. subst. rewrite beq_refl in E. discriminate.
Qed.

Lemma defined_in_names m n : defined m n = true -> In n (map fst m).
Proof.
  unfold defined. destruct (macro_lookup m n) eqn:E; [|discriminate]. intros _.
  eapply lookup_in_names; exact E.
Qed.

Lemma lookup_cons e m n :
  macro_lookup (e :: m) n = if beq (fst e) n then Some (snd e) else macro_lookup m n.
Proof. unfold macro_lookup. simpl. destruct (beq (fst e) n); reflexivity. Qed.

Lemma tree_size_node d k : tree_size (DNode d k) = S (forest_size k).
Proof. reflexivity. Qed.

Lemma tree_size_kids t : tree_size t = S (forest_size (tree_kids t)).
Proof. destruct t; reflexivity. Qed.

Lemma forest_size_cons t r : forest_size (t :: r) = (tree_size t + forest_size r)%nat.
Proof. reflexivity. Qed.

Lemma forest_size_app a b : forest_size (a ++ b) = (forest_size a + forest_size b)%nat.
Proof. induction a as [|t a IH]; simpl; [reflexivity|]. rewrite !forest_size_cons, IH. lia. Qed.

Lemma forest_size_nil : forest_size [] = O.
Proof. reflexivity. Qed.

Lemma tree_size_pos t : (1 <= tree_size t)%nat.
Proof. rewrite tree_size_kids. lia. Qed.

Lemma macro_total_cons e m : macro_total (e :: m) = (tree_size (snd e) + macro_total m)%nat.
Proof. reflexivity. Qed.

Lemma macro_total_ge_len m : (List.length m <= macro_total m)%nat.
Proof.
  induction m as [|e m IH]; simpl; [lia|]. rewrite macro_total_cons.
  pose proof (tree_size_pos (snd e)). lia.
Qed.

Lemma lookup_size m n t : macro_lookup m n = Some t -> (tree_size t <= macro_total m)%nat.
Proof.
  induction m as [|e m IH]; [discriminate|]. rewrite lookup_cons, macro_total_cons.
  destruct (beq (fst e) n).
  - intros H. injection H as <-. lia.
  - intros H. apply IH in H. lia.
Qed.

Lemma pastes_tree_eq t :
  pastes_tree t = if is_paste t then [dname t] else pastes_in (tree_kids t).
Proof. destruct t; reflexivity. Qed.

Lemma pastes_in_cons t r : pastes_in (t :: r) = pastes_tree t ++ pastes_in r.
Proof. reflexivity. Qed.

Lemma kind_macro_not_paste k : kind_eqb k KMacro = true -> kind_eqb k KPaste = false.
Proof.
  unfold kind_eqb. intros H. apply N.eqb_eq in H. rewrite H. reflexivity.
Qed.

Lemma macro_not_paste t : is_macro t = true -> is_paste t = false.
Proof. apply kind_macro_not_paste. Qed.

Lemma succs_defined m a b : In b (succs m a) -> defined m a = true.
Proof.
  unfold succs, body, defined. destruct (macro_lookup m a); [reflexivity|]. simpl. contradiction.
Qed.

(* ------------------------------------------------------------------------------------ *)
(* the paste graph as a list and as a relation *)

Lemma gsuccs_spec m a b :
  In b (gsuccs (paste_graph m) a) <-> In b (succs m a) /\ defined m b = true.
Proof.
  unfold gsuccs, paste_graph. rewrite in_map_iff. split.
  - intros [[x y] [Hy Hin]]. simpl in Hy. subst y.
    apply filter_In in Hin as [Hin Hb]. simpl in Hb. apply beq_eq in Hb. subst x.
    apply in_flat_map in Hin as [e [He Hin]]. apply in_map_iff in Hin as [c [Hc Hin]].
    injection Hc as Ha ->. apply filter_In in Hin as [H1 H2]. rewrite Ha in H1. split; assumption.
  - intros [Hs Hd]. exists (a, b). split; [reflexivity|]. apply filter_In. split; [|apply beq_refl].
    pose proof (succs_defined _ _ _ Hs) as Ha. unfold defined in Ha.
    destruct (macro_lookup m a) as [t|] eqn:E; [|discriminate].
    apply in_flat_map. exists (a, t). split; [apply lookup_some_in; exact E|].
    apply in_map_iff. exists b. split; [reflexivity|]. apply filter_In. split; assumption.
Qed.

Lemma reaches_S k g a b :
  reaches (S k) g a b = existsb (fun c => beq c b || reaches k g c b) (gsuccs g a).
Proof. reflexivity. Qed.

Lemma reaches_mono g k k' a b : (k <= k')%nat -> reaches k g a b = true -> reaches k' g a b = true.
Proof.
  revert k' a. induction k as [|k IH]; intros k' a Hle H; [discriminate|].
  destruct k' as [|k']; [lia|]. rewrite reaches_S in *.
  apply existsb_exists in H as [c [Hc H]]. apply existsb_exists. exists c. split; [exact Hc|].
  apply orb_true_iff in H as [H|H]; apply orb_true_iff; [left; exact H|right].
  apply IH; [lia|exact H].
Qed.

(* ------------------------------------------------------------------------------------ *)
(* the recursion check never runs out of the fuel `expand` gives it *)

Definition avail (m : macro_table) (w : list bytes) : nat :=
  fold_right (fun e acc => ((if name_in (fst e) w then 0 else 2 + tree_size (snd e)) + acc)%nat) O m.

Lemma avail_cons e m w :
  avail (e :: m) w = ((if name_in (fst e) w then 0 else 2 + tree_size (snd e)) + avail m w)%nat.
Proof. reflexivity. Qed.
Local Arguments avail : simpl never.
Local Arguments name_in : simpl never.

Lemma avail_mono m n w : (avail m (n :: w) <= avail m w)%nat.
Proof.
  induction m as [|e m IH]; [unfold avail; simpl; lia|]. rewrite !avail_cons, name_in_cons.
  destruct (beq (fst e) n), (name_in (fst e) w); simpl; lia.
Qed.

Lemma avail_step m n w t :
  macro_lookup m n = Some t -> name_in n w = false ->
  (avail m (n :: w) + 2 + tree_size t <= avail m w)%nat.
Proof.
  induction m as [|e m IH]; [discriminate|]. rewrite lookup_cons. intros H Hw.
  rewrite !avail_cons, name_in_cons. destruct (beq (fst e) n) eqn:E.
  - injection H as <-. apply beq_eq in E. rewrite E, Hw. simpl.
    pose proof (avail_mono m n w). lia.
  - specialize (IH H Hw). simpl. destruct (name_in (fst e) w); lia.
Qed.

Lemma avail_nil m : avail m [] = (macro_total m + 2 * List.length m)%nat.
Proof.
  induction m as [|e m IH]; [reflexivity|]. rewrite avail_cons, macro_total_cons, IH. simpl. lia.
Qed.

Lemma check_no_fuel m : forall fuel,
  (forall ts w d, (forest_size ts + 1 + avail m w <= fuel)%nat -> find_paste fuel m ts w d <> CFuel) /\
  (forall n w d, name_in n w = false -> (1 + avail m w <= fuel)%nat -> check_macro fuel m n w d <> CFuel).
Proof.
  induction fuel as [|f [IHf IHc]]; split.
  - intros ts w d H. lia.
  - intros n w d _ H. lia.
  - intros ts w d H. simpl. destruct ts as [|t r]; [discriminate|].
    rewrite forest_size_cons in H. pose proof (tree_size_kids t) as Hk.
    set (head := if kind_eqb (d_kind (tree_dir t)) KPaste then _ else _).
    assert (Hh : head <> CFuel).
    { unfold head. destruct (kind_eqb (d_kind (tree_dir t)) KPaste).
      - destruct (beq (named (tree_dir t) (bs "Name")) []); [discriminate|].
        destruct (name_in (named (tree_dir t) (bs "Name")) w) eqn:Ew; [discriminate|].
        apply IHc; [exact Ew|lia].
      - apply IHf. lia. }
    destruct head as [d'| | |]; simpl; try discriminate; [|congruence].
    apply IHf. lia.
  - intros n w d Hw H. simpl. destruct (name_in n d); [discriminate|].
    destruct (macro_lookup m n) as [t|] eqn:E; [|discriminate].
    pose proof (avail_step m n w t E Hw) as Hs.
    assert (Hh : find_paste f m [t] (n :: w) d <> CFuel).
    { apply IHf. rewrite forest_size_cons, forest_size_nil. lia. }
    destruct (find_paste f m [t] (n :: w) d); simpl; try discriminate. congruence.
Qed.

Lemma check_all_no_fuel m fuel : (1 + avail m [] <= fuel)%nat ->
  forall names d, check_all_macros fuel m names d <> CFuel.
Proof.
  intros H names. induction names as [|n r IH]; intros d; simpl; [discriminate|].
  pose proof (proj2 (check_no_fuel m fuel) n [] d eq_refl H) as Hc.
  destruct (check_macro fuel m n [] d); simpl; try discriminate; [apply IH|congruence].
Qed.

Lemma check_fuel_needed_ok m : (1 + avail m [] <= check_fuel_needed m)%nat.
Proof. rewrite avail_nil. unfold check_fuel_needed. lia. Qed.

Lemma check_fuel_enough m : (check_fuel_needed m <= check_fuel m)%nat.
Proof.
  unfold check_fuel_needed, check_fuel. pose proof (macro_total_ge_len m). nia.
Qed.

(* no step of the check panics *)
Lemma check_no_panic m : forall fuel,
  (forall ts w d why, find_paste fuel m ts w d <> CPanic why) /\
  (forall n w d why, check_macro fuel m n w d <> CPanic why).
Proof.
  induction fuel as [|f [IHf IHc]]; split; try (intros; simpl; discriminate).
  - intros ts w d why. simpl. destruct ts as [|t r]; [discriminate|].
    set (head := if kind_eqb (d_kind (tree_dir t)) KPaste then _ else _).
    assert (Hh : forall y, head <> CPanic y).
    { intros y. unfold head. destruct (kind_eqb (d_kind (tree_dir t)) KPaste).
      - destruct (beq (named (tree_dir t) (bs "Name")) []); [discriminate|].
        destruct (name_in (named (tree_dir t) (bs "Name")) w); [discriminate|]. apply IHc.
      - apply IHf. }
    destruct head as [d'| |y|]; simpl; try discriminate; [apply IHf|apply Hh].
  - intros n w d why. simpl. destruct (name_in n d); [discriminate|].
    destruct (macro_lookup m n) as [t|]; [|discriminate].
    pose proof (IHf [t] (n :: w) d) as Hh.
    destruct (find_paste f m [t] (n :: w) d); simpl; try discriminate. apply Hh.
Qed.

Lemma check_all_no_panic m fuel names : forall d why, check_all_macros fuel m names d <> CPanic why.
Proof.
  induction names as [|n r IH]; intros d why; simpl; [discriminate|].
  pose proof (proj2 (check_no_panic m fuel) n [] d) as Hc.
  destruct (check_macro fuel m n [] d) as [d'| |y|]; simpl; try discriminate; [apply IH|].
  exfalso. exact (Hc y eq_refl).
Qed.

(* ------------------------------------------------------------------------------------ *)
(* the recursion check decides acyclicity of the paste graph *)

Lemma find_paste_S f m ts w d :
  find_paste (S f) m ts w d =
  match ts with
  | [] => COk d
  | t :: r =>
    (if is_paste t then
       if beq (dname t) [] then CErr (kw_err (tree_dir t) CENameRequired)
       else if name_in (dname t) w then CErr (kw_err (tree_dir t) CERecursion)
       else check_macro f m (dname t) w d
     else find_paste f m (tree_kids t) w d) >>=c fun d' => find_paste f m r w d'
  end.
Proof. reflexivity. Qed.

Lemma check_macro_S f m n w d :
  check_macro (S f) m n w d =
  if name_in n d then COk d
  else match macro_lookup m n with
       | None => COk d
       | Some t => find_paste f m [t] (n :: w) d >>=c fun d' => COk (n :: d')
       end.
Proof. reflexivity. Qed.

Section Check.
  Variable m : macro_table.
  Hypothesis Htab : table_ok m = true.

  Lemma table_entry_macro n t : macro_lookup m n = Some t -> is_macro t = true.
  Proof.
    intros H. apply lookup_some_in in H. unfold table_ok in Htab.
    rewrite forallb_forall in Htab. apply (Htab _ H).
  Qed.

  Lemma pastes_of_macro n t : macro_lookup m n = Some t -> pastes_in [t] = succs m n.
  Proof.
    intros H. rewrite pastes_in_cons, pastes_tree_eq, (macro_not_paste _ (table_entry_macro _ _ H)).
    unfold succs, body. rewrite H. simpl. apply app_nil_r.
  Qed.

  Fixpoint topo (l : list bytes) : Prop :=
    match l with
    | [] => True
    | n :: l' => (forall b, In b (succs m n) -> defined m b = true -> In b l') /\ topo l'
    end.

  Definition Inv (d : list bytes) : Prop :=
    topo d /\ NoDup d /\ (forall x, In x d -> defined m x = true) /\
    (forall x, In x d -> ~ In [] (succs m x)).

  Lemma check_ok_inv : forall fuel,
    (forall ts w d d', find_paste fuel m ts w d = COk d' -> Inv d ->
       Inv d' /\ incl d d' /\ (forall x, In x d' -> In x d \/ name_in x w = false) /\
       (forall b, In b (pastes_in ts) -> b <> [] /\ (defined m b = true -> In b d'))) /\
    (forall n w d d', check_macro fuel m n w d = COk d' -> Inv d -> name_in n w = false ->
       Inv d' /\ incl d d' /\ (forall x, In x d' -> In x d \/ name_in x w = false) /\
       (defined m n = true -> In n d')).
  Proof.
    induction fuel as [|f [IHf IHc]]; split; try (intros; discriminate).
    - intros ts w d d' H HI. rewrite find_paste_S in H. destruct ts as [|t r].
      { injection H as <-. split; [exact HI|]. split; [apply incl_refl|].
        split; [intros x Hx; left; exact Hx|]. intros b []. }
      assert (Hhead : forall d1,
        (if is_paste t then
           if beq (dname t) [] then CErr (kw_err (tree_dir t) CENameRequired)
           else if name_in (dname t) w then CErr (kw_err (tree_dir t) CERecursion)
           else check_macro f m (dname t) w d
         else find_paste f m (tree_kids t) w d) = COk d1 ->
        Inv d1 /\ incl d d1 /\ (forall x, In x d1 -> In x d \/ name_in x w = false) /\
        (forall b, In b (pastes_tree t) -> b <> [] /\ (defined m b = true -> In b d1))).
      { intros d1 Hd1. rewrite pastes_tree_eq. destruct (is_paste t).
        - destruct (beq (dname t) []) eqn:En; [discriminate|].
          destruct (name_in (dname t) w) eqn:Ew; [discriminate|].
          destruct (IHc _ _ _ _ Hd1 HI Ew) as [A [B [C D]]].
          split; [exact A|]. split; [exact B|]. split; [exact C|]. intros b [<-|[]].
          split; [|exact D]. intros E0. rewrite E0 in En. rewrite beq_refl in En. discriminate.
        - destruct (IHf _ _ _ _ Hd1 HI) as [A [B [C D]]].
          split; [exact A|]. split; [exact B|]. split; [exact C|]. exact D. }
      match type of H with (?hd >>=c _) = _ => destruct hd as [d1| | |] eqn:Eh end; simpl in H; try discriminate.
      destruct (Hhead d1 eq_refl) as [A [B [C D]]].
      destruct (IHf _ _ _ _ H A) as [A' [B' [C' D']]].
      split; [exact A'|]. split; [eapply incl_tran; eassumption|]. split.
      + intros x Hx. destruct (C' x Hx) as [Hx1|Hx1]; [apply C; exact Hx1|right; exact Hx1].
      + intros b Hb. rewrite pastes_in_cons in Hb. apply in_app_or in Hb as [Hb|Hb].
        * destruct (D b Hb) as [D1 D2]. split; [exact D1|]. intros Hdef. apply B'. apply D2. exact Hdef.
        * apply D'. exact Hb.
    - intros n w d d' H HI Hw. rewrite check_macro_S in H.
      destruct (name_in n d) eqn:End.
      { injection H as <-. split; [exact HI|]. split; [apply incl_refl|]. split; [auto|].
        intros _. apply name_in_In. exact End. }
      destruct (macro_lookup m n) as [t|] eqn:El.
      2:{ injection H as <-. split; [exact HI|]. split; [apply incl_refl|]. split; [auto|].
          unfold defined. rewrite El. discriminate. }
      destruct (find_paste f m [t] (n :: w) d) as [d1| | |] eqn:Ef; simpl in H; try discriminate.
      injection H as <-.
      destruct (IHf _ _ _ _ Ef HI) as [[T [N [Df Cl]]] [B [C D]]].
      rewrite (pastes_of_macro _ _ El) in D.
      assert (Hn : ~ In n d1).
      { intros Hin. destruct (C n Hin) as [Hc|Hc].
        - apply name_in_false in End. contradiction.
        - rewrite name_in_cons, beq_refl in Hc. discriminate. }
      split.
      { split; [|split; [|split]].
        - split; [|exact T]. intros b Hb Hdef. apply (D b Hb). exact Hdef.
        - constructor; assumption.
        - intros x [<-|Hx]; [unfold defined; rewrite El; reflexivity|apply Df; exact Hx].
        - intros x [<-|Hx]; [|apply Cl; exact Hx]. intros H0. apply (D [] H0). reflexivity. }
      split; [apply incl_tl; exact B|]. split.
      + intros x [<-|Hx]; [right; exact Hw|]. destruct (C x Hx) as [Hc|Hc]; [left; exact Hc|right].
        rewrite name_in_cons in Hc. apply orb_false_iff in Hc. apply Hc.
      + intros _. left. reflexivity.
  Qed.

  Lemma Inv_nil : Inv [].
  Proof. repeat split; try constructor; intros x []. Qed.

  Lemma check_all_ok_inv fuel : forall names d,
    check_all_macros fuel m names d = COk tt -> Inv d ->
    exists d', Inv d' /\ incl d d' /\ forall n, In n names -> defined m n = true -> In n d'.
  Proof.
    induction names as [|n r IH]; intros d H HI.
    - exists d. split; [exact HI|]. split; [apply incl_refl|]. intros n [].
    - simpl in H. destruct (check_macro fuel m n [] d) as [d1| | |] eqn:Ec; simpl in H; try discriminate.
      destruct (proj2 (check_ok_inv fuel) _ _ _ _ Ec HI eq_refl) as [A [B [C D]]].
      destruct (IH d1 H A) as [d' [A' [B' C']]]. exists d'. split; [exact A'|].
      split; [eapply incl_tran; eassumption|]. intros x [<-|Hx] Hdef; [apply B'; apply D; exact Hdef|].
      apply C'; assumption.
  Qed.

  (* a topological order excludes every cycle *)
  Lemma topo_in l : topo l -> forall a b, In a l -> In b (succs m a) -> defined m b = true -> In b l.
  Proof.
    induction l as [|n l IH]; intros T a b Ha Hb Hd; [contradiction|]. destruct T as [T1 T2].
    destruct Ha as [<-|Ha]; [right; apply T1; assumption|right]. eapply IH; eassumption.
  Qed.

  Lemma topo_closed l : topo l -> forall k a b, In a l -> reaches k (paste_graph m) a b = true -> In b l.
  Proof.
    intros T. induction k as [|k IH]; intros a b Ha H; [discriminate|]. rewrite reaches_S in H.
    apply existsb_exists in H as [c [Hc H]]. apply gsuccs_spec in Hc as [Hc1 Hc2].
    pose proof (topo_in l T a c Ha Hc1 Hc2) as Hcl.
    apply orb_true_iff in H as [H|H]; [apply beq_eq in H; subst; exact Hcl|].
    eapply IH; eassumption.
  Qed.

  Lemma topo_acyclic l : topo l -> NoDup l -> forall k a, In a l -> reaches k (paste_graph m) a a = false.
  Proof.
    induction l as [|n l IH]; intros T N k a Ha; [contradiction|]. destruct T as [T1 T2].
    inversion N as [|? ? Hn N']; subst.
    destruct (reaches k (paste_graph m) a a) eqn:E; [exfalso|reflexivity].
    destruct (in_dec (list_eq_dec N.eq_dec) a l) as [Hal|Hal].
    { rewrite (IH T2 N' k a Hal) in E. discriminate. }
    destruct Ha as [<-|Ha]; [|contradiction].
    destruct k as [|k]; [discriminate|]. rewrite reaches_S in E.
    apply existsb_exists in E as [c [Hc H]]. apply gsuccs_spec in Hc as [Hc1 Hc2].
    pose proof (T1 c Hc1 Hc2) as Hcl.
    apply orb_true_iff in H as [H|H]; [apply beq_eq in H; subst; contradiction|].
    apply Hn. eapply topo_closed; eassumption.
  Qed.

  (* the walk is a path of the graph *)
  Fixpoint chain (w : list bytes) : Prop :=
    match w with
    | a :: r => match r with b :: _ => In a (succs m b) | [] => True end /\ chain r
    | [] => True
    end.

  Lemma chain_prefix l1 n l2 : chain (l1 ++ n :: l2) -> chain (l1 ++ [n]).
  Proof.
    induction l1 as [|a l1 IH]; intros H.
    - simpl. split; exact I.
    - simpl in H. destruct H as [H1 H2]. simpl. split; [|apply IH; exact H2].
      destruct l1; simpl in *; exact H1.
  Qed.

  Lemma chain_reach : forall l1 n z k, chain (l1 ++ [n]) ->
    (forall c, In c l1 -> defined m c = true) ->
    reaches k (paste_graph m) (hd n l1) z = true ->
    reaches (k + List.length l1) (paste_graph m) n z = true.
  Proof.
    induction l1 as [|x l1 IH]; intros n z k Hc Hd H.
    - simpl in *. rewrite Nat.add_0_r. exact H.
    - simpl in H. simpl in Hc. destruct Hc as [H1 H2].
      assert (Hy : In x (succs m (hd n l1))).
      { destruct l1; simpl in *; exact H1. }
      assert (Hs : reaches (S k) (paste_graph m) (hd n l1) z = true).
      { rewrite reaches_S. apply existsb_exists. exists x. split.
        - apply gsuccs_spec. split; [exact Hy|]. apply Hd. left. reflexivity.
        - rewrite H. apply orb_true_r. }
      specialize (IH n z (S k) H2 (fun c Hc => Hd c (or_intror Hc)) Hs).
      simpl. rewrite <- plus_n_Sm. exact IH.
  Qed.

  Lemma cycle_found h w' n :
    chain (h :: w') -> NoDup (h :: w') -> (forall x, In x (h :: w') -> defined m x = true) ->
    In n (succs m h) -> In n (h :: w') -> has_cycle m = true.
  Proof.
    intros Hc Hn Hd Hs Hin. destruct (in_split _ _ Hin) as [l1 [l2 E]].
    assert (Hh : hd n l1 = h). { destruct l1; simpl in *; congruence. }
    rewrite E in Hc, Hd, Hn.
    assert (H1 : reaches 1 (paste_graph m) (hd n l1) n = true).
    { rewrite Hh, reaches_S. apply existsb_exists. exists n. split.
      - apply gsuccs_spec. split; [exact Hs|]. apply Hd. apply in_elt.
      - rewrite beq_refl. reflexivity. }
    pose proof (chain_reach l1 n n 1 (chain_prefix _ _ _ Hc) (fun c Hc' => Hd c (in_or_app _ _ _ (or_introl Hc'))) H1) as Hr.
    assert (Hlen : (1 + List.length l1 <= List.length m)%nat).
    { assert (Hi : incl (l1 ++ n :: l2) (map fst m)).
      { intros x Hx. apply defined_in_names. apply Hd. exact Hx. }
      pose proof (NoDup_incl_length Hn Hi) as Hl. rewrite app_length, map_length in Hl. simpl in Hl. lia. }
    unfold has_cycle. apply existsb_exists. exists n. split.
    - apply defined_in_names. apply Hd. apply in_elt.
    - eapply reaches_mono; [exact Hlen|exact Hr].
  Qed.

  Definition Bad (e : cerr) : Prop :=
    (ce_kind e = CENameRequired /\ nameless_paste m = true) \/
    (ce_kind e = CERecursion /\ has_cycle m = true).

  Lemma nameless_found h : In [] (succs m h) -> nameless_paste m = true.
  Proof.
    intros H. pose proof (succs_defined _ _ _ H) as Hd. unfold defined in Hd.
    destruct (macro_lookup m h) as [t|] eqn:E; [|discriminate].
    unfold nameless_paste. apply existsb_exists. exists (h, t). split; [apply lookup_some_in; exact E|].
    simpl. apply name_in_In. exact H.
  Qed.

  Lemma check_err : forall fuel,
    (forall ts h w' d e, find_paste fuel m ts (h :: w') d = CErr e ->
       chain (h :: w') -> NoDup (h :: w') -> (forall x, In x (h :: w') -> defined m x = true) ->
       (forall b, In b (pastes_in ts) -> In b (succs m h)) -> Bad e) /\
    (forall n w d e, check_macro fuel m n w d = CErr e ->
       chain w -> NoDup w -> (forall x, In x w -> defined m x = true) -> name_in n w = false ->
       match w with h :: _ => In n (succs m h) | [] => True end -> Bad e).
  Proof.
    induction fuel as [|f [IHf IHc]]; split; try (intros; discriminate).
    - intros ts h w' d e H Hc Hn Hd Hp. rewrite find_paste_S in H. destruct ts as [|t r]; [discriminate|].
      assert (Ht : forall b, In b (pastes_tree t) -> In b (succs m h)).
      { intros b Hb. apply Hp. rewrite pastes_in_cons. apply in_or_app. left. exact Hb. }
      assert (Hr : forall b, In b (pastes_in r) -> In b (succs m h)).
      { intros b Hb. apply Hp. rewrite pastes_in_cons. apply in_or_app. right. exact Hb. }
      rewrite pastes_tree_eq in Ht.
      destruct (is_paste t).
      + specialize (Ht (dname t) (or_introl eq_refl)).
        destruct (beq (dname t) []) eqn:En.
        { simpl in H. injection H as <-. left. split; [reflexivity|]. apply beq_eq in En. rewrite En in Ht.
          eapply nameless_found; exact Ht. }
        destruct (name_in (dname t) (h :: w')) eqn:Ew.
        { simpl in H. injection H as <-. right. split; [reflexivity|]. apply name_in_In in Ew.
          eapply cycle_found; eassumption. }
        destruct (check_macro f m (dname t) (h :: w') d) as [d1| | |] eqn:Ec; simpl in H; try discriminate.
        * eapply IHf; eassumption.
        * injection H as <-. eapply IHc; eassumption.
      + destruct (find_paste f m (tree_kids t) (h :: w') d) as [d1| | |] eqn:Ec; simpl in H; try discriminate.
        * eapply IHf; eassumption.
        * injection H as <-. eapply IHf; eassumption.
    - intros n w d e H Hc Hn Hd Hw Hs. rewrite check_macro_S in H.
      destruct (name_in n d); [discriminate|].
      destruct (macro_lookup m n) as [t|] eqn:El; [|discriminate].
      destruct (find_paste f m [t] (n :: w) d) as [d1| | |] eqn:Ef; simpl in H; try discriminate.
      injection H as <-. eapply IHf; [exact Ef| | | |].
      + simpl. split; [|exact Hc]. destruct w; [exact I|exact Hs].
      + constructor; [apply name_in_false; exact Hw|exact Hn].
      + intros x [<-|Hx]; [unfold defined; rewrite El; reflexivity|apply Hd; exact Hx].
      + intros b Hb. rewrite (pastes_of_macro _ _ El) in Hb. exact Hb.
  Qed.

  Lemma check_all_err fuel : forall names d e, check_all_macros fuel m names d = CErr e -> Bad e.
  Proof.
    induction names as [|n r IH]; intros d e H; [discriminate|]. simpl in H.
    destruct (check_macro fuel m n [] d) as [d1| | |] eqn:Ec; simpl in H; try discriminate.
    - eapply IH; exact H.
    - injection H as <-. eapply (proj2 (check_err fuel)); try exact Ec; try constructor; try reflexivity.
      intros x [].
  Qed.

  (* what a passed check means *)
  Lemma check_passed_order fuel :
    check_all_macros fuel m (map fst m) [] = COk tt ->
    exists l, topo l /\ NoDup l /\ (forall x, In x l <-> defined m x = true) /\
              (forall x, In x l -> ~ In [] (succs m x)).
  Proof.
    intros H. destruct (check_all_ok_inv fuel _ _ H Inv_nil) as [l [[T [N [D C]]] [_ A]]].
    exists l. repeat split; try assumption.
    - apply D.
    - intros Hd. apply A; [apply defined_in_names|]; exact Hd.
  Qed.

  Lemma order_no_cycle l : topo l -> NoDup l -> (forall x, In x l <-> defined m x = true) -> has_cycle m = false.
  Proof.
    intros T N A. unfold has_cycle. destruct (existsb _ _) eqn:E; [|reflexivity].
    apply existsb_exists in E as [n [Hn Hr]]. apply in_names_defined in Hn. apply A in Hn.
    rewrite (topo_acyclic l T N _ _ Hn) in Hr. discriminate.
  Qed.

  Lemma order_no_nameless l : (forall x, In x l <-> defined m x = true) ->
    (forall x, In x l -> ~ In [] (succs m x)) -> nameless_paste m = false.
  Proof.
    intros A C. unfold nameless_paste. destruct (existsb _ _) eqn:E; [|reflexivity].
    apply existsb_exists in E as [e [He Hr]]. apply name_in_In in Hr. exfalso.
    apply (C (fst e)); [|exact Hr]. apply A. apply in_names_defined. apply in_map. exact He.
  Qed.

  Theorem check_passed_iff fuel : (check_fuel_needed m <= fuel)%nat ->
    (check_all_macros fuel m (map fst m) [] = COk tt <-> has_cycle m = false /\ nameless_paste m = false).
  Proof.
    intros Hf. split.
    - intros H. destruct (check_passed_order fuel H) as [l [T [N [A C]]]]. split.
      + eapply order_no_cycle; eassumption.
      + eapply order_no_nameless; eassumption.
    - intros [Hc Hn]. destruct (check_all_macros fuel m (map fst m) []) as [[]|e|y|] eqn:E.
      + reflexivity.
      + destruct (check_all_err fuel _ _ _ E) as [[_ B]|[_ B]]; congruence.
      + exfalso. eapply check_all_no_panic. exact E.
      + exfalso. eapply check_all_no_fuel; [|exact E]. pose proof (check_fuel_needed_ok m). lia.
  Qed.

  Theorem cycle_rejected_lemma fuel : (check_fuel_needed m <= fuel)%nat ->
    has_cycle m = true -> nameless_paste m = false ->
    exists e, check_all_macros fuel m (map fst m) [] = CErr e /\ ce_kind e = CERecursion.
  Proof.
    intros Hf Hc Hn. destruct (check_all_macros fuel m (map fst m) []) as [[]|e|y|] eqn:E.
    - apply (check_passed_iff fuel Hf) in E. destruct E. congruence.
    - exists e. split; [reflexivity|]. destruct (check_all_err fuel _ _ _ E) as [[_ B]|[B _]]; congruence.
    - exfalso. eapply check_all_no_panic. exact E.
    - exfalso. eapply check_all_no_fuel; [|exact E]. pose proof (check_fuel_needed_ok m). lia.
  Qed.

  (* with a nameless PASTE in a macro the diagnostic may be the missing name instead *)
  Theorem cycle_never_accepted_lemma fuel : has_cycle m = true ->
    check_all_macros fuel m (map fst m) [] <> COk tt.
  Proof.
    intros Hc H. destruct (check_passed_order fuel H) as [l [T [N [A C]]]].
    rewrite (order_no_cycle l T N A) in Hc. discriminate.
  Qed.

  Theorem check_verdicts fuel : (check_fuel_needed m <= fuel)%nat ->
    check_all_macros fuel m (map fst m) [] = COk tt \/
    exists e, check_all_macros fuel m (map fst m) [] = CErr e /\
              (ce_kind e = CERecursion \/ ce_kind e = CENameRequired).
  Proof.
    intros Hf. destruct (check_all_macros fuel m (map fst m) []) as [[]|e|y|] eqn:E.
    - left. reflexivity.
    - right. exists e. split; [reflexivity|]. destruct (check_all_err fuel _ _ _ E) as [[B _]|[B _]]; auto.
    - exfalso. eapply check_all_no_panic. exact E.
    - exfalso. eapply check_all_no_fuel; [|exact E]. pose proof (check_fuel_needed_ok m). lia.
  Qed.
End Check.

(* ------------------------------------------------------------------------------------ *)
(* the expansion: one step, termination, fuel monotonicity *)

Definition mk_pstate fr rt : pstate := {| ps_frames := fr; ps_roots := rt |}.

Definition paste_head (f : nat) (m : macro_table) (t : dtree) (p : pstate) : cres pstate :=
  let d := tree_dir t in
  if is_paste t then
    match (if negb (beq (d_annot d) []) then CErr (kw_err d CEAnnotForbidden)
           else if beq (dname t) [] then CErr (kw_err d CENameRequired)
           else match macro_lookup m (dname t) with
                | None => CErr (kw_err d CEMacroNotFound)
                | Some mt => paste_list f m (tree_kids mt) p
                end) with
    | COk a => COk a
    | CErr e => CErr (wrap_paste d e)
    | CPanic why => CPanic why
    | CFuel => CFuel
    end
  else
    process_context (ctx_fuel (ps_frames p)) d (ps_frames p) (ps_roots p) >>=c fun fr =>
    paste_list f m (tree_kids t) (mk_pstate (fst fr) (snd fr)) >>=c fun p1 =>
    if d_explicit d then
      let (fr2, rt2) := close_to (S (List.length (ps_frames p1))) (List.length (fst fr) - 1) (ps_frames p1) (ps_roots p1) in
      COk (mk_pstate fr2 rt2)
    else COk p1.

Lemma paste_list_S f m ts p :
  paste_list (S f) m ts p =
  match ts with
  | [] => COk p
  | t :: r => paste_head f m t p >>=c fun p2 => paste_list f m r p2
  end.
Proof.
  destruct ts as [|t r]; [reflexivity|]. unfold paste_head, is_paste, dname, mk_pstate.
  cbn [paste_list]. cbv zeta. destruct (kind_eqb _ KPaste); [|reflexivity].
  set (inner := if negb _ then _ else _). destruct inner; reflexivity.
Qed.

Definition ok_err {A} (r : cres A) : Prop :=
  match r with COk _ | CErr _ => True | _ => False end.

Lemma close_frame_len fr rt fr' rt' :
  close_frame fr rt = (fr', rt') -> List.length fr' = pred (List.length fr).
Proof.
  destruct fr as [|[d k] [|[pd pk] rest]]; simpl; intros H; injection H as <- <-; reflexivity.
Qed.

Lemma process_context_ok_err : forall fuel d fr rt,
  (List.length fr < fuel)%nat -> ok_err (process_context fuel d fr rt).
Proof.
  induction fuel as [|f IH]; intros d fr rt H; [lia|]. simpl.
  destruct fr as [|[cd kids] rest].
  - destruct (root_allowed (d_kind d)); exact I.
  - destruct (ctx_allowed (d_kind cd) (d_kind d)).
    + destruct (_ && _ && _); [|exact I]. destruct (existsb _ _); exact I.
    + destruct (d_explicit cd); [exact I|].
      destruct (close_frame ((cd, kids) :: rest) rt) as [fr' rt'] eqn:E.
      apply close_frame_len in E. apply IH. simpl in *. lia.
Qed.

Lemma topo_split m l1 b l2 : topo m (l1 ++ b :: l2) ->
  topo m l2 /\ (forall c, In c (succs m b) -> defined m c = true -> In c l2).
Proof.
  induction l1 as [|a l1 IH]; simpl; intros [H1 H2]; [split; assumption|apply IH; exact H2].
Qed.

Local Arguments close_to : simpl never.
Local Arguments process_context : simpl never.
Ltac destr_close_to :=
  match goal with |- context [close_to ?a ?b ?c ?d] => destruct (close_to a b c d) end.

Section Paste.
  Variable m : macro_table.
  Let T := macro_total m.

  Lemma paste_terminates_aux : forall k l, (List.length l <= k)%nat -> topo m l ->
    forall fuel ts p,
      (forall b, In b (pastes_in ts) -> defined m b = true -> In b l) ->
      (forest_size ts + 1 + List.length l * (T + 2) <= fuel)%nat ->
      ok_err (paste_list fuel m ts p).
  Proof.
    induction k as [|k IHk]; intros l Hl Ht.
    - (* no macro is defined among the pastes *)
      destruct l; [|simpl in Hl; lia].
      induction fuel as [|f IHf]; intros ts p Hp Hf; [lia|].
      rewrite paste_list_S. destruct ts as [|t r]; [exact I|].
      rewrite forest_size_cons in Hf. pose proof (tree_size_kids t) as Hk.
      assert (Hr : ok_err (paste_head f m t p) /\
                   forall p2, paste_head f m t p = COk p2 -> ok_err (paste_list f m r p2)).
      { split.
        - unfold paste_head. rewrite pastes_in_cons, pastes_tree_eq in Hp. destruct (is_paste t).
          + destruct (negb _); [exact I|]. destruct (beq (dname t) []); [exact I|].
            destruct (macro_lookup m (dname t)) eqn:El; [|exact I]. exfalso.
            apply (Hp (dname t)); [left; reflexivity|unfold defined; rewrite El; reflexivity].
          + pose proof (process_context_ok_err (ctx_fuel (ps_frames p)) (tree_dir t) (ps_frames p) (ps_roots p)) as Hc.
            destruct (process_context _ _ _ _) as [fr| | |]; simpl; try exact I; try (apply Hc; unfold ctx_fuel; lia).
            assert (Hq : ok_err (paste_list f m (tree_kids t) (mk_pstate (fst fr) (snd fr)))).
            { apply IHf; [|simpl in *; lia]. intros b Hb. apply Hp. apply in_or_app. left. exact Hb. }
            destruct (paste_list f m (tree_kids t) _) as [p1| | |]; simpl; try exact I; try contradiction.
            destruct (d_explicit (tree_dir t)); [|exact I]. destr_close_to. exact I.
        - intros p2 _. apply IHf; [|simpl in *; lia]. intros b Hb. apply Hp. rewrite pastes_in_cons.
          apply in_or_app. right. exact Hb. }
      destruct Hr as [Hr1 Hr2]. destruct (paste_head f m t p) as [p2| | |]; simpl; try exact I; try contradiction.
      apply Hr2. reflexivity.
    - induction fuel as [|f IHf]; intros ts p Hp Hf; [lia|].
      rewrite paste_list_S. destruct ts as [|t r]; [exact I|].
      rewrite forest_size_cons in Hf. pose proof (tree_size_kids t) as Hk.
      assert (Hr : ok_err (paste_head f m t p) /\
                   forall p2, paste_head f m t p = COk p2 -> ok_err (paste_list f m r p2)).
      { split.
        - unfold paste_head. rewrite pastes_in_cons, pastes_tree_eq in Hp. destruct (is_paste t).
          + destruct (negb _); [exact I|]. destruct (beq (dname t) []); [exact I|].
            destruct (macro_lookup m (dname t)) as [mt|] eqn:El; [|exact I].
            assert (Hin : In (dname t) l).
            { apply Hp; [left; reflexivity|unfold defined; rewrite El; reflexivity]. }
            destruct (in_split _ _ Hin) as [l1 [l2 E]]. subst l.
            destruct (topo_split _ _ _ _ Ht) as [Ht2 Hs].
            assert (Hq : ok_err (paste_list f m (tree_kids mt) p)).
            { apply (IHk l2); [rewrite app_length in Hl; simpl in Hl; lia|exact Ht2| |].
              - intros b Hb. apply Hs. unfold succs, body. rewrite El. exact Hb.
              - pose proof (lookup_size _ _ _ El) as Hsz. pose proof (tree_size_kids mt) as Hk2.
                rewrite app_length in Hf. simpl in Hf. fold T in Hsz. nia. }
            destruct (paste_list f m (tree_kids mt) p) as [p1| | |]; simpl; try exact I; try contradiction.
          + pose proof (process_context_ok_err (ctx_fuel (ps_frames p)) (tree_dir t) (ps_frames p) (ps_roots p)) as Hc.
            destruct (process_context _ _ _ _) as [fr| | |]; simpl; try exact I; try (apply Hc; unfold ctx_fuel; lia).
            assert (Hq : ok_err (paste_list f m (tree_kids t) (mk_pstate (fst fr) (snd fr)))).
            { apply IHf; [|simpl in *; lia]. intros b Hb. apply Hp. apply in_or_app. left. exact Hb. }
            destruct (paste_list f m (tree_kids t) _) as [p1| | |]; simpl; try exact I; try contradiction.
            destruct (d_explicit (tree_dir t)); [|exact I]. destr_close_to. exact I.
        - intros p2 _. apply IHf; [|simpl in *; lia]. intros b Hb. apply Hp. rewrite pastes_in_cons.
          apply in_or_app. right. exact Hb. }
      destruct Hr as [Hr1 Hr2]. destruct (paste_head f m t p) as [p2| | |]; simpl; try exact I; try contradiction.
      apply Hr2. reflexivity.
  Qed.
End Paste.

(* ------------------------------------------------------------------------------------ *)
(* fuel monotonicity: any result other than CFuel is THE result *)

Lemma paste_list_0 m ts p : paste_list 0 m ts p = CFuel.
Proof. reflexivity. Qed.

Lemma paste_head_mono_with m f f' t p :
  (forall ts q, paste_list f m ts q <> CFuel -> paste_list f' m ts q = paste_list f m ts q) ->
  paste_head f m t p <> CFuel -> paste_head f' m t p = paste_head f m t p.
Proof.
  intros IH H. unfold paste_head in *. destruct (is_paste t).
  - destruct (negb _); [reflexivity|]. destruct (beq (dname t) []); [reflexivity|].
    destruct (macro_lookup m (dname t)) as [mt|]; [|reflexivity].
    rewrite IH; [reflexivity|]. intros E. rewrite E in H. apply H. reflexivity.
  - destruct (process_context _ _ _ _) as [fr| | |]; simpl in *; try reflexivity.
    rewrite IH; [reflexivity|]. intros E. rewrite E in H. apply H. reflexivity.
Qed.

Lemma paste_mono m : forall f ts p, paste_list f m ts p <> CFuel ->
  forall f', (f <= f')%nat -> paste_list f' m ts p = paste_list f m ts p.
Proof.
  induction f as [|f IH]; intros ts p H f' Hle; [exfalso; apply H; reflexivity|].
  destruct f' as [|f']; [lia|]. rewrite !paste_list_S in *. destruct ts as [|t r]; [reflexivity|].
  assert (Hh : paste_head f m t p <> CFuel).
  { intros E. rewrite E in H. apply H. reflexivity. }
  rewrite (paste_head_mono_with m f f' t p); [|intros ts q Hq; apply IH; [exact Hq|lia]|exact Hh].
  destruct (paste_head f m t p) as [p2| | |]; simpl in *; try reflexivity.
  apply IH; [exact H|lia].
Qed.

Lemma paste_head_mono m f f' t p : paste_head f m t p <> CFuel -> (f <= f')%nat ->
  paste_head f' m t p = paste_head f m t p.
Proof.
  intros H Hle. apply paste_head_mono_with; [|exact H]. intros ts q Hq. apply paste_mono; assumption.
Qed.

Definition evals (m : macro_table) (ts : list dtree) (p : pstate) (r : cres pstate) : Prop :=
  exists f, paste_list f m ts p = r /\ r <> CFuel.

Lemma evals_at m ts p r : evals m ts p r ->
  forall f, paste_list f m ts p <> CFuel -> paste_list f m ts p = r.
Proof.
  intros [g [Hg Hr]] f Hf. subst r.
  rewrite <- (paste_mono m f ts p Hf (Nat.max f g) (Nat.le_max_l _ _)).
  apply paste_mono; [exact Hr|apply Nat.le_max_r].
Qed.

Lemma evals_at_ok m ts p p' F : evals m ts p (COk p') -> ok_err (paste_list F m ts p) ->
  paste_list F m ts p = COk p'.
Proof.
  intros He Ho. apply (evals_at m ts p _ He). destruct (paste_list F m ts p); try discriminate. contradiction.
Qed.

Lemma evals_of F m ts p p' : paste_list F m ts p = COk p' -> evals m ts p (COk p').
Proof. intros H. exists F. split; [exact H|discriminate]. Qed.

Lemma evals_nil m p : evals m [] p (COk p).
Proof. exists 1%nat. split; [reflexivity|discriminate]. Qed.

Lemma evals_cons m t r p p2 res f :
  paste_head f m t p = COk p2 -> evals m r p2 res -> evals m (t :: r) p res.
Proof.
  intros Hh [g [Hg Hr]]. exists (S (Nat.max f g)). split; [|exact Hr]. rewrite paste_list_S.
  rewrite (paste_head_mono m f); [|rewrite Hh; discriminate|apply Nat.le_max_l]. rewrite Hh. simpl.
  rewrite (paste_mono m g); [exact Hg|rewrite Hg; exact Hr|apply Nat.le_max_r].
Qed.

Lemma evals_app m : forall a p p1 b r,
  evals m a p (COk p1) -> evals m b p1 r -> evals m (a ++ b) p r.
Proof.
  induction a as [|t a IH]; intros p p1 b r [f [Hf _]] Hb.
  - destruct f; [discriminate|]. rewrite paste_list_S in Hf. injection Hf as <-. exact Hb.
  - destruct f; [discriminate|]. rewrite paste_list_S in Hf.
    destruct (paste_head f m t p) as [p2| | |] eqn:Eh; simpl in Hf; try discriminate.
    simpl. eapply evals_cons; [exact Eh|]. eapply IH; [|exact Hb].
    exists f. split; [exact Hf|discriminate].
Qed.

(* ------------------------------------------------------------------------------------ *)
(* pasting is inlining *)

Lemma inline_fuel_S f m ts :
  inline_fuel (S f) m ts =
  match ts with
  | [] => Some []
  | t :: r =>
    match (if is_paste t then
             if negb (beq (d_annot (tree_dir t)) []) then Some [t]
             else match macro_lookup m (dname t) with
                  | Some mt => inline_fuel f m (tree_kids mt)
                  | None => Some [t]
                  end
           else match inline_fuel f m (tree_kids t) with
                | Some k => Some [DNode (tree_dir t) k]
                | None => None
                end) with
    | Some a => match inline_fuel f m r with Some b => Some (a ++ b) | None => None end
    | None => None
    end
  end.
Proof. destruct ts; reflexivity. Qed.

Lemma paste_inline m : forall f ts p p', paste_list f m ts p = COk p' ->
  exists its, inline_fuel f m ts = Some its /\ evals [] its p (COk p').
Proof.
  induction f as [|f IH]; intros ts p p' H; [discriminate|].
  rewrite paste_list_S in H. rewrite inline_fuel_S. destruct ts as [|t r].
  { injection H as <-. exists []. split; [reflexivity|apply evals_nil]. }
  destruct (paste_head f m t p) as [p2| | |] eqn:Eh; simpl in H; try discriminate.
  unfold paste_head in Eh. destruct (is_paste t) eqn:Ep.
  - destruct (negb _); [discriminate|]. destruct (beq (dname t) []); [discriminate|].
    destruct (macro_lookup m (dname t)) as [mt|]; [|discriminate].
    destruct (paste_list f m (tree_kids mt) p) as [p2'| | |] eqn:Ek; try discriminate. injection Eh as ->.
    destruct (IH _ _ _ Ek) as [its1 [I1 E1]].
    destruct (IH _ _ _ H) as [its2 [I2 E2]].
    exists (its1 ++ its2). rewrite I1, I2. split; [reflexivity|eapply evals_app; eassumption].
  - destruct (process_context _ _ _ _) as [fr| | |] eqn:Ec; simpl in Eh; try discriminate.
    destruct (paste_list f m (tree_kids t) _) as [p1| | |] eqn:Ek; simpl in Eh; try discriminate.
    destruct (IH _ _ _ Ek) as [its1 [I1 [g [E1 _]]]].
    destruct (IH _ _ _ H) as [its2 [I2 E2]].
    exists ([DNode (tree_dir t) its1] ++ its2). rewrite I1, I2. split; [reflexivity|].
    simpl. eapply (evals_cons [] _ _ _ p2 _ g); [|exact E2].
    unfold paste_head. unfold is_paste in *. simpl tree_dir. rewrite Ep. simpl tree_kids.
    rewrite Ec. simpl. rewrite E1. simpl. exact Eh.
Qed.

(* ------------------------------------------------------------------------------------ *)
(* collect_macro *)

Lemma lookup_app a b n :
  macro_lookup (a ++ b) n = match macro_lookup a n with Some t => Some t | None => macro_lookup b n end.
Proof.
  induction a as [|e a IH]; [reflexivity|]. rewrite <- app_comm_cons, !lookup_cons.
  destruct (beq (fst e) n); [reflexivity|exact IH].
Qed.

Lemma macros_of_cons t r :
  macros_of (t :: r) = if is_macro t then (dname t, t) :: macros_of r else macros_of r.
Proof. unfold macros_of. simpl. destruct (is_macro t); reflexivity. Qed.

Lemma strip_cons t r :
  strip_macros (t :: r) = if is_macro t then strip_macros r else t :: strip_macros r.
Proof. unfold strip_macros. simpl. destruct (is_macro t); reflexivity. Qed.

Lemma collect_macro_cons t r acc :
  collect_macro (t :: r) acc =
  if is_macro t then
    if negb (beq (d_annot (tree_dir t)) []) then CErr (kw_err (tree_dir t) CEAnnotForbidden)
    else if beq (dname t) [] then CErr (kw_err (tree_dir t) CENameRequired)
    else match tree_kids t with
         | [] => CErr (kw_err (tree_dir t) CEEmptyMacro)
         | _ => match macro_lookup acc (dname t) with
                | Some _ => CErr (kw_err (tree_dir t) CEDupName)
                | None => collect_macro r (acc ++ [(dname t, t)])
                end
         end
  else collect_macro r acc >>=c fun x => COk (t :: fst x, snd x).
Proof. reflexivity. Qed.

Lemma collect_macro_ok_err : forall ts acc, ok_err (collect_macro ts acc).
Proof.
  induction ts as [|t r IH]; intros acc; [exact I|]. rewrite collect_macro_cons.
  destruct (is_macro t).
  - destruct (negb _); [exact I|]. destruct (beq _ _); [exact I|]. destruct (tree_kids t); [exact I|].
    destruct (macro_lookup _ _); [exact I|apply IH].
  - specialize (IH acc). destruct (collect_macro r acc); simpl; try exact I; contradiction.
Qed.

Lemma collect_macro_spec : forall ts acc rest m, collect_macro ts acc = COk (rest, m) ->
  rest = strip_macros ts /\ m = acc ++ macros_of ts /\
  (forall t, In t ts -> is_macro t = true -> macro_wf t = true) /\
  NoDup (map fst (macros_of ts)) /\
  (forall n, In n (map fst (macros_of ts)) -> macro_lookup acc n = None).
Proof.
  induction ts as [|t r IH]; intros acc rest m H.
  - injection H as <- <-. rewrite app_nil_r. repeat split; try constructor; intros ? [].
  - rewrite collect_macro_cons in H. rewrite strip_cons, macros_of_cons. destruct (is_macro t) eqn:Em.
    + destruct (negb (beq (d_annot (tree_dir t)) [])) eqn:Ea; [discriminate|].
      destruct (beq (dname t) []) eqn:En; [discriminate|].
      destruct (tree_kids t) as [|k0 ks] eqn:Ek; [discriminate|].
      destruct (macro_lookup acc (dname t)) eqn:El; [discriminate|].
      destruct (IH _ _ _ H) as [A [B [C [D F]]]]. split; [exact A|]. split.
      { rewrite B, <- app_assoc. reflexivity. }
      assert (Hfresh : ~ In (dname t) (map fst (macros_of r))).
      { intros Hin. specialize (F _ Hin). rewrite lookup_app, El in F. simpl in F.
        rewrite lookup_cons in F. simpl in F. rewrite beq_refl in F. discriminate. }
      split; [|split].
      * intros t' [<-|Ht'] Hm; [|apply C; assumption]. unfold macro_wf. rewrite Ek, En.
        apply negb_false_iff in Ea. rewrite Ea. reflexivity.
      * simpl. constructor; assumption.
      * simpl. intros n [<-|Hn]; [exact El|]. specialize (F _ Hn). rewrite lookup_app in F.
        destruct (macro_lookup acc n); [discriminate|reflexivity].
    + destruct (collect_macro r acc) as [[r' m']| | |] eqn:Ec; simpl in H; try discriminate.
      injection H as <- <-. destruct (IH _ _ _ Ec) as [A [B [C [D F]]]].
      split; [rewrite A; reflexivity|]. split; [exact B|]. split; [|split; assumption].
      intros t' [<-|Ht'] Hm; [congruence|apply C; assumption].
Qed.

Lemma collect_macro_complete : forall ts acc,
  (forall t, In t ts -> is_macro t = true -> macro_wf t = true) ->
  NoDup (map fst (macros_of ts)) ->
  (forall n, In n (map fst (macros_of ts)) -> macro_lookup acc n = None) ->
  collect_macro ts acc = COk (strip_macros ts, acc ++ macros_of ts).
Proof.
  induction ts as [|t r IH]; intros acc Hwf Hnd Hfr.
  - simpl. rewrite app_nil_r. reflexivity.
  - rewrite collect_macro_cons, strip_cons. rewrite macros_of_cons in *. destruct (is_macro t) eqn:Em.
    + pose proof (Hwf t (or_introl eq_refl) Em) as W. unfold macro_wf in W.
      apply andb_true_iff in W as [W W3]. apply andb_true_iff in W as [W1 W2].
      rewrite W1. simpl. apply negb_true_iff in W2. rewrite W2.
      destruct (tree_kids t) as [|k0 ks]; [discriminate|].
      simpl in Hnd, Hfr. rewrite (Hfr (dname t) (or_introl eq_refl)).
      inversion Hnd as [|? ? Hn Hnd']; subst.
      rewrite IH.
      * rewrite <- app_assoc. reflexivity.
      * intros t' Ht'. apply Hwf. right. exact Ht'.
      * exact Hnd'.
      * intros n Hn'. rewrite lookup_app, (Hfr n (or_intror Hn')). rewrite lookup_cons. simpl.
        destruct (beq (dname t) n) eqn:E; [|reflexivity]. apply beq_eq in E. subst. contradiction.
    + rewrite IH; [reflexivity| |exact Hnd|exact Hfr]. intros t' Ht'. apply Hwf. right. exact Ht'.
Qed.

Lemma collect_macro_app : forall pre l acc r1 m1, collect_macro pre acc = COk (r1, m1) ->
  collect_macro (pre ++ l) acc = collect_macro l m1 >>=c fun x => COk (r1 ++ fst x, snd x).
Proof.
  induction pre as [|t pre IH]; intros l acc r1 m1 H.
  - injection H as <- <-. simpl. destruct (collect_macro l acc) as [[a b]| | |]; reflexivity.
  - rewrite <- app_comm_cons. rewrite collect_macro_cons in *. destruct (is_macro t).
    + destruct (negb _); [discriminate|]. destruct (beq _ _); [discriminate|].
      destruct (tree_kids t); [discriminate|]. destruct (macro_lookup _ _); [discriminate|].
      apply IH. exact H.
    + destruct (collect_macro pre acc) as [[r' m']| | |] eqn:Ec; simpl in H; try discriminate.
      injection H as <- <-. rewrite (IH l acc r' m' Ec).
      destruct (collect_macro l m') as [[a b]| | |]; reflexivity.
Qed.

Lemma table_ok_macros_of ts : table_ok (macros_of ts) = true.
Proof.
  unfold table_ok, macros_of. apply forallb_forall. intros e He. apply in_map_iff in He as [t [<- Ht]].
  apply filter_In in Ht. apply Ht.
Qed.

Lemma in_macros_of t ts : In t ts -> is_macro t = true -> In (dname t) (map fst (macros_of ts)).
Proof.
  intros Hin Hm. unfold macros_of. rewrite map_map. simpl. apply in_map_iff. exists t.
  split; [reflexivity|]. apply filter_In. split; assumption.
Qed.

(* ------------------------------------------------------------------------------------ *)
(* expand *)

Local Arguments expand_fuel : simpl never.
Local Arguments check_fuel : simpl never.
Local Arguments fuel_needed : simpl never.

Definition expand_with (cf pf : nat) (rest : list dtree) (m : macro_table) : cres (list dtree) :=
  check_all_macros cf m (map fst m) [] >>=c fun _ =>
  paste_list pf m rest pstate0 >>=c fun p =>
  COk (forest_of_pstate p).
Definition expand_rest (rest : list dtree) (m : macro_table) : cres (list dtree) :=
  expand_with (check_fuel m) (expand_fuel rest m) rest m.
Local Arguments expand_rest : simpl never.
Local Arguments expand_with : simpl never.

Lemma expand_eq ts :
  expand ts = collect_macro ts [] >>=c fun cm => expand_rest (fst cm) (snd cm).
Proof. unfold expand. destruct (collect_macro ts []) as [[rest m]| | |]; reflexivity. Qed.

Lemma expand_with_ok cf pf rest m f : expand_with cf pf rest m = COk f ->
  check_all_macros cf m (map fst m) [] = COk tt /\
  exists p, paste_list pf m rest pstate0 = COk p /\ f = forest_of_pstate p.
Proof.
  unfold expand_with. destruct (check_all_macros cf m (map fst m) []) as [[]| | |]; simpl; try discriminate.
  destruct (paste_list pf m rest pstate0) as [p| | |]; simpl; try discriminate.
  intros H. injection H as <-. split; [reflexivity|]. exists p. split; reflexivity.
Qed.

Lemma expand_with_intro cf pf rest m p :
  check_all_macros cf m (map fst m) [] = COk tt -> paste_list pf m rest pstate0 = COk p ->
  expand_with cf pf rest m = COk (forest_of_pstate p).
Proof. unfold expand_with. intros -> ->. reflexivity. Qed.

Lemma expand_with_ok_err cf pf rest m :
  ok_err (check_all_macros cf m (map fst m) []) ->
  (check_all_macros cf m (map fst m) [] = COk tt -> ok_err (paste_list pf m rest pstate0)) ->
  ok_err (expand_with cf pf rest m).
Proof.
  unfold expand_with. destruct (check_all_macros cf m (map fst m) []) as [[]| | |]; simpl; try (intros; assumption).
  intros _ H. specialize (H eq_refl). destruct (paste_list pf m rest pstate0); simpl; try exact I; contradiction.
Qed.

Lemma expand_ok_inv ts f : expand ts = COk f ->
  exists rest m p, collect_macro ts [] = COk (rest, m) /\
    check_all_macros (check_fuel m) m (map fst m) [] = COk tt /\
    paste_list (expand_fuel rest m) m rest pstate0 = COk p /\ f = forest_of_pstate p.
Proof.
  rewrite expand_eq. destruct (collect_macro ts []) as [[rest m]| | |]; cbn [cbind fst snd]; try discriminate.
  unfold expand_rest. intros H. apply expand_with_ok in H as [H1 [p [H2 H3]]].
  exists rest, m, p. repeat split; assumption.
Qed.

Theorem duplicate_macro_rejected_lemma : forall pre t2 post r1 m1,
  collect_macro pre [] = COk (r1, m1) ->
  is_macro t2 = true -> macro_wf t2 = true ->
  (exists t1, In t1 pre /\ is_macro t1 = true /\ dname t1 = dname t2) ->
  expand (pre ++ t2 :: post) = CErr (kw_err (tree_dir t2) CEDupName).
Proof.
  intros pre t2 post r1 m1 Hc Hm Hw [t1 [Hin [Hm1 Hn]]]. rewrite expand_eq.
  rewrite (collect_macro_app _ _ _ _ _ Hc), collect_macro_cons, Hm.
  unfold macro_wf in Hw. apply andb_true_iff in Hw as [W W3]. apply andb_true_iff in W as [W1 W2].
  rewrite W1. cbn [negb]. apply negb_true_iff in W2. rewrite W2.
  destruct (tree_kids t2); [discriminate|].
  destruct (collect_macro_spec _ _ _ _ Hc) as [_ [B _]]. simpl in B.
  pose proof (in_macros_of _ _ Hin Hm1) as Hd. rewrite <- B, Hn in Hd.
  apply in_names_defined in Hd. unfold defined in Hd.
  destruct (macro_lookup m1 (dname t2)); [reflexivity|discriminate].
Qed.

Theorem duplicate_macro_never_accepted_lemma : forall a t1 b t2 c,
  is_macro t1 = true -> is_macro t2 = true -> dname t1 = dname t2 ->
  exists e, expand (a ++ t1 :: b ++ t2 :: c) = CErr e.
Proof.
  intros a t1 b t2 c H1 H2 Hn. rewrite expand_eq.
  pose proof (collect_macro_ok_err (a ++ t1 :: b ++ t2 :: c) []) as Hoe.
  destruct (collect_macro (a ++ t1 :: b ++ t2 :: c) []) as [[rest m]|e| |] eqn:Ec; try contradiction.
  - exfalso. destruct (collect_macro_spec _ _ _ _ Ec) as [_ [_ [_ [D _]]]].
    unfold macros_of in D. rewrite filter_app in D. simpl in D. rewrite H1 in D.
    rewrite filter_app in D. simpl in D. rewrite H2 in D.
    rewrite !map_app in D. simpl in D. rewrite !map_app in D. simpl in D.
    apply NoDup_remove_2 in D. apply D. apply in_or_app. right. apply in_or_app. right.
    left. symmetry. exact Hn.
  - exists e. reflexivity.
Qed.

Lemma expand_fuel_enough m ts : (fuel_needed m ts <= expand_fuel ts m)%nat.
Proof.
  unfold fuel_needed, expand_fuel. fold (macro_total m). pose proof (macro_total_ge_len m). nia.
Qed.

Theorem paste_terminates_lemma m fuel0 : table_ok m = true ->
  check_all_macros fuel0 m (map fst m) [] = COk tt ->
  forall ts p fuel, (fuel_needed m ts <= fuel)%nat -> ok_err (paste_list fuel m ts p).
Proof.
  intros Htab Hc ts p fuel Hf.
  destruct (check_passed_order m Htab fuel0 Hc) as [l [T [N [A _]]]].
  assert (Hlen : (List.length l <= List.length m)%nat).
  { rewrite <- (map_length fst m). apply NoDup_incl_length; [exact N|].
    intros x Hx. apply defined_in_names. apply A. exact Hx. }
  apply (paste_terminates_aux m (List.length l) l (le_n _) T).
  - intros b _ Hd. apply A. exact Hd.
  - unfold fuel_needed in Hf. nia.
Qed.

(* a table without macros: every fuel above the size of the forest is enough *)
Lemma paste_terminates_nil ts p fuel : (forest_size ts + 1 <= fuel)%nat -> ok_err (paste_list fuel [] ts p).
Proof.
  intros Hf. apply (paste_terminates_aux [] 0 [] (le_n _) I).
  - intros b _ Hd. discriminate.
  - simpl. lia.
Qed.

(* `expand` is total: it never runs out of fuel and never panics *)
Theorem expand_total_lemma ts : ok_err (expand ts).
Proof.
  rewrite expand_eq. pose proof (collect_macro_ok_err ts []) as H1.
  destruct (collect_macro ts []) as [[rest m]| | |] eqn:Ec; cbn [cbind fst snd]; try exact I; try contradiction.
  destruct (collect_macro_spec _ _ _ _ Ec) as [_ [B _]]. simpl in B.
  assert (Htab : table_ok m = true) by (rewrite B; apply table_ok_macros_of).
  unfold expand_rest. apply expand_with_ok_err.
  - destruct (check_verdicts m Htab (check_fuel m) (check_fuel_enough m)) as [Hok|[e [He _]]].
    + rewrite Hok. exact I.
    + rewrite He. exact I.
  - intros Hok. exact (paste_terminates_lemma m _ Htab Hok rest pstate0 _ (expand_fuel_enough m rest)).
Qed.

Lemma no_macros_strip ts : no_macro_nodes ts = true -> strip_macros ts = ts /\ macros_of ts = [].
Proof.
  induction ts as [|t r IH]; [split; reflexivity|]. intros H. unfold no_macro_nodes in H. simpl in H.
  apply andb_true_iff in H as [H1 H2]. apply negb_true_iff in H1.
  rewrite strip_cons, macros_of_cons, H1. destruct (IH H2) as [A B]. rewrite A, B. split; reflexivity.
Qed.

Lemma expand_no_macros ts : no_macro_nodes ts = true -> expand ts = expand_rest ts [].
Proof.
  intros H. destruct (no_macros_strip ts H) as [A B]. rewrite expand_eq.
  rewrite collect_macro_complete.
  - rewrite A, B. reflexivity.
  - intros t Ht Hm. unfold no_macro_nodes in H. rewrite forallb_forall in H. specialize (H t Ht).
    rewrite Hm in H. discriminate.
  - rewrite B. constructor.
  - rewrite B. intros n [].
Qed.

(* the accepted expansion of a document = the expansion of its inlined document *)
Theorem paste_is_inlining_lemma ts f :
  expand ts = COk f ->
  no_macro_nodes (inlined_document ts) = true ->
  expand (inlined_document ts) = COk f.
Proof.
  intros H Hnm. destruct (expand_ok_inv ts f H) as [rest [m [p [Ec [Ek [Ep ->]]]]]].
  destruct (collect_macro_spec _ _ _ _ Ec) as [A [B _]]. simpl in B.
  assert (Htab : table_ok m = true) by (rewrite B; apply table_ok_macros_of).
  (* the same result with the fuel of the specification *)
  pose proof (paste_terminates_lemma m _ Htab Ek rest pstate0 _ (le_n _)) as Hfin.
  assert (Ep' : paste_list (fuel_needed m rest) m rest pstate0 = COk p).
  { rewrite <- Ep. symmetry. apply paste_mono; [|apply expand_fuel_enough].
    destruct (paste_list (fuel_needed m rest) m rest pstate0); try contradiction; discriminate. }
  destruct (paste_inline m _ _ _ _ Ep') as [its [I1 E1]].
  assert (Hd : inlined_document ts = its).
  { unfold inlined_document, inline. rewrite <- A, <- B, I1. reflexivity. }
  rewrite Hd in *. rewrite (expand_no_macros its Hnm). unfold expand_rest.
  assert (Hq : paste_list (expand_fuel its []) [] its pstate0 = COk p).
  { apply (evals_at [] its pstate0 _ E1).
    pose proof (paste_terminates_nil its pstate0 (expand_fuel its [])) as Ht.
    destruct (paste_list (expand_fuel its []) [] its pstate0); try discriminate.
    intros _. apply Ht. unfold expand_fuel. lia. }
  rewrite (expand_with_intro (check_fuel []) (expand_fuel its []) its [] p eq_refl Hq).
  reflexivity.
Qed.

(* ------------------------------------------------------------------------------------ *)
(* cycles, at the level of `expand` *)

Theorem cycle_rejected_expand_lemma ts rest m :
  collect_macro ts [] = COk (rest, m) -> has_cycle m = true -> nameless_paste m = false ->
  exists e, expand ts = CErr e /\ ce_kind e = CERecursion.
Proof.
  intros Ec Hc Hn. destruct (collect_macro_spec _ _ _ _ Ec) as [_ [B _]]. simpl in B.
  assert (Htab : table_ok m = true) by (rewrite B; apply table_ok_macros_of).
  destruct (cycle_rejected_lemma m Htab (check_fuel m) (check_fuel_enough m) Hc Hn) as [e [He Hk]].
  exists e. split; [|exact Hk]. rewrite expand_eq, Ec. cbn [cbind fst snd]. unfold expand_rest, expand_with.
  rewrite He. reflexivity.
Qed.

(* ------------------------------------------------------------------------------------ *)
(* PASTE of an undefined macro *)

Lemma undefined_paste_head f m t p :
  is_paste t = true -> d_annot (tree_dir t) = [] -> dname t <> [] -> macro_lookup m (dname t) = None ->
  paste_head f m t p = CErr (wrap_paste (tree_dir t) (kw_err (tree_dir t) CEMacroNotFound)).
Proof.
  intros Hp Ha Hn Hl. unfold paste_head. rewrite Hp, Ha, Hl. apply beq_neq in Hn. rewrite Hn. reflexivity.
Qed.

Lemma evals_cons_err m t r p e f : paste_head f m t p = CErr e -> evals m (t :: r) p (CErr e).
Proof. intros H. exists (S f). split; [|discriminate]. rewrite paste_list_S, H. reflexivity. Qed.

(* the first undefined PASTE after a prefix that expands: the diagnostic, re-located at the PASTE *)
Theorem undefined_paste_diag_lemma m pre t post p p1 :
  evals m pre p (COk p1) ->
  is_paste t = true -> d_annot (tree_dir t) = [] -> dname t <> [] -> macro_lookup m (dname t) = None ->
  evals m (pre ++ t :: post) p (CErr (wrap_paste (tree_dir t) (kw_err (tree_dir t) CEMacroNotFound))).
Proof.
  intros Hpre Hp Ha Hn Hl. eapply evals_app; [exact Hpre|].
  eapply evals_cons_err. apply (undefined_paste_head 0); assumption.
Qed.

(* an error inside a pasted body is re-located at (and wrapped by) the PASTE that brought it *)
Theorem paste_error_wrapped_lemma m t r p mt e :
  is_paste t = true -> d_annot (tree_dir t) = [] -> dname t <> [] -> macro_lookup m (dname t) = Some mt ->
  evals m (tree_kids mt) p (CErr e) ->
  evals m (t :: r) p (CErr (wrap_paste (tree_dir t) e)).
Proof.
  intros Hp Ha Hn Hl [f [Hf _]]. apply (evals_cons_err m t r p _ f).
  unfold paste_head. rewrite Hp, Ha, Hl. apply beq_neq in Hn. rewrite Hn. simpl. rewrite Hf. reflexivity.
Qed.

Definition Expanded (m : macro_table) (b : bytes) : Prop :=
  defined m b = true /\ exists f p p', paste_list f m (body m b) p = COk p'.

Lemma paste_ok_pastes m : forall f ts p p', paste_list f m ts p = COk p' ->
  forall b, In b (pastes_in ts) -> Expanded m b.
Proof.
  induction f as [|f IH]; intros ts p p' H b Hb; [discriminate|].
  rewrite paste_list_S in H. destruct ts as [|t r]; [contradiction|].
  destruct (paste_head f m t p) as [p2| | |] eqn:Eh; simpl in H; try discriminate.
  rewrite pastes_in_cons, pastes_tree_eq in Hb. apply in_app_or in Hb as [Hb|Hb]; [|eapply IH; eassumption].
  unfold paste_head in Eh. destruct (is_paste t).
  - destruct Hb as [<-|[]]. destruct (negb _); [discriminate|]. destruct (beq (dname t) []); [discriminate|].
    destruct (macro_lookup m (dname t)) as [mt|] eqn:El; [|discriminate].
    destruct (paste_list f m (tree_kids mt) p) as [q| | |] eqn:Ek; try discriminate.
    split; [unfold defined; rewrite El; reflexivity|]. unfold body. rewrite El. eauto.
  - destruct (process_context _ _ _ _) as [fr| | |]; simpl in Eh; try discriminate.
    destruct (paste_list f m (tree_kids t) _) as [p1| | |] eqn:Ek; simpl in Eh; try discriminate.
    eapply IH; [exact Ek|exact Hb].
Qed.

Lemma reached_expanded m ts f p p' : paste_list f m ts p = COk p' ->
  forall b, Reached m ts b -> Expanded m b.
Proof.
  intros H b Hr. induction Hr as [b Hb|a b _ IH Hb].
  - eapply paste_ok_pastes; eassumption.
  - destruct IH as [_ [f' [q [q' Hq]]]]. eapply paste_ok_pastes; [exact Hq|exact Hb].
Qed.

Theorem undefined_paste_rejected_lemma ts b :
  Reached (macros_of ts) (strip_macros ts) b -> defined (macros_of ts) b = false ->
  exists e, expand ts = CErr e.
Proof.
  intros Hr Hd. pose proof (expand_total_lemma ts) as Ht.
  destruct (expand ts) as [f|e| |] eqn:E; try contradiction; [exfalso|exists e; reflexivity].
  destruct (expand_ok_inv ts f E) as [rest [m [p [Ec [_ [Ep _]]]]]].
  destruct (collect_macro_spec _ _ _ _ Ec) as [A [B _]]. simpl in B. subst rest m.
  destruct (reached_expanded _ _ _ _ _ Ep b Hr) as [Hdef _]. congruence.
Qed.

(* ------------------------------------------------------------------------------------ *)
(* the inlined document contains no MACRO when no macro body has a MACRO child *)

Lemma kind_paste_not_macro k : kind_eqb k KPaste = true -> kind_eqb k KMacro = false.
Proof. unfold kind_eqb. intros H. apply N.eqb_eq in H. rewrite H. reflexivity. Qed.

Lemma no_macro_nodes_app a b : no_macro_nodes (a ++ b) = no_macro_nodes a && no_macro_nodes b.
Proof. apply forallb_app. Qed.

Lemma inline_no_macro m : bodies_macro_free m = true ->
  forall f ts its, no_macro_nodes ts = true -> inline_fuel f m ts = Some its -> no_macro_nodes its = true.
Proof.
  intros Hb. induction f as [|f IH]; intros ts its Hn H; [discriminate|].
  rewrite inline_fuel_S in H. destruct ts as [|t r]; [injection H as <-; reflexivity|].
  unfold no_macro_nodes in Hn. simpl in Hn. apply andb_true_iff in Hn as [Hn1 Hn2].
  assert (Hstay : match inline_fuel f m r with Some b => Some ([t] ++ b) | None => None end = Some its ->
                  no_macro_nodes its = true).
  { intros H'. destruct (inline_fuel f m r) as [b|] eqn:Eb; [|discriminate]. injection H' as <-.
    unfold no_macro_nodes. simpl. rewrite Hn1. simpl. eapply IH; eassumption. }
  destruct (is_paste t) eqn:Ep.
  - destruct (negb (beq (d_annot (tree_dir t)) [])); [apply Hstay; exact H|].
    destruct (macro_lookup m (dname t)) as [mt|] eqn:El.
    + destruct (inline_fuel f m (tree_kids mt)) as [a|] eqn:Ea; [|discriminate].
      destruct (inline_fuel f m r) as [b|] eqn:Eb; [|discriminate]. injection H as <-.
      rewrite no_macro_nodes_app. apply andb_true_iff. split; [|eapply IH; eassumption].
      eapply IH; [|exact Ea]. unfold bodies_macro_free in Hb. rewrite forallb_forall in Hb.
      apply (Hb _ (lookup_some_in _ _ _ El)).
    + apply Hstay; exact H.
  - destruct (inline_fuel f m (tree_kids t)) as [k|]; [|discriminate].
    destruct (inline_fuel f m r) as [b|] eqn:Eb; [|discriminate]. injection H as <-.
    unfold no_macro_nodes. simpl. unfold is_macro in *. simpl. rewrite Hn1. simpl. eapply IH; eassumption.
Qed.

Lemma strip_no_macro ts : no_macro_nodes (strip_macros ts) = true.
Proof.
  unfold no_macro_nodes, strip_macros. apply forallb_forall. intros t Ht. apply filter_In in Ht. apply Ht.
Qed.

Theorem paste_is_inlining_scanned_lemma ts f :
  bodies_macro_free (macros_of ts) = true ->
  expand ts = COk f -> expand (inlined_document ts) = COk f.
Proof.
  intros Hb H. apply paste_is_inlining_lemma; [exact H|].
  unfold inlined_document, inline.
  destruct (inline_fuel _ _ _) as [its|] eqn:E; [|reflexivity].
  eapply inline_no_macro; [exact Hb|apply strip_no_macro|exact E].
Qed.

(* ------------------------------------------------------------------------------------ *)
(* the other direction: what the inlined document expands to, the document with macros expands to *)

Lemma evals_cons_inv m t r p p' : evals m (t :: r) p (COk p') ->
  exists f p2, paste_head f m t p = COk p2 /\ evals m r p2 (COk p').
Proof.
  intros [f [H _]]. destruct f; [discriminate|]. rewrite paste_list_S in H.
  destruct (paste_head f m t p) as [p2| | |] eqn:Eh; simpl in H; try discriminate.
  exists f, p2. split; [exact Eh|]. exists f. split; [exact H|discriminate].
Qed.

Lemma evals_app_inv m : forall a b p p', evals m (a ++ b) p (COk p') ->
  exists p1, evals m a p (COk p1) /\ evals m b p1 (COk p').
Proof.
  induction a as [|t a IH]; intros b p p' H.
  - exists p. split; [apply evals_nil|exact H].
  - simpl in H. destruct (evals_cons_inv _ _ _ _ _ H) as [f [p2 [Hh Hr]]].
    destruct (IH _ _ _ Hr) as [p1 [Ha Hb]]. exists p1. split; [|exact Hb].
    eapply evals_cons; eassumption.
Qed.

Lemma paste_head_nil_paste f t p : is_paste t = true -> forall p2, paste_head f [] t p <> COk p2.
Proof.
  intros Hp p2. unfold paste_head. rewrite Hp. destruct (negb _); [discriminate|].
  destruct (beq (dname t) []); discriminate.
Qed.

Lemma inline_paste m : macro_lookup m [] = None ->
  forall f ts its, inline_fuel f m ts = Some its ->
  forall p p', evals [] its p (COk p') -> evals m ts p (COk p').
Proof.
  intros Hnil. induction f as [|f IH]; intros ts its H p p' He; [discriminate|].
  rewrite inline_fuel_S in H. destruct ts as [|t r].
  { injection H as <-. destruct He as [g [Hg _]]. destruct g; [discriminate|].
    rewrite paste_list_S in Hg. injection Hg as <-. apply evals_nil. }
  assert (Hstay : is_paste t = true ->
                  match inline_fuel f m r with Some b => Some ([t] ++ b) | None => None end = Some its -> False).
  { intros Hp H'. destruct (inline_fuel f m r) as [b|]; [|discriminate]. injection H' as <-.
    simpl in He. destruct (evals_cons_inv _ _ _ _ _ He) as [g [p2 [Hh _]]].
    exact (paste_head_nil_paste g t p Hp p2 Hh). }
  destruct (is_paste t) eqn:Ep.
  - destruct (negb (beq (d_annot (tree_dir t)) [])) eqn:Ea; [exfalso; apply Hstay; [reflexivity|exact H]|].
    destruct (macro_lookup m (dname t)) as [mt|] eqn:El; [|exfalso; apply Hstay; [reflexivity|exact H]].
    destruct (inline_fuel f m (tree_kids mt)) as [a|] eqn:Ia; [|discriminate].
    destruct (inline_fuel f m r) as [b|] eqn:Ib; [|discriminate]. injection H as <-.
    destruct (evals_app_inv _ _ _ _ _ He) as [p1 [Ha Hb]].
    pose proof (IH _ _ Ia _ _ Ha) as [g [Hg _]]. pose proof (IH _ _ Ib _ _ Hb) as Hr.
    eapply (evals_cons m t r p p1 _ g); [|exact Hr].
    unfold paste_head. rewrite Ep, Ea, El, Hg.
    destruct (beq (dname t) []) eqn:En; [|reflexivity].
    apply beq_eq in En. rewrite En, Hnil in El. discriminate.
  - destruct (inline_fuel f m (tree_kids t)) as [k|] eqn:Ik; [|discriminate].
    destruct (inline_fuel f m r) as [b|] eqn:Ib; [|discriminate]. injection H as <-.
    simpl in He. destruct (evals_cons_inv _ _ _ _ _ He) as [g [p2 [Hh Hb]]].
    unfold paste_head in Hh. unfold is_paste in Hh, Ep. simpl tree_dir in Hh. rewrite Ep in Hh. simpl tree_kids in Hh.
    destruct (process_context _ _ _ _) as [fr| | |] eqn:Ec; simpl in Hh; try discriminate.
    destruct (paste_list g [] k _) as [q1| | |] eqn:Ek; simpl in Hh; try discriminate.
    assert (Hk : evals m (tree_kids t) (mk_pstate (fst fr) (snd fr)) (COk q1)).
    { eapply IH; [exact Ik|]. exists g. split; [exact Ek|discriminate]. }
    destruct Hk as [g' [Hg' _]]. pose proof (IH _ _ Ib _ _ Hb) as Hr.
    eapply (evals_cons m t r p p2 _ g'); [|exact Hr].
    unfold paste_head. unfold is_paste. rewrite Ep, Ec. simpl. rewrite Hg'. simpl. exact Hh.
Qed.

(* inline_fuel is defined, with the fuel of the specification, whenever the paste graph is acyclic *)
Lemma inline_total_aux m : forall n l, List.length l = n -> topo m l ->
  forall fuel ts,
    (forall b, In b (pastes_in ts) -> defined m b = true -> In b l) ->
    (forest_size ts + 1 + List.length l * (macro_total m + 2) <= fuel)%nat ->
    inline_fuel fuel m ts <> None.
Proof.
  induction n as [n IHn] using lt_wf_ind. intros l Hl Ht.
  induction fuel as [|f IHf]; intros ts Hp Hf; [lia|].
  rewrite inline_fuel_S. destruct ts as [|t r]; [discriminate|].
  rewrite forest_size_cons in Hf. pose proof (tree_size_kids t) as Hk.
  assert (Hr : inline_fuel f m r <> None).
  { apply IHf; [|lia]. intros b Hb. apply Hp. rewrite pastes_in_cons. apply in_or_app. right. exact Hb. }
  rewrite pastes_in_cons, pastes_tree_eq in Hp.
  destruct (inline_fuel f m r) as [b|]; [|contradiction].
  destruct (is_paste t).
  - destruct (negb _); [discriminate|].
    destruct (macro_lookup m (dname t)) as [mt|] eqn:El; [|discriminate].
    assert (Hin : In (dname t) l).
    { apply Hp; [left; reflexivity|unfold defined; rewrite El; reflexivity]. }
    destruct (in_split _ _ Hin) as [l1 [l2 E]]. subst l.
    destruct (topo_split _ _ _ _ Ht) as [Ht2 Hs].
    assert (Hq : inline_fuel f m (tree_kids mt) <> None).
    { apply (IHn (List.length l2)) with (l := l2); [rewrite <- Hl, app_length; simpl; lia|reflexivity|exact Ht2| |].
      - intros c Hc. apply Hs. unfold succs, body. rewrite El. exact Hc.
      - pose proof (lookup_size _ _ _ El) as Hsz. pose proof (tree_size_kids mt) as Hk2.
        rewrite app_length in Hf. simpl in Hf. nia. }
    destruct (inline_fuel f m (tree_kids mt)); [discriminate|contradiction].
  - assert (Hq : inline_fuel f m (tree_kids t) <> None).
    { apply IHf; [|lia]. intros c Hc. apply Hp. apply in_or_app. left. exact Hc. }
    destruct (inline_fuel f m (tree_kids t)); [discriminate|contradiction].
Qed.

Lemma inline_total m fuel0 ts : table_ok m = true ->
  check_all_macros fuel0 m (map fst m) [] = COk tt ->
  exists its, inline_fuel (fuel_needed m ts) m ts = Some its.
Proof.
  intros Htab Hc. destruct (check_passed_order m Htab fuel0 Hc) as [l [T [N [A _]]]].
  assert (Hlen : (List.length l <= List.length m)%nat).
  { rewrite <- (map_length fst m). apply NoDup_incl_length; [exact N|].
    intros x Hx. apply defined_in_names. apply A. exact Hx. }
  pose proof (inline_total_aux m _ l eq_refl T (fuel_needed m ts) ts) as H.
  destruct (inline_fuel (fuel_needed m ts) m ts) as [its|]; [exists its; reflexivity|].
  exfalso. apply H; [| |reflexivity].
  - intros b _ Hd. apply A. exact Hd.
  - unfold fuel_needed. nia.
Qed.

Lemma macros_of_no_empty_name ts :
  (forall t, In t ts -> is_macro t = true -> macro_wf t = true) -> macro_lookup (macros_of ts) [] = None.
Proof.
  intros Hwf. destruct (macro_lookup (macros_of ts) []) as [t|] eqn:E; [|reflexivity]. exfalso.
  apply lookup_some_in in E. unfold macros_of in E. apply in_map_iff in E as [t' [Ht' Hin]].
  injection Ht' as Hn _. apply filter_In in Hin as [Hin Hm]. specialize (Hwf t' Hin Hm).
  unfold macro_wf in Hwf. rewrite Hn in Hwf. simpl in Hwf. rewrite andb_false_r in Hwf. discriminate.
Qed.

(* the definitions are in order and acyclic (what is checked before anything is pasted): then the
   inlined document is accepted ONLY IF the document with macros is, with the same result *)
Lemma expand_rest_ok rest m f : expand_rest rest m = COk f ->
  exists p, paste_list (expand_fuel rest m) m rest pstate0 = COk p /\ f = forest_of_pstate p.
Proof. unfold expand_rest. intros H. apply expand_with_ok in H as [_ H]. exact H. Qed.

Lemma expand_no_macros_ok its f : no_macro_nodes its = true -> expand its = COk f ->
  exists p F, paste_list F [] its pstate0 = COk p /\ f = forest_of_pstate p.
Proof.
  intros Hnm H. rewrite (expand_no_macros its Hnm) in H.
  destruct (expand_rest_ok its [] f H) as [p [Hp Hf]]. exists p, (expand_fuel its []).
  split; [exact Hp|exact Hf].
Qed.

Lemma expand_intro ts rest m p :
  collect_macro ts [] = COk (rest, m) ->
  check_all_macros (check_fuel m) m (map fst m) [] = COk tt ->
  paste_list (expand_fuel rest m) m rest pstate0 = COk p ->
  expand ts = COk (forest_of_pstate p).
Proof.
  intros Ec Ek Hq. rewrite expand_eq, Ec. cbn [cbind fst snd]. unfold expand_rest.
  exact (expand_with_intro _ _ _ _ _ Ek Hq).
Qed.

Theorem inlining_is_paste_lemma ts rest m f :
  collect_macro ts [] = COk (rest, m) ->
  check_all_macros (check_fuel m) m (map fst m) [] = COk tt ->
  no_macro_nodes (inlined_document ts) = true ->
  expand (inlined_document ts) = COk f -> expand ts = COk f.
Proof.
  intros Ec Ek Hnm H.
  destruct (collect_macro_spec _ _ _ _ Ec) as [A [B [Cwf _]]]. simpl in B.
  assert (Htab : table_ok m = true) by (rewrite B; apply table_ok_macros_of).
  destruct (inline_total m _ rest Htab Ek) as [its I1].
  assert (Hd : inlined_document ts = its).
  { unfold inlined_document, inline. rewrite <- A, <- B, I1. reflexivity. }
  rewrite Hd in Hnm, H.
  destruct (expand_no_macros_ok its f Hnm H) as [p [F [Hp ->]]].
  assert (He : evals m rest pstate0 (COk p)).
  { eapply inline_paste; [rewrite B; apply macros_of_no_empty_name; exact Cwf|exact I1|].
    exact (evals_of _ _ _ _ _ Hp). }
  pose proof (evals_at_ok m rest pstate0 p _ He
               (paste_terminates_lemma m _ Htab Ek rest pstate0 _ (expand_fuel_enough m rest))) as Hq.
  exact (expand_intro ts rest m p Ec Ek Hq).
Qed.

Theorem paste_iff_inlining_lemma ts rest m f :
  collect_macro ts [] = COk (rest, m) ->
  check_all_macros (check_fuel m) m (map fst m) [] = COk tt ->
  bodies_macro_free m = true ->
  (expand ts = COk f <-> expand (inlined_document ts) = COk f).
Proof.
  intros Ec Ek Hb.
  destruct (collect_macro_spec _ _ _ _ Ec) as [A [B _]]. simpl in B.
  assert (Htab : table_ok m = true) by (rewrite B; apply table_ok_macros_of).
  assert (Hnm : no_macro_nodes (inlined_document ts) = true).
  { unfold inlined_document, inline. destruct (inline_fuel _ _ _) as [its|] eqn:E; [|reflexivity].
    rewrite B in Hb. exact (inline_no_macro _ Hb _ _ _ (strip_no_macro ts) E). }
  split.
  - intros H. apply paste_is_inlining_lemma; assumption.
  - intros H. eapply inlining_is_paste_lemma; eassumption.
Qed.

(* ------------------------------------------------------------------------------------ *)
(* a macro that is never pasted contributes nothing *)

Section Remove.
  Variables (m1 m2 : macro_table) (n : bytes) (t : dtree).
  Let m := m1 ++ (n, t) :: m2.
  Let m' := m1 ++ m2.
  Hypothesis Hnd : NoDup (map fst (m1 ++ (n, t) :: m2)).

  Lemma lookup_removed_self : macro_lookup m' n = None.
  Proof.
    unfold m'. rewrite lookup_app. rewrite map_app in Hnd. simpl in Hnd.
    pose proof (NoDup_remove_2 _ _ _ Hnd) as Hn.
    destruct (macro_lookup m1 n) eqn:E1.
    { exfalso. apply Hn. apply in_or_app. left. eapply lookup_in_names; exact E1. }
    destruct (macro_lookup m2 n) eqn:E2; [|reflexivity].
    exfalso. apply Hn. apply in_or_app. right. eapply lookup_in_names; exact E2.
  Qed.

  Lemma lookup_removed_other b : b <> n -> macro_lookup m' b = macro_lookup m b.
  Proof.
    intros Hb. unfold m', m. rewrite !lookup_app. destruct (macro_lookup m1 b); [reflexivity|].
    rewrite lookup_cons. simpl. assert (E : beq n b = false) by (apply beq_neq; congruence).
    rewrite E. reflexivity.
  Qed.

  Lemma defined_removed b : defined m' b = true -> defined m b = true /\ b <> n.
  Proof.
    intros H. assert (Hb : b <> n).
    { intros ->. unfold defined in H. rewrite lookup_removed_self in H. discriminate. }
    split; [|exact Hb]. unfold defined in *. rewrite <- (lookup_removed_other b Hb). exact H.
  Qed.

  Lemma succs_removed b : b <> n -> succs m' b = succs m b.
  Proof. intros Hb. unfold succs, body. rewrite (lookup_removed_other b Hb). reflexivity. Qed.

  Lemma gsuccs_removed a c : In c (gsuccs (paste_graph m') a) -> In c (gsuccs (paste_graph m) a).
  Proof.
    intros H. apply gsuccs_spec in H as [H1 H2]. apply gsuccs_spec.
    destruct (defined_removed a (succs_defined _ _ _ H1)) as [_ Ha].
    rewrite (succs_removed a Ha) in H1. split; [exact H1|apply defined_removed; exact H2].
  Qed.

  Lemma reaches_removed : forall k a b,
    reaches k (paste_graph m') a b = true -> reaches k (paste_graph m) a b = true.
  Proof.
    induction k as [|k IH]; intros a b H; [discriminate|]. rewrite reaches_S in *.
    apply existsb_exists in H as [c [Hc H]]. apply existsb_exists. exists c.
    split; [apply gsuccs_removed; exact Hc|]. apply orb_true_iff in H as [H|H]; apply orb_true_iff;
      [left; exact H|right; apply IH; exact H].
  Qed.

  Lemma in_removed e : In e m' -> In e m.
  Proof.
    unfold m', m. intros H. apply in_app_or in H as [H|H]; apply in_or_app; [left; exact H|right; right; exact H].
  Qed.

  Lemma has_cycle_removed : has_cycle m' = true -> has_cycle m = true.
  Proof.
    unfold has_cycle. intros H. apply existsb_exists in H as [a [Ha H]]. apply existsb_exists. exists a. split.
    - apply in_map_iff in Ha as [e [<- He]]. apply in_map. apply in_removed. exact He.
    - apply reaches_removed in H. eapply reaches_mono; [|exact H]. unfold m', m.
      rewrite !app_length. simpl. lia.
  Qed.

  Lemma nameless_removed : nameless_paste m' = true -> nameless_paste m = true.
  Proof.
    unfold nameless_paste. intros H. apply existsb_exists in H as [e [He H]]. apply existsb_exists.
    exists e. split; [apply in_removed; exact He|].
    assert (Hd : defined m' (fst e) = true) by (apply in_names_defined; apply in_map; exact He).
    destruct (defined_removed _ Hd) as [_ Hne]. rewrite <- (succs_removed _ Hne). exact H.
  Qed.

  Lemma table_ok_removed : table_ok m = true -> table_ok m' = true.
  Proof.
    unfold table_ok, m, m'. rewrite !forallb_app. simpl. intros H.
    apply andb_true_iff in H as [H1 H2]. apply andb_true_iff in H2 as [_ H2]. rewrite H1, H2. reflexivity.
  Qed.

  (* the expansion never asks for a name outside a set closed under the paste edges *)
  Variable S : bytes -> Prop.
  Hypothesis S_closed : forall a b, S a -> In b (succs m a) -> S b.
  Hypothesis S_not_n : ~ S n.

  Lemma paste_agree : forall f ts p, (forall b, In b (pastes_in ts) -> S b) ->
    paste_list f m' ts p = paste_list f m ts p.
  Proof.
    induction f as [|f IH]; intros ts p Hs; [reflexivity|]. rewrite !paste_list_S.
    destruct ts as [|t0 r]; [reflexivity|].
    assert (Hr : forall b, In b (pastes_in r) -> S b).
    { intros b Hb. apply Hs. rewrite pastes_in_cons. apply in_or_app. right. exact Hb. }
    assert (Ht : forall b, In b (pastes_tree t0) -> S b).
    { intros b Hb. apply Hs. rewrite pastes_in_cons. apply in_or_app. left. exact Hb. }
    assert (Hh : paste_head f m' t0 p = paste_head f m t0 p).
    { unfold paste_head. rewrite pastes_tree_eq in Ht. destruct (is_paste t0).
      - assert (Hn : dname t0 <> n).
        { intros E. apply S_not_n. rewrite <- E. apply Ht. left. reflexivity. }
        rewrite (lookup_removed_other _ Hn).
        destruct (negb _); [reflexivity|]. destruct (beq (dname t0) []); [reflexivity|].
        destruct (macro_lookup m (dname t0)) as [mt|] eqn:El; [|reflexivity].
        rewrite IH; [reflexivity|]. intros b Hb. apply (S_closed (dname t0)); [apply Ht; left; reflexivity|].
        unfold succs, body. rewrite El. exact Hb.
      - destruct (process_context _ _ _ _) as [fr| | |]; simpl; try reflexivity.
        rewrite IH; [reflexivity|exact Ht]. }
    rewrite Hh. destruct (paste_head f m t0 p); simpl; try reflexivity. apply IH. exact Hr.
  Qed.
End Remove.

Lemma macros_of_app a b : macros_of (a ++ b) = macros_of a ++ macros_of b.
Proof. unfold macros_of. rewrite filter_app, map_app. reflexivity. Qed.

Lemma strip_app a b : strip_macros (a ++ b) = strip_macros a ++ strip_macros b.
Proof. unfold strip_macros. apply filter_app. Qed.

Theorem unused_macro_inert_lemma pre t post f :
  expand (pre ++ t :: post) = COk f ->
  is_macro t = true ->
  ~ Reached (macros_of (pre ++ t :: post)) (strip_macros (pre ++ t :: post)) (dname t) ->
  expand (pre ++ post) = COk f.
Proof.
  intros H Hm Hu. destruct (expand_ok_inv _ f H) as [rest [m [p [Ec [Ek [Ep ->]]]]]].
  destruct (collect_macro_spec _ _ _ _ Ec) as [A [B [C [D _]]]]. simpl in B.
  assert (Em : m = macros_of pre ++ (dname t, t) :: macros_of post).
  { rewrite B, macros_of_app, macros_of_cons, Hm. reflexivity. }
  assert (Er : rest = strip_macros (pre ++ post)).
  { rewrite A, !strip_app, strip_cons, Hm. reflexivity. }
  rewrite <- B in Hu. rewrite <- A in Hu.
  set (m1 := macros_of pre) in *. set (m2 := macros_of post) in *.
  assert (Hnd : NoDup (map fst (m1 ++ (dname t, t) :: m2))) by (rewrite <- Em, B; exact D).
  assert (Htab : table_ok m = true) by (rewrite B; apply table_ok_macros_of).
  assert (Htab' : table_ok (m1 ++ m2) = true).
  { apply (table_ok_removed m1 m2 (dname t) t). rewrite <- Em. exact Htab. }
  (* the definitions that remain are collected as before *)
  assert (Ec' : collect_macro (pre ++ post) [] = COk (rest, m1 ++ m2)).
  { rewrite collect_macro_complete.
    - rewrite <- Er, macros_of_app. reflexivity.
    - intros t' Ht'. apply C. apply in_app_or in Ht' as [Ht'|Ht']; apply in_or_app; [left|right; right]; exact Ht'.
    - rewrite macros_of_app. fold m1 m2. rewrite map_app in *. simpl in Hnd. eapply NoDup_remove_1. exact Hnd.
    - intros n _. reflexivity. }
  (* the remaining macros are still acyclic *)
  pose proof (proj1 (check_passed_iff m Htab (check_fuel m) (check_fuel_enough m)) Ek) as [Hc Hn].
  assert (Ek' : check_all_macros (check_fuel (m1 ++ m2)) (m1 ++ m2) (map fst (m1 ++ m2)) [] = COk tt).
  { apply (check_passed_iff _ Htab' _ (check_fuel_enough _)). split.
    - destruct (has_cycle (m1 ++ m2)) eqn:E; [|reflexivity].
      apply (has_cycle_removed m1 m2 (dname t) t Hnd) in E. rewrite <- Em in E. congruence.
    - destruct (nameless_paste (m1 ++ m2)) eqn:E; [|reflexivity].
      apply (nameless_removed m1 m2 (dname t) t Hnd) in E. rewrite <- Em in E. congruence. }
  (* and the expansion never looks the removed macro up *)
  assert (Ep' : paste_list (expand_fuel rest (m1 ++ m2)) (m1 ++ m2) rest pstate0 = COk p).
  { assert (HF : forall F, ok_err (paste_list F (m1 ++ m2) rest pstate0) ->
                             paste_list F (m1 ++ m2) rest pstate0 = COk p).
    { intros F Hfin.
      assert (Hag : paste_list F (m1 ++ m2) rest pstate0 = paste_list F m rest pstate0).
      { rewrite Em. apply (paste_agree m1 m2 (dname t) t (Reached m rest)).
        - intros a b Ha Hb. rewrite <- Em in Hb. eapply R_step; eassumption.
        - exact Hu.
        - intros b Hb. apply R_here. exact Hb. }
      rewrite Hag in *. apply (evals_at m rest pstate0).
      - exists (expand_fuel rest m). split; [exact Ep|discriminate].
      - destruct (paste_list F m rest pstate0); try discriminate. contradiction. }
    apply HF. exact (paste_terminates_lemma _ _ Htab' Ek' rest pstate0 _ (expand_fuel_enough (m1 ++ m2) rest)). }
  rewrite expand_eq, Ec'. cbn [cbind fst snd]. unfold expand_rest.
  apply expand_with_intro; assumption.
Qed.

(* ------------------------------------------------------------------------------------ *)
(* for an accepted document the bounded search of [used] finds everything that is reached *)

Lemma reaches_snoc g : forall k a c b,
  reaches k g a c = true -> In b (gsuccs g c) -> reaches (S k) g a b = true.
Proof.
  induction k as [|k IH]; intros a c b H Hb; [discriminate|]. rewrite reaches_S in H.
  apply existsb_exists in H as [x [Hx H]]. rewrite reaches_S. apply existsb_exists. exists x.
  split; [exact Hx|]. apply orb_true_iff. right. apply orb_true_iff in H as [H|H].
  - apply beq_eq in H. subst x. rewrite reaches_S. apply existsb_exists. exists b.
    split; [exact Hb|]. rewrite beq_refl. reflexivity.
  - eapply IH; eassumption.
Qed.

Lemma topo_reach_bound m : forall l, topo m l -> forall a, In a l -> forall k b,
  reaches k (paste_graph m) a b = true -> reaches (List.length l) (paste_graph m) a b = true.
Proof.
  induction l as [|x l IH]; intros T a Ha k b H; [contradiction|]. destruct T as [T1 T2].
  destruct (in_dec (list_eq_dec N.eq_dec) a l) as [Hal|Hal].
  { eapply reaches_mono; [|eapply IH; eassumption]. simpl. lia. }
  destruct Ha as [<-|Ha]; [|contradiction].
  destruct k as [|k]; [discriminate|]. rewrite reaches_S in H.
  apply existsb_exists in H as [c [Hc H]]. pose proof Hc as Hc'. apply gsuccs_spec in Hc' as [Hc1 Hc2].
  pose proof (T1 c Hc1 Hc2) as Hcl. simpl List.length. rewrite reaches_S. apply existsb_exists.
  exists c. split; [exact Hc|]. apply orb_true_iff in H as [H|H]; apply orb_true_iff; [left; exact H|right].
  eapply IH; eassumption.
Qed.

Lemma reached_used m rest f0 fuel p p' : table_ok m = true ->
  check_all_macros f0 m (map fst m) [] = COk tt ->
  paste_list fuel m rest p = COk p' ->
  forall b, Reached m rest b -> used m rest b = true.
Proof.
  intros Htab Hc Hp. destruct (check_passed_order m Htab f0 Hc) as [l [T [N [A _]]]].
  assert (Hlen : (List.length l <= List.length m)%nat).
  { rewrite <- (map_length fst m). apply NoDup_incl_length; [exact N|].
    intros x Hx. apply defined_in_names. apply A. exact Hx. }
  intros b Hr. pose proof Hr as Hr0. induction Hr as [b Hb|a b Ha IH Hb].
  - unfold used. apply existsb_exists. exists b. split; [exact Hb|]. rewrite beq_refl. reflexivity.
  - specialize (IH Ha). unfold used in *. apply existsb_exists in IH as [a0 [Ha0 H]].
    apply existsb_exists. exists a0. split; [exact Ha0|]. apply orb_true_iff. right.
    destruct (reached_expanded _ _ _ _ _ Hp b Hr0) as [Hdb _].
    assert (Hg : In b (gsuccs (paste_graph m) a)) by (apply gsuccs_spec; split; assumption).
    destruct (reached_expanded _ _ _ _ _ Hp a0 (R_here _ _ _ Ha0)) as [Hda0 _].
    apply A in Hda0. apply orb_true_iff in H as [H|H].
    + apply beq_eq in H. subst a0. eapply reaches_mono; [|eapply (topo_reach_bound m l T a Hda0 1)].
      * exact Hlen.
      * rewrite reaches_S. apply existsb_exists. exists b. split; [exact Hg|]. rewrite beq_refl. reflexivity.
    + eapply reaches_mono; [exact Hlen|]. eapply (topo_reach_bound m l T a0 Hda0).
      eapply reaches_snoc; eassumption.
Qed.

Theorem unused_macro_inert_bool_lemma pre t post f :
  expand (pre ++ t :: post) = COk f ->
  is_macro t = true ->
  used (macros_of (pre ++ t :: post)) (strip_macros (pre ++ t :: post)) (dname t) = false ->
  expand (pre ++ post) = COk f.
Proof.
  intros H Hm Hu. apply (unused_macro_inert_lemma pre t post f H Hm). intros Hr.
  destruct (expand_ok_inv _ f H) as [rest [m [p [Ec [Ek [Ep _]]]]]].
  destruct (collect_macro_spec _ _ _ _ Ec) as [A [B _]]. simpl in B. subst rest m.
  rewrite (reached_used _ _ _ _ _ _ (table_ok_macros_of _) Ek Ep _ Hr) in Hu. discriminate.
Qed.

(* in the other direction no acceptance is needed: what the bounded search finds is reached *)
Lemma reaches_reached m rest : forall k a b, Reached m rest a ->
  reaches k (paste_graph m) a b = true -> Reached m rest b.
Proof.
  induction k as [|k IH]; intros a b Ha H; [discriminate|]. rewrite reaches_S in H.
  apply existsb_exists in H as [c [Hc H]]. apply gsuccs_spec in Hc as [Hc1 _].
  assert (Rc : Reached m rest c) by (eapply R_step; eassumption).
  apply orb_true_iff in H as [H|H]; [apply beq_eq in H; subst; exact Rc|]. eapply IH; eassumption.
Qed.

Lemma used_reached m rest b : used m rest b = true -> Reached m rest b.
Proof.
  unfold used. intros H. apply existsb_exists in H as [a [Ha H]].
  apply orb_true_iff in H as [H|H]; [apply beq_eq in H; subst; apply R_here; exact Ha|].
  eapply reaches_reached; [apply R_here; exact Ha|exact H].
Qed.

(* ------------------------------------------------------------------------------------ *)
(* the bound in has_cycle loses nothing: no cycle within (length m) steps = no cycle at all *)

Theorem has_cycle_complete_lemma m : table_ok m = true ->
  has_cycle m = false -> nameless_paste m = false ->
  forall k a, reaches k (paste_graph m) a a = false.
Proof.
  intros Htab Hc Hn k a.
  pose proof (proj2 (check_passed_iff m Htab (check_fuel m) (check_fuel_enough m)) (conj Hc Hn)) as Hok.
  destruct (check_passed_order m Htab _ Hok) as [l [T [N [A _]]]].
  destruct (defined m a) eqn:Hd.
  - apply (topo_acyclic m l T N). apply A. exact Hd.
  - destruct (reaches k (paste_graph m) a a) eqn:E; [|reflexivity]. destruct k as [|k]; [discriminate|].
    rewrite reaches_S in E. apply existsb_exists in E as [c [Hcs _]]. apply gsuccs_spec in Hcs as [Hcs _].
    rewrite (succs_defined _ _ _ Hcs) in Hd. discriminate.
Qed.

(* ------------------------------------------------------------------------------------ *)
(* fuel-explicit forms of [evals] for the property file *)

Lemma evals_fuel m ts p r : evals m ts p r ->
  exists f0, forall f, (f0 <= f)%nat -> paste_list f m ts p = r.
Proof.
  intros [f0 [H Hr]]. exists f0. intros f Hle. rewrite <- H. apply paste_mono; [rewrite H; exact Hr|exact Hle].
Qed.

Theorem undefined_paste_diag_fuel m pre t post p p1 f1 :
  paste_list f1 m pre p = COk p1 ->
  is_paste t = true -> d_annot (tree_dir t) = [] -> dname t <> [] -> macro_lookup m (dname t) = None ->
  exists f0, forall f, (f0 <= f)%nat ->
    paste_list f m (pre ++ t :: post) p =
    CErr (wrap_paste (tree_dir t) (kw_err (tree_dir t) CEMacroNotFound)).
Proof.
  intros H Hp Ha Hn Hl. apply evals_fuel. eapply undefined_paste_diag_lemma; try eassumption.
  exists f1. split; [exact H|discriminate].
Qed.

Theorem paste_error_wrapped_fuel m t r p mt e f1 :
  is_paste t = true -> d_annot (tree_dir t) = [] -> dname t <> [] -> macro_lookup m (dname t) = Some mt ->
  paste_list f1 m (tree_kids mt) p = CErr e ->
  exists f0, forall f, (f0 <= f)%nat -> paste_list f m (t :: r) p = CErr (wrap_paste (tree_dir t) e).
Proof.
  intros Hp Ha Hn Hl H. apply evals_fuel. eapply paste_error_wrapped_lemma; try eassumption.
  exists f1. split; [exact H|discriminate].
Qed.

(* ------------------------------------------------------------------------------------ *)
(* examples, by computation *)

Module Examples.
  Definition xdir (k : kind) (name : bytes) (x : bool) (pos : N) : directive :=
    {| d_kind := k; d_keyword := kind_keyword k;
       d_kw := {| c_file := bs "a"; c_beg := pos; c_end := pos |};
       d_named := match name with [] => [] | _ => [(bs "Name", name)] end;
       d_unnamed := []; d_annot := []; d_body := None; d_explicit := x; d_trace := [] |}.
  Definition xmacro (n : string) (pos : N) (kids : list dtree) := DNode (xdir KMacro (bs n) false pos) kids.
  Definition xpaste (n : string) (pos : N) := DNode (xdir KPaste (bs n) false pos) [].
  Definition xnode (k : kind) (pos : N) (kids : list dtree) := DNode (xdir k [] false pos) kids.

  (* cycles of length 1, 2, 3 (the PASTE nested under a GET), 5 (nested under URL/GET) *)
  Definition ring1 := [xmacro "a" 1 [xpaste "a" 2]].
  Definition ring2 := [xmacro "a" 1 [xpaste "b" 2]; xmacro "b" 3 [xpaste "a" 4]].
  Definition ring3 := [xmacro "a" 1 [xpaste "b" 2]; xmacro "b" 3 [xnode KGet 4 [xpaste "c" 5]]; xmacro "c" 6 [xpaste "a" 7]].
  Definition ring5 := [xmacro "a" 1 [xpaste "b" 2]; xmacro "b" 3 [xpaste "c" 4]; xmacro "c" 5 [xpaste "d" 6];
                       xmacro "d" 7 [xpaste "e" 8]; xmacro "e" 9 [xnode KURL 10 [xnode KGet 11 [xpaste "a" 12]]]].

  Example rings_have_cycles :
    map (fun ts => has_cycle (macros_of ts)) [ring1; ring2; ring3; ring5] = [true; true; true; true].
  Proof. vm_compute. reflexivity. Qed.

  (* the diagnostic stands at the PASTE that closes the cycle *)
  Example ring_diagnostics :
    map expand [ring1; ring2; ring3; ring5] =
    [CErr (kw_err (xdir KPaste (bs "a") false 2) CERecursion);
     CErr (kw_err (xdir KPaste (bs "a") false 4) CERecursion);
     CErr (kw_err (xdir KPaste (bs "a") false 7) CERecursion);
     CErr (kw_err (xdir KPaste (bs "a") false 12) CERecursion)].
  Proof. vm_compute. reflexivity. Qed.

  (* a doubling chain a -> b b -> c c c c -> 8 d; an unused self-recursive macro z is still rejected *)
  Definition chain4 := [xnode KURL 1 [xpaste "a" 2; xnode KGet 3 [xpaste "b" 4]];
    xmacro "a" 10 [xpaste "b" 11; xpaste "b" 12];
    xmacro "b" 13 [xpaste "c" 14; xpaste "c" 15];
    xmacro "c" 16 [xpaste "d" 17; xpaste "d" 18];
    xmacro "d" 19 [xnode KGet 20 [xnode KRequest 21 []]]].
  Definition unused_z := xmacro "z" 30 [xnode KGet 31 []].
  Definition rec_z := xmacro "z" 30 [xpaste "z" 31].

  Example chain_acyclic : has_cycle (macros_of chain4) = false /\
    uses (macros_of (chain4 ++ [unused_z])) (strip_macros (chain4 ++ [unused_z])) = [bs "a"; bs "b"; bs "c"; bs "d"].
  Proof. vm_compute. split; reflexivity. Qed.

  Example chain_expands : exists f, expand chain4 = COk f /\ forest_size f = 26%nat /\
    expand (inlined_document chain4) = COk f /\ expand (chain4 ++ [unused_z]) = COk f.
  Proof. eexists. vm_compute. repeat split; reflexivity. Qed.

  Example chain_fuel : fuel_needed (macros_of chain4) (strip_macros chain4) = 61%nat /\
    N.of_nat (expand_fuel (strip_macros chain4) (macros_of chain4)) = 6120%N.
  Proof. vm_compute. split; reflexivity. Qed.

  Example unused_cycle_rejected :
    expand (chain4 ++ [rec_z]) = CErr (kw_err (xdir KPaste (bs "z") false 31) CERecursion).
  Proof. vm_compute. reflexivity. Qed.

  (* an undefined PASTE two levels down: the diagnostic is wrapped twice and stands at the outer PASTE *)
  Definition undef := [xmacro "a" 1 [xnode KGet 2 [xpaste "q" 3]]; xnode KURL 4 [xpaste "a" 5]].
  Example undefined_nested : exists e, expand undef = CErr e /\ ce_idx e = 5%N /\
    ce_kind e = CEWrapped (CEWrapped CEMacroNotFound).
  Proof. eexists. vm_compute. repeat split; reflexivity. Qed.

  Definition dup := [xmacro "a" 1 [xnode KGet 2 []]; xnode KURL 4 []; xmacro "a" 5 [xnode KGet 6 []]].
  Example duplicate_located_at_second : expand dup = CErr (kw_err (xdir KMacro (bs "a") false 5) CEDupName).
  Proof. vm_compute. reflexivity. Qed.

  (* one body pasted twice (here an ENUM): no rule is collected while pasting, document and inlined
     document expand alike; the duplicate is the business of the later stages, on both *)
  Definition twice := [xmacro "e" 1 [xnode KEnum 2 []]; xpaste "e" 3; xnode KURL 4 []; xpaste "e" 5].
  Example pasted_twice : exists f, expand twice = COk f /\ expand (inlined_document twice) = COk f /\
    map (fun t => d_kind (tree_dir t)) f = [KEnum; KURL; KEnum].
  Proof. eexists. vm_compute. repeat split; reflexivity. Qed.

  (* why paste_is_inlining carries its guard: a forest that no scan produces (a MACRO node inside
     a macro body) is pasted as a directive, but collected as a definition once inlined *)
  Definition odd := [xmacro "a" 1 [xmacro "b" 2 [xnode KGet 3 []]]; xpaste "a" 4].
  Lemma unguarded_refuted : exists ts f, expand ts = COk f /\ expand (inlined_document ts) <> COk f.
  Proof. exists odd. eexists. split; [vm_compute; reflexivity|]. vm_compute. discriminate. Qed.
End Examples.
