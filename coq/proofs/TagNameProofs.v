(* C19 (string-level part): the automatic tag name function catalog.tagName (REGENERATED
   term gen/TagName.v) is injective on the titles produced by catalog.pathTagTitle
   (hand model model/TagTitle.v), and pathTagTitle picks the first path segment that is
   neither "" nor ".".

   Why tagName is injective on titles "/" ++ seg:
     "/"            |-> "@_"
     "/" ++ seg     |-> "@" ++ encode seg           (seg <> "")
   where encode works byte by byte:
     '_'                          |-> "__"
     c kept by url.PathEscape     |-> c             (c <> '_', c <> '%')
     any other byte c ('%' too)   |-> "_" X Y       (X Y = upper-case hex of c, never '_')
   so an '_' in the output always announces either a second '_' or two hex digits and the
   output can be decoded left to right.  "@_" is not of the form "@" ++ encode seg because
   no encoding ends right after a single '_'. *)
From Coq Require Import List NArith Bool String Lia.
From JV.lib Require Import Bytes.
From JV.gen Require Import TagName.
From JV.model Require Import TagTitle.
From JV.proofs Require Import BytesLemmas.
Import ListNotations.
Open Scope N_scope.

(* ------------------------------------------------------------------------------------ *)
(* tagName in closed form on titles that start with '/'                                   *)

Definition enc_byte (c : N) : bytes :=
  if c =? 95 then [95; 95]
  else if path_unescaped c then [c]
  else [95; hex_digit (c / 16); hex_digit (c mod 16)].

Definition encode (seg : bytes) : bytes := flat_map enc_byte seg.

Lemma encode_cons c seg : encode (c :: seg) = enc_byte c ++ encode seg.
Proof. reflexivity. Qed.

(* strings.ReplaceAll with a one-byte pattern is a byte-wise substitution *)
Lemma replace_all_single o new s :
  replace_all [o] new s = flat_map (fun c => if c =? o then new else [c]) s.
Proof.
  unfold replace_all.
  induction s as [|c s IH]; [reflexivity|].
  cbn [replace_all_go has_prefix flat_map List.length Nat.sub].
  rewrite andb_true_r, (N.eqb_sym o c).
  destruct (c =? o) eqn:Eco.
  - rewrite IH. reflexivity.
  - rewrite IH. reflexivity.
Qed.

Lemma path_escape_keep c s :
  path_unescaped c = true -> path_escape (c :: s) = c :: path_escape s.
Proof. intros Hc. cbn [path_escape]. rewrite Hc. reflexivity. Qed.

Lemma path_escape_esc c s :
  path_unescaped c = false ->
  path_escape (c :: s) = 37 :: hex_digit (c / 16) :: hex_digit (c mod 16) :: path_escape s.
Proof. intros Hc. cbn [path_escape]. rewrite Hc. reflexivity. Qed.

Lemma hex_digit_ge48 n : 48 <= hex_digit n.
Proof. unfold hex_digit. destruct (n <? 10); lia. Qed.

Lemma hex_digit_not37 n : (hex_digit n =? 37) = false.
Proof. apply N.eqb_neq. pose proof (hex_digit_ge48 n) as Hge. lia. Qed.

Definition dbl_us (c : N) : bytes := if c =? 95 then [95; 95] else [c].
Definition pct_us (c : N) : bytes := if c =? 37 then [95] else [c].

(* the three string passes of tagName, fused *)
Lemma passes_encode seg :
  flat_map pct_us (path_escape (flat_map dbl_us seg)) = encode seg.
Proof.
  induction seg as [|c seg IH]; [reflexivity|].
  rewrite encode_cons. cbn [flat_map]. unfold dbl_us at 1, enc_byte.
  destruct (c =? 95) eqn:E95.
  - cbn [app].
    rewrite (path_escape_keep 95), (path_escape_keep 95) by reflexivity.
    cbn [flat_map]. change (pct_us 95) with [95]. cbn [app]. rewrite IH. reflexivity.
  - cbn [app].
    destruct (path_unescaped c) eqn:Eun.
    + rewrite (path_escape_keep c) by exact Eun.
      cbn [flat_map]. unfold pct_us at 1.
      destruct (c =? 37) eqn:E37.
      * apply N.eqb_eq in E37. subst c. vm_compute in Eun. discriminate Eun.
      * cbn [app]. rewrite IH. reflexivity.
    + rewrite (path_escape_esc c) by exact Eun.
      cbn [flat_map]. change (pct_us 37) with [95]. unfold pct_us at 1 2.
      rewrite !hex_digit_not37. cbn [app]. rewrite IH. reflexivity.
Qed.

(* closed form of the REGENERATED tagName on a title starting with '/' *)
Lemma tagName_slash seg :
  tagName (47 :: seg) = GOk (if beq seg [] then [64; 95] else 64 :: encode seg).
Proof.
  unfold tagName.
  change (bs "/") with [47]. change (bs "@_") with [64; 95]. change (bs "@") with [64].
  change (bs "_") with [95]. change (bs "__") with [95; 95]. change (bs "%") with [37].
  change (beq (47 :: seg) [47]) with ((47 =? 47) && beq seg []).
  change (47 =? 47) with true. rewrite andb_true_l.
  destruct (beq seg []) eqn:Enil; [reflexivity|].
  cbv zeta.
  change (replace_first [47] [64] (47 :: seg)) with (64 :: seg).
  rewrite !replace_all_single.
  change (flat_map (fun c => if c =? 95 then [95; 95] else [c]) (64 :: seg))
    with (64 :: flat_map dbl_us seg).
  rewrite (path_escape_keep 64) by reflexivity.
  change (flat_map (fun c => if c =? 37 then [95] else [c]) (64 :: path_escape (flat_map dbl_us seg)))
    with (64 :: flat_map pct_us (path_escape (flat_map dbl_us seg))).
  rewrite passes_encode. reflexivity.
Qed.

(* ------------------------------------------------------------------------------------ *)
(* the decoder                                                                            *)

Definition unhex (h : N) : N := if h <? 58 then h - 48 else h - 55.

Fixpoint decode (s : bytes) : bytes :=
  match s with
  | [] => []
  | c :: r =>
    if c =? 95 then
      match r with
      | [] => []
      | h :: r' =>
        if h =? 95 then 95 :: decode r'
        else match r' with
             | [] => []
             | l :: r'' => (unhex h * 16 + unhex l) :: decode r''
             end
      end
    else c :: decode r
  end.

(* inverse of tagName on its image of '/'-titles; the value elsewhere is irrelevant *)
Definition decode_name (n : bytes) : bytes :=
  if beq n [64; 95] then [47]
  else match n with
       | [] => []
       | _ :: r => 47 :: decode r
       end.

Lemma decode_uu r : decode (95 :: 95 :: r) = 95 :: decode r.
Proof. reflexivity. Qed.

Lemma decode_plain c r : (c =? 95) = false -> decode (c :: r) = c :: decode r.
Proof. intros Hc. cbn [decode]. rewrite Hc. reflexivity. Qed.

Lemma decode_esc h l r :
  (h =? 95) = false -> decode (95 :: h :: l :: r) = (unhex h * 16 + unhex l) :: decode r.
Proof.
  intros Hh. cbn [decode]. change (95 =? 95) with true. cbv iota. rewrite Hh. reflexivity.
Qed.

Lemma hex_digit_not95 n : n < 16 -> (hex_digit n =? 95) = false.
Proof.
  intros Hn. apply N.eqb_neq. unfold hex_digit. destruct (n <? 10) eqn:E10.
  - apply N.ltb_lt in E10. lia.
  - lia.
Qed.

Lemma unhex_hex_digit n : n < 16 -> unhex (hex_digit n) = n.
Proof.
  intros Hn. unfold hex_digit, unhex. destruct (n <? 10) eqn:E10.
  - apply N.ltb_lt in E10.
    destruct (48 + n <? 58) eqn:E58.
    + lia.
    + apply N.ltb_ge in E58. lia.
  - apply N.ltb_ge in E10.
    destruct (55 + n <? 58) eqn:E58.
    + apply N.ltb_lt in E58. lia.
    + lia.
Qed.

Lemma byte_nibbles c :
  c < 256 -> c / 16 < 16 /\ c mod 16 < 16 /\ c / 16 * 16 + c mod 16 = c.
Proof.
  intros Hc.
  assert (H16 : 16 <> 0) by discriminate.
  pose proof (N.div_mod c 16 H16) as Hdm.
  pose proof (N.mod_lt c 16 H16) as Hml.
  split; [apply N.div_lt_upper_bound; [exact H16 | lia]|].
  split; [exact Hml | lia].
Qed.

Lemma decode_enc_byte c r :
  is_byte c = true -> decode (enc_byte c ++ r) = c :: decode r.
Proof.
  intros Hb. unfold is_byte in Hb. apply N.ltb_lt in Hb.
  unfold enc_byte. destruct (c =? 95) eqn:E95.
  - apply N.eqb_eq in E95. subst c. cbn [app]. apply decode_uu.
  - destruct (path_unescaped c) eqn:Eun.
    + cbn [app]. apply decode_plain. exact E95.
    + cbn [app].
      destruct (byte_nibbles c Hb) as (Hhi & Hlo & Hsum).
      rewrite decode_esc by (apply hex_digit_not95; exact Hhi).
      rewrite !unhex_hex_digit by assumption.
      rewrite Hsum. reflexivity.
Qed.

Lemma decode_encode seg : all_bytes seg = true -> decode (encode seg) = seg.
Proof.
  induction seg as [|c seg IH]; [reflexivity|].
  unfold all_bytes. cbn [forallb]. intros Hall.
  apply andb_true_iff in Hall as [Hc Hseg].
  rewrite encode_cons, decode_enc_byte by exact Hc.
  rewrite IH by exact Hseg. reflexivity.
Qed.

(* no encoding is a lone '_': this is what keeps "@_" (for "/") apart from the generic branch *)
Lemma encode_not_lone_us seg : encode seg <> [95].
Proof.
  destruct seg as [|c seg]; [discriminate|].
  rewrite encode_cons. unfold enc_byte.
  destruct (c =? 95) eqn:E95; [discriminate|].
  destruct (path_unescaped c); [|discriminate].
  cbn [app]. intros Heq. injection Heq as Hc _. subst c. discriminate E95.
Qed.

(* ------------------------------------------------------------------------------------ *)
(* titles                                                                                 *)

(* a title that starts with '/' and consists of bytes *)
Definition slash_title (t : bytes) : bool :=
  match t with
  | [] => false
  | c :: seg => (c =? 47) && all_bytes seg
  end.

(* a title of the shape pathTagTitle returns: "/" ++ seg, seg without '/', all bytes < 256
   ("/" itself is the case seg = "") *)
Definition auto_title (t : bytes) : bool :=
  match t with
  | [] => false
  | c :: seg => (c =? 47) && negb (contains_byte 47 seg) && all_bytes seg
  end.

Lemma auto_title_slash_title t : auto_title t = true -> slash_title t = true.
Proof.
  destruct t as [|c seg]; [discriminate|]. cbn [auto_title slash_title].
  intros H. apply andb_true_iff in H as [H Hall]. apply andb_true_iff in H as [Hc _].
  rewrite Hc, Hall. reflexivity.
Qed.

Lemma decode_name_tagName t n :
  slash_title t = true -> tagName t = GOk n -> decode_name n = t.
Proof.
  destruct t as [|c seg]; [discriminate|]. cbn [slash_title].
  intros Hok Htn. apply andb_true_iff in Hok as [Hc Hall].
  apply N.eqb_eq in Hc. subst c.
  rewrite tagName_slash in Htn. injection Htn as <-.
  destruct (beq seg []) eqn:Enil.
  - apply beq_eq in Enil. subst seg. reflexivity.
  - unfold decode_name.
    destruct (beq (64 :: encode seg) [64; 95]) eqn:Especial.
    + exfalso. apply beq_eq in Especial. injection Especial as Henc.
      exact (encode_not_lone_us seg Henc).
    + rewrite decode_encode by exact Hall. reflexivity.
Qed.

(* stronger than asked: '/' inside the segment does not matter, only the leading one does *)
Lemma tagName_injective_slash_lemma t1 t2 n :
  slash_title t1 = true -> slash_title t2 = true ->
  tagName t1 = GOk n -> tagName t2 = GOk n -> t1 = t2.
Proof.
  intros Hok1 Hok2 Hn1 Hn2.
  rewrite <- (decode_name_tagName t1 n Hok1 Hn1).
  exact (decode_name_tagName t2 n Hok2 Hn2).
Qed.

Lemma tagName_injective_lemma t1 t2 n :
  auto_title t1 = true -> auto_title t2 = true ->
  tagName t1 = GOk n -> tagName t2 = GOk n -> t1 = t2.
Proof.
  intros Hok1 Hok2.
  apply tagName_injective_slash_lemma; apply auto_title_slash_title; assumption.
Qed.

(* the leading '/' is needed: without it the first-'/'-to-'@' pass collides with a literal '@' *)
Lemma tagName_not_injective_without_slash_prefix :
  exists t1 t2 n, t1 <> t2 /\ all_bytes t1 = true /\ all_bytes t2 = true /\
                  tagName t1 = GOk n /\ tagName t2 = GOk n.
Proof.
  exists (bs "a/b"), (bs "a@b"), (bs "a@b").
  split; [discriminate|]. vm_compute. repeat split.
Qed.

Lemma tagName_total_lemma t : exists n, tagName t = GOk n.
Proof.
  unfold tagName. destruct (beq t (bs "/")); eexists; reflexivity.
Qed.

Example auto_title_example :
  auto_title (bs "/a_b%c d") = true /\
  tagName (bs "/a_b%c d") = GOk (bs "@a__b_25c_20d") /\
  decode_name (bs "@a__b_25c_20d") = bs "/a_b%c d".
Proof. vm_compute. repeat split. Qed.

Example auto_title_root_example :
  auto_title (bs "/") = true /\ tagName (bs "/") = GOk (bs "@_") /\
  tagName (bs "/_") = GOk (bs "@__") /\ tagName (bs "/__") = GOk (bs "@____").
Proof. vm_compute. repeat split. Qed.

(* ------------------------------------------------------------------------------------ *)
(* pathTagTitle                                                                           *)

(* the pieces the Go loop steps over *)
Definition skippable (p : bytes) : Prop := p = [] \/ p = [46].

Lemma seg_skipped_spec p : seg_skipped p = true <-> skippable p.
Proof.
  unfold seg_skipped, skippable. rewrite orb_true_iff, !beq_eq. reflexivity.
Qed.

Lemma seg_skipped_false p : seg_skipped p = false <-> ~ skippable p.
Proof.
  rewrite <- seg_skipped_spec. destruct (seg_skipped p) eqn:Esk.
  - split; [discriminate | intros Hn; exfalso; apply Hn; reflexivity].
  - split; [intros _; discriminate | reflexivity].
Qed.

Lemma drop_skipped_spec l :
  exists pre, l = pre ++ drop_skipped l /\ Forall skippable pre /\
              match drop_skipped l with
              | [] => True
              | p :: _ => ~ skippable p
              end.
Proof.
  induction l as [|p ps IH].
  - exists []. repeat split. constructor.
  - cbn [drop_skipped]. destruct (seg_skipped p) eqn:Esk.
    + destruct IH as (pre & Hl & Hpre & Hhd).
      exists (p :: pre). split; [cbn [app]; rewrite <- Hl; reflexivity|].
      split; [constructor; [apply seg_skipped_spec; exact Esk | exact Hpre] | exact Hhd].
    + exists []. split; [reflexivity|]. split; [constructor|].
      apply seg_skipped_false. exact Esk.
Qed.

(* no piece of strings.Split(s, sep) contains sep *)
Lemma split_no_sep sep s c : In c (split_byte sep s) -> ~ In sep c.
Proof.
  revert c. induction s as [|x s IH]; intros c; cbn [split_byte].
  - intros [<-|[]] [].
  - destruct (x =? sep) eqn:Exs.
    + intros [<-|Hin]; [intros [] | exact (IH c Hin)].
    + apply N.eqb_neq in Exs.
      destruct (split_byte sep s) as [|q qs] eqn:Esp.
      * intros [<-|[]] [Hx|[]]. exact (Exs Hx).
      * intros [<-|Hin].
        -- intros [Hx|Hq]; [exact (Exs Hx) | exact (IH q (or_introl eq_refl) Hq)].
        -- exact (IH c (or_intror Hin)).
Qed.

Lemma split_all_bytes sep s c :
  all_bytes s = true -> In c (split_byte sep s) -> all_bytes c = true.
Proof.
  revert c. induction s as [|x s IH]; intros c Hall; cbn [split_byte].
  - intros [<-|[]]. reflexivity.
  - unfold all_bytes in Hall. cbn [forallb] in Hall.
    apply andb_true_iff in Hall as [Hx Hs]. fold (all_bytes s) in Hs.
    destruct (x =? sep).
    + intros [<-|Hin]; [reflexivity | exact (IH c Hs Hin)].
    + destruct (split_byte sep s) as [|q qs] eqn:Esp.
      * intros [<-|[]]. unfold all_bytes. cbn [forallb]. rewrite Hx. reflexivity.
      * intros [<-|Hin].
        -- unfold all_bytes. cbn [forallb]. rewrite Hx. cbn [andb].
           exact (IH q Hs (or_introl eq_refl)).
        -- exact (IH c Hs (or_intror Hin)).
Qed.

(* [first_kept l seg]: seg is the first element of l that is not skippable *)
Definition first_kept (l : list bytes) (seg : bytes) : Prop :=
  exists pre post, l = pre ++ seg :: post /\ Forall skippable pre /\ ~ skippable seg.

Lemma first_kept_unique l seg1 seg2 : first_kept l seg1 -> first_kept l seg2 -> seg1 = seg2.
Proof.
  intros (pre1 & post1 & Hl1 & Hpre1 & Hseg1) (pre2 & post2 & Hl2 & Hpre2 & Hseg2).
  subst l. revert pre2 Hl2 Hpre2.
  induction pre1 as [|a pre1 IH]; intros pre2 Hl2 Hpre2.
  - destruct pre2 as [|b pre2]; cbn [app] in Hl2.
    + injection Hl2 as Heq _. exact Heq.
    + injection Hl2 as Heq _. subst b. inversion Hpre2 as [|? ? Hb _]. contradiction.
  - inversion Hpre1 as [|? ? Ha Hpre1']. subst.
    destruct pre2 as [|b pre2]; cbn [app] in Hl2.
    + injection Hl2 as Heq _. subst a. contradiction.
    + injection Hl2 as _ Hrest. inversion Hpre2 as [|? ? _ Hpre2']. subst.
      exact (IH Hpre1' pre2 Hrest Hpre2').
Qed.

Lemma first_kept_none l seg : Forall skippable l -> ~ first_kept l seg.
Proof.
  intros Hall (pre & post & -> & _ & Hseg).
  apply Forall_app in Hall as [_ Hall]. inversion Hall as [|? ? Hs _]. contradiction.
Qed.

Lemma first_segment_spec path :
  match first_segment path with
  | Some seg => first_kept (split_byte 47 path) seg /\ ~ In 47 seg
  | None => Forall skippable (split_byte 47 path)
  end.
Proof.
  unfold first_segment.
  destruct (drop_skipped_spec (split_byte 47 path)) as (pre & Hl & Hpre & Hhd).
  destruct (drop_skipped (split_byte 47 path)) as [|p rest] eqn:Edrop.
  - rewrite app_nil_r in Hl. rewrite Hl. exact Hpre.
  - split.
    + exists pre, rest. split; [exact Hl|]. split; [exact Hpre | exact Hhd].
    + apply (split_no_sep 47 path). rewrite Hl. apply in_or_app. right. left. reflexivity.
Qed.

(* the characterisation of pathTagTitle *)
Lemma pathTagTitle_spec_lemma path :
  (exists seg, first_kept (split_byte 47 path) seg /\ ~ In 47 seg /\
               pathTagTitle path = 47 :: seg) \/
  (Forall skippable (split_byte 47 path) /\ pathTagTitle path = [47]).
Proof.
  pose proof (first_segment_spec path) as Hspec. unfold pathTagTitle.
  destruct (first_segment path) as [seg|].
  - left. exists seg. destruct Hspec as [Hfk Hns]. repeat split; assumption.
  - right. split; [exact Hspec | reflexivity].
Qed.

(* spec-level corollaries, stated without the model's first_segment *)
Lemma pathTagTitle_of_first_kept path seg :
  first_kept (split_byte 47 path) seg -> pathTagTitle path = 47 :: seg.
Proof.
  intros Hfk. destruct (pathTagTitle_spec_lemma path) as [(seg' & Hfk' & _ & Ht)|[Hall _]].
  - rewrite Ht, (first_kept_unique _ _ _ Hfk Hfk'). reflexivity.
  - exfalso. exact (first_kept_none _ _ Hall Hfk).
Qed.

Lemma pathTagTitle_same_segment p1 p2 seg :
  first_kept (split_byte 47 p1) seg -> first_kept (split_byte 47 p2) seg ->
  pathTagTitle p1 = pathTagTitle p2.
Proof.
  intros H1 H2.
  rewrite (pathTagTitle_of_first_kept p1 seg H1), (pathTagTitle_of_first_kept p2 seg H2).
  reflexivity.
Qed.

Lemma pathTagTitle_diff_segment p1 p2 seg1 seg2 :
  first_kept (split_byte 47 p1) seg1 -> first_kept (split_byte 47 p2) seg2 ->
  seg1 <> seg2 -> pathTagTitle p1 <> pathTagTitle p2.
Proof.
  intros H1 H2 Hne.
  rewrite (pathTagTitle_of_first_kept p1 seg1 H1), (pathTagTitle_of_first_kept p2 seg2 H2).
  intros Heq. injection Heq as Heq. exact (Hne Heq).
Qed.

(* a path with a segment never gets the title of a path without one *)
Lemma pathTagTitle_segment_vs_none p1 p2 seg :
  first_kept (split_byte 47 p1) seg -> Forall skippable (split_byte 47 p2) ->
  pathTagTitle p1 <> pathTagTitle p2.
Proof.
  intros H1 H2. rewrite (pathTagTitle_of_first_kept p1 seg H1).
  destruct (pathTagTitle_spec_lemma p2) as [(seg' & Hfk' & _)|[_ Ht]].
  - exfalso. exact (first_kept_none _ _ H2 Hfk').
  - rewrite Ht. intros Heq. injection Heq as ->.
    destruct H1 as (_ & _ & _ & _ & Hns). apply Hns. left. reflexivity.
Qed.

(* model-level versions *)
Lemma pathTagTitle_same_first_segment p1 p2 :
  first_segment p1 = first_segment p2 -> pathTagTitle p1 = pathTagTitle p2.
Proof. unfold pathTagTitle. intros ->. reflexivity. Qed.

Lemma pathTagTitle_diff_first_segment p1 p2 :
  first_segment p1 <> first_segment p2 -> pathTagTitle p1 <> pathTagTitle p2.
Proof.
  unfold pathTagTitle. intros Hne.
  pose proof (first_segment_spec p1) as Hs1. pose proof (first_segment_spec p2) as Hs2.
  destruct (first_segment p1) as [s1|], (first_segment p2) as [s2|].
  - intros Heq. injection Heq as Heq. apply Hne. rewrite Heq. reflexivity.
  - intros Heq. injection Heq as ->. destruct Hs1 as [(_ & _ & _ & _ & Hns) _].
    apply Hns. left. reflexivity.
  - intros Heq. injection Heq as <-. destruct Hs2 as [(_ & _ & _ & _ & Hns) _].
    apply Hns. left. reflexivity.
  - congruence.
Qed.

(* pathTagTitle only returns titles on which tagName is injective *)
Lemma pathTagTitle_auto_title path :
  all_bytes path = true -> auto_title (pathTagTitle path) = true.
Proof.
  intros Hall.
  destruct (pathTagTitle_spec_lemma path) as [(seg & Hfk & Hns & Ht)|[_ Ht]]; rewrite Ht.
  - cbn [auto_title]. change (47 =? 47) with true. cbn [andb].
    destruct Hfk as (pre & post & Hl & _ & _).
    assert (Hin : In seg (split_byte 47 path)).
    { rewrite Hl. apply in_or_app. right. left. reflexivity. }
    rewrite (split_all_bytes 47 path seg Hall Hin), andb_true_r.
    destruct (contains_byte 47 seg) eqn:Ecb; [|reflexivity].
    exfalso. apply contains_byte_spec in Ecb. exact (Hns Ecb).
  - reflexivity.
Qed.

Lemma auto_tag_names_distinct_lemma p1 p2 n1 n2 :
  all_bytes p1 = true -> all_bytes p2 = true ->
  pathTagTitle p1 <> pathTagTitle p2 ->
  tagName (pathTagTitle p1) = GOk n1 -> tagName (pathTagTitle p2) = GOk n2 ->
  n1 <> n2.
Proof.
  intros Hb1 Hb2 Hne Hn1 Hn2 Heq. subst n2. apply Hne.
  exact (tagName_injective_lemma _ _ n1 (pathTagTitle_auto_title p1 Hb1)
           (pathTagTitle_auto_title p2 Hb2) Hn1 Hn2).
Qed.

Example pathTagTitle_examples :
  pathTagTitle (bs "/./a_b/c") = bs "/a_b" /\ pathTagTitle (bs "") = bs "/" /\
  pathTagTitle (bs "/.//") = bs "/" /\ pathTagTitle (bs "x/y") = bs "/x" /\
  pathTagTitle (bs "/../y") = bs "/..".
Proof. vm_compute. repeat split. Qed.
